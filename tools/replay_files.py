#!/usr/bin/env python3
# tools/replay_files.py <replay.json> <dir>: writes the inputs of a planner /
# mutation replay as files (<dir>/a/router, <dir>/b/router[.raw|.info],
# <dir>/b/ipv6/router) so that 'drc <dir>/a/router <dir>/b/router' repeats it.
import json,os,sys
d=json.load(open(sys.argv[1])); out=sys.argv[2]
inp=d.get('inputs') or d.get('Inputs') or {}
os.makedirs(out+'/a',exist_ok=True); os.makedirs(out+'/b/ipv6',exist_ok=True)
model=(d.get('engine') or d.get('Engine') or '').split('/')[-1]
names={'asa':'ASA','ios':'IOS','linux':'Linux','panos':'PAN-OS','pan-os':'PAN-OS','nsx':'NSX'}
info=inp.get('info') or '{"model":"%s"}'%names.get(model,model)
open(out+'/a/router','w').write(inp.get('device',''))
open(out+'/a/router.info','w').write(info)
open(out+'/b/router','w').write(inp.get('code',''))
open(out+'/b/router.info','w').write(info)
if inp.get('raw'): open(out+'/b/router.raw','w').write(inp['raw'])
if inp.get('code6'): open(out+'/b/ipv6/router','w').write(inp['code6'])
print(model, list(inp.keys()))
