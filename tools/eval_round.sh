#!/bin/bash
# tools/eval_round.sh <suffix> [ids...]
# For the sub-agent outputs /tmp/mut/<ID><suffix>-out: confirm the patch
# (tools/verify_seed.sh) and run the property's own quick check against it
# in scratch copies (tools/try_seed_iso.sh).  One line per seed.
SFX=$1; shift
IDS=${*:-C01 C02 C03 C04 C05 C06 C07 C08 C09 C10 C11 C12 C13 C14 C15 C16 C17 C18 C19 C20}
for p in $IDS; do
  id=$p$SFX
  [ -f /tmp/mut/$id-out/patch.diff ] || { echo "== $id (no patch yet)"; continue; }
  v=$(/verif/tools/verify_seed.sh /tmp/mut/$id /tmp/mut/$id-out/patch.diff 2>&1 | tail -1 | cut -c1-15)
  r=$(/verif/tools/try_seed_iso.sh /tmp/mut/$id-out/patch.diff $p | tr '\n' ' ')
  echo "== $id $v :: $r"
done
