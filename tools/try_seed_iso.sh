#!/bin/bash
# tools/try_seed_iso.sh <patch.diff|none> [check ids...]
# Like tools/try_seed.sh, but /repo is not touched: a scratch copy of /repo
# (with the patch applied) and a scratch copy of /verif are used, so it can
# run while other checks use /repo.  Prints one line per check.
set -u
PATCH=$1; shift
[ "$PATCH" = none ] || PATCH=$(readlink -f "$PATCH")
CHECKS=${*:-C01 C02 C03 C04 C05 C06 C07 C08 C09 C10 C11 C12 C13 C14 C15 C16 C17 C18 C19 C20}
W=$(mktemp -d /dev/shm/verif-seediso.XXXX)
trap 'rm -rf $W' EXIT
mkdir -p $W/repo $W/verif
(cd /repo && git archive HEAD) | tar -x -C $W/repo
(cd $W/repo && git init -q . && { [ "$PATCH" = none ] || git apply "$PATCH"; }) || { echo "patch does not apply"; exit 2; }
(cd /verif && git ls-files -z | grep -zv '^replays/\|^evidence/\|^seeded/' | xargs -0 tar -c) | tar -x -C $W/verif
mkdir -p $W/verif/evidence
export VERIF_REPO=$W/repo VERIF_DIR=$W/verif
export GOFLAGS=-mod=mod GOPROXY=off GOSUMDB=off GOTOOLCHAIN=local
cd $W/verif
if ! ./build.sh > .build.log 2>&1; then echo "BUILD FAILED"; tail -5 .build.log; exit 3; fi
for c in $CHECKS; do
  out=$(./.build/verif $c quick 2>&1); rc=$?
  sigs=$(echo "$out" | grep "unknown violations" | sed 's/.*signature=//' | head -4 | tr '\n' ';')
  echo "$c exit=$rc $sigs"
done
rm -rf /dev/shm/verif-seed-replays; cp -a replays /dev/shm/verif-seed-replays 2>/dev/null
