#!/usr/bin/env python3
# Prints the table of DESIGN.md section 8.2 from evidence/*.json.
import json,glob,os
rows=[]
for f in sorted(glob.glob(os.path.join(os.path.dirname(__file__),'..','evidence','C*.json'))):
    d=json.load(open(f)); c=d['coverage']
    sp=[(k[6:],v) for k,v in c.get('counters',{}).items() if k.startswith('space:')]
    sp=", ".join("%s %s"%(k,v) for k,v in sorted(sp)) or "-"
    extra=[]
    for k in ['cut_states','commands_executed','packet_evaluations','mutations','option_mutations','end_to_end_runs','process_level_contender_runs','scp_fault_runs','concurrent_pairs','commit_during_run_cases','inputs','dynamic_occurrences','merge_shape_inputs','max_depth']:
        if k in c.get('counters',{}): extra.append("%s=%s"%(k,c['counters'][k]))
    rows.append("| %s | %s | %s | %s / %s | %s | %.0f s |"%(d['property_id'],d['tier'],c['evaluations'],c.get('states',0),c.get('transitions',0),(sp+("; "+", ".join(extra) if extra else ""))[:400],d['wall_s']))
print("| id | tier | evaluations | states / transitions | spaces (cases) and counters | wall |\n|---|---|---|---|---|---|")
print("\n".join(rows))
