#!/bin/bash
# tools/try_seed.sh <patch.diff> [check ids...]
# Applies a seeded change to /repo, runs the given checks (default: all) in
# the quick tier, prints one line per check, and undoes the change.
# /repo must be clean before; it is clean afterwards.  evidence/ and
# replays/ are restored (runs against a changed tree are not evidence);
# the replay files of the seeded run are kept in /dev/shm/verif-seed-replays.
set -u
PATCH=$1; shift
CHECKS=${*:-C01 C02 C03 C04 C05 C06 C07 C08 C09 C10 C11 C12 C13 C14 C15 C16 C17 C18 C19 C20}
cd /verif
if [ -n "$(git -C /repo status --porcelain)" ]; then echo "/repo not clean"; exit 2; fi
if ! git -C /repo apply "$PATCH"; then echo "patch does not apply"; exit 2; fi
SAVE=$(mktemp -d /dev/shm/verif-seedsave.XXXX)
cp -a evidence replays $SAVE/ 2>/dev/null
trap 'git -C /repo checkout -- . ; git -C /repo clean -fdq go bin 2>/dev/null; rm -rf /verif/evidence /verif/replays; cp -a $SAVE/evidence $SAVE/replays /verif/ 2>/dev/null; rm -rf $SAVE; ./build.sh > /dev/null 2>&1' EXIT
if ! ./build.sh > .build.log 2>&1; then echo "BUILD FAILED"; tail -5 .build.log; exit 3; fi
for c in $CHECKS; do
  out=$(./.build/verif $c quick 2>&1); rc=$?
  sigs=$(echo "$out" | grep "unknown violations" | sed 's/.*signature=//' | head -4 | tr '\n' ';')
  echo "$c exit=$rc $sigs"
done
rm -rf /dev/shm/verif-seed-replays; cp -a replays /dev/shm/verif-seed-replays 2>/dev/null
