#!/bin/bash
# tools/verify_seed.sh <worktree> <patch.diff>
# Confirms that a seeded change (applied in <worktree>) is exactly
# <patch.diff>, compiles, and leaves the pinned test suite's result
# unchanged (same set of failing subtests as /repo itself).
set -u
export GOFLAGS=-mod=mod GOPROXY=off GOSUMDB=off GOTOOLCHAIN=local
WT=$1; PATCH=$2
suite() { (cd $1/go && go test -vet=off -count=1 ./... 2>&1 | grep -E -- "--- FAIL|^ok|^FAIL" | sed 's/ (.*//; s/\t[0-9.]*s$//' | sort); }
BASE=/dev/shm/verif-baseline-suite.txt
[ -s $BASE ] || suite /repo > $BASE
if ! diff <(git -C $WT diff) $PATCH >/dev/null; then echo "worktree diff != patch.diff"; exit 1; fi
(cd $WT/go && go build ./...) || { echo "does not compile"; exit 1; }
suite $WT > /dev/shm/verif-seed-suite.$$
if diff $BASE /dev/shm/verif-seed-suite.$$; then echo "SUITE-UNCHANGED ($(grep -c -- '--- FAIL' $BASE) root-permission failures as on /repo)"; rc=0; else echo "SUITE-DIFFERS"; rc=1; fi
rm -f /dev/shm/verif-seed-suite.$$
exit $rc
