#!/usr/bin/env python3
"""Show replay files compactly: tools/showreplay.py <dir-or-file> [n]"""
import json, sys, os, glob
src = sys.argv[1]
n = int(sys.argv[2]) if len(sys.argv) > 2 else 5
files = sorted(glob.glob(os.path.join(src, "*.json"))) if os.path.isdir(src) else [src]
seen = {}
for f in files:
    v = json.load(open(f))
    k = (v.get("signature"), v.get("space"))
    seen[k] = seen.get(k, 0) + 1
    if seen[k] > n:
        continue
    print("=" * 70)
    print(os.path.basename(f), "sig=%r space=%s index=%s step=%s oracle=%s" % (
        v.get("signature"), v.get("space"), v.get("index"), v.get("failing_step"), v.get("oracle")))
    for k2, t in (v.get("inputs") or {}).items():
        print("--- %s" % k2)
        print(t.rstrip())
    if v.get("events"):
        print("--- events"); print("\n".join(v["events"]))
    if v.get("script"):
        print("--- script")
        print("\n".join(v["script"]))
    print("--- message")
    print(v.get("message"))
