#!/usr/bin/env python3
"""Generates /verif/MANIFEST.json from the table below (kept valid at all
times: properties without a check are listed under not_applicable with the
reason)."""
import json, os

V = os.path.dirname(os.path.dirname(os.path.abspath(__file__)))

ALL = ["C%02d" % i for i in range(1, 21)]

# id -> (category, engine, technique, level text, level note, design ref)
CHECKS = {
 "C14": ("model_checking", "approvex/cisco",
  "explicit-state exploration: exhaustive enumeration of (old ACL, new ACL) and route-set pairs, real planner as transition function, reference device model executes every script line, packet/route invariants after every step",
  "Every pair of duplicate-free ACLs over an overlapping 7-line (thorough: 8-line) alphabet up to length 3 (4), for ASA and IOS, and every pair of route subsets; the invariant (18 packets keep an agreed verdict, covered destinations stay covered) is evaluated in every intermediate state. Exhaustive within the bound, so it is a bounded model check of the real diff code; what lies beyond the alphabet is not covered.",
  "Trusts the reference device model (first-match ACL evaluation, IOS empty ACL passes all, joined lines are one step); model validated against the 172 ASA/IOS DEVICE/NETSPOC/OUTPUT triples of the repository's tests (verif selftest).",
  "DESIGN.md 4 C14"),
}

NOT_YET = "check not built yet in this round (design in DESIGN.md section 4); no technique switch intended"

def main():
    checks = []
    for pid in ALL:
        if pid not in CHECKS:
            continue
        cat, engine, tech, text, note, ref = CHECKS[pid]
        checks.append({
            "property_id": pid,
            "quick_cmd": "./run %s quick" % pid,
            "thorough_cmd": "./run %s thorough" % pid,
            "evidence_file": "/verif/evidence/%s.json" % pid,
            "replay_cmd_template": "./.build/verif replay {path}",
            "engine": engine,
            "level_claimed": {"category": cat, "text": text, "design_ref": ref},
            "level_note": note,
            "technique": tech,
        })
    engines = {}
    for pid, c in CHECKS.items():
        engines.setdefault(c[1], []).append(pid)
    m = {
        "version": 1,
        "setup_cmd": "./build.sh all",
        "hooks": {
            "guard": "verif",
            "enable": "no source change in /repo: instrumentation is applied at check time with 'go build -overlay' (files tagged //go:build verif, built with -tags verif) from /verif/harness; see MANIFEST.hooks",
            "baseline_off_cmd": "cd /repo/go && GOFLAGS=-mod=mod GOPROXY=off go test -vet=off -count=1 ./...",
            "source_commits": [],
            "add_only": True,
        },
        "engines": [{"name": k, "path": "/verif/harness", "serves_properties": sorted(v),
                     "kind_free_text": "Go, exhaustive enumeration driver + reference models, sharded over worker processes"}
                    for k, v in sorted(engines.items())],
        "checks": checks,
        "not_applicable": [{"property_id": p, "reason": NOT_YET} for p in ALL if p not in CHECKS],
        "notes": "All checks: ./run <id> quick|thorough. Known findings: known-findings.json (+ findings/*.cases).",
    }
    with open(os.path.join(V, "MANIFEST.json"), "w") as f:
        json.dump(m, f, indent=1)
        f.write("\n")

if __name__ == "__main__":
    main()
