#!/usr/bin/env python3
"""Generates /verif/MANIFEST.json from the table below (kept valid at all
times: properties without a check are listed under not_applicable with the
reason)."""
import json, os

V = os.path.dirname(os.path.dirname(os.path.abspath(__file__)))

ALL = ["C%02d" % i for i in range(1, 21)]

# id -> (category, engine, technique, level text, level note, design ref)
CHECKS = {
 "C14": ("model_checking", "approvex/cisco",
  "explicit-state exploration: exhaustive enumeration of (old ACL, new ACL) and route-set pairs, real planner as transition function, reference device model executes every script line, packet/route invariants after every step",
  "Every pair of duplicate-free ACLs over an overlapping 7-line (thorough: 8-line) alphabet up to length 3 (4), for ASA and IOS, and every pair of route subsets; the invariant (18 packets keep an agreed verdict, covered destinations stay covered) is evaluated in every intermediate state. Exhaustive within the bound, so it is a bounded model check of the real diff code; what lies beyond the alphabet is not covered.",
  "Trusts the reference device model (first-match ACL evaluation, IOS empty ACL passes all, joined lines are one step); model validated against the 172 ASA/IOS DEVICE/NETSPOC/OUTPUT triples of the repository's tests (verif selftest).",
  "DESIGN.md 4 C14"),
}

CHECKS.update({
 "C01": ("model_checking", "approvex/cisco",
  "explicit-state exploration: exhaustive enumeration of (device,target) pairs over small colliding alphabets + corpus product + BFS chain of approves; real planner as transition function; reference ASA model executes the script; oracle = semantic view equality + silent second compare",
  "All pairs of the spaces acl, grp, rt, bind, spell, vpn, corpus and a breadth-first chain of approves (states reached only through earlier approves) are run through the real planner; the script is executed on an independent ASA model and the managed view (anchors with references expanded by content, so generated names do not matter) is compared with the target's; the printed result is compared again and must yield an empty script. Exhaustive inside the stated alphabets.",
  "Trusts the reference ASA model and its semantic view (validated on the repository's 172 ASA/IOS triples); content outside the alphabets is not covered; targets with IPv6/raw parts are checked by the second-compare oracle only.",
  "DESIGN.md 4 C01"),
 "C02": ("model_checking", "approvex/cisco",
  "explicit-state exploration as C01 with the IOS flavour of the device model (sequence numbers, resequence, sub-modes); oracle = per-interface ACLs as sequences of same-action runs (sets) + routes per managed VRF + silent second compare for both print forms",
  "All pairs of the IOS spaces acl (block structured, with/without IOS-XE sequence numbers), rt, vrf, intf, crypto, corpus and a chain of approves; script executed on the IOS model; semantic view compares ACLs as sequences of maximal same-action runs. Exhaustive inside the alphabets.",
  "Trusts the reference IOS model; 'match address' of IOS crypto maps is unmanaged (as the tool documents).",
  "DESIGN.md 4 C02"),
 "C08": ("model_checking", "approvex/cisco+panos",
  "explicit-state exploration: every command of every script of the C01/C02 spaces (and chain states) is executed at its position on a device model that enforces referential integrity, duplicate-entry, line-number and configuration-mode rules",
  "The device models reject exactly the classes of commands the statement lists; each script line of each enumerated pair is executed in order and the first rejection is a violation. ASA and IOS now; PAN-OS and NSX are added with their models.",
  "Trusts that the models are not stricter than the devices in other respects (checked by executing all expected outputs of the repository's tests: none is rejected).",
  "DESIGN.md 4 C08"),
 "C10": ("model_checking", "approvex/cisco",
  "crash-point enumeration inside explicit-state exploration: every proper prefix of every script (cut also between the halves of a joined line and inside sub-mode blocks) yields a state that is fed back to the real planner; second script executed on the model, result compared semantically, third compare silent",
  "For every pair of the reduced spaces and every cut position k the device model state after k commands is printed and given to the planner again; the resumed run must be accepted by the model and must converge. Exhaustive over pairs x cut positions inside the alphabets. The last cut position on PAN-OS (all changes in the candidate configuration, cut at the commit) runs in the HTTPS simulator, which keeps candidate and running configuration apart.",
  "Crash model: commands before the cut have fully taken effect, the cut command and later ones not at all.",
  "DESIGN.md 4 C10"),
})

CHECKS.update({
 "C05": ("model_checking", "approvex/linux",
  "explicit-state exploration: all pairs of route sets and of netfilter rulesets (both spellings), real planner as transition, independent kernel model (ip route add/del, iptables-restore/-save semantics) executes the script; oracle = exact route/ruleset equality + silent round trip in kernel spelling + single-value mutations must be reported",
  "All pairs of route subsets, all pairs of FORWARD chains over a rule alphabet that covers every normalisation rule of the statement (device in Netspoc and in iptables-save spelling), all pairs of table/chain/policy structures and the linux corpus product; the route commands run one by one on the kernel model, the restore file is loaded with iptables-restore semantics. Exhaustive inside the alphabets.",
  "Kernel model is lenient for several next hops to one destination (see DESIGN 3.2); scp of the startup files is outside (short-circuited by the tool under simulation).",
  "DESIGN.md 4 C05"),
})

CHECKS.update({
 "C03": ("model_checking", "approvex/panos",
  "explicit-state exploration: all pairs of vsys configurations over rule/object alphabets + corpus product + chain; real planner as transition; independent PAN-OS candidate-config model executes set/edit/delete/move; oracle = ordered rules with objects expanded by value + silent second compare",
  "All pairs of rule sequences, of group member sets with naming/value variants, of service variants and of two-vsys structures, the pan-os corpus product and a chain of approves; every XML-API command is executed on the model and the resulting rulebase is compared by value with the target. Exhaustive inside the alphabets.",
  "Trusts the PAN-OS model (set merges, edit replaces, delete refuses referenced objects, move needs its destination), validated on the 34 executable DEVICE/NETSPOC/OUTPUT triples of pan-os.t (one triple documents finding F-C08-panos-service-group-set).",
  "DESIGN.md 4 C03"),
})

CHECKS.update({
 "C04": ("model_checking", "approvex/nsx",
  "explicit-state exploration: all pairs of NSX states over rule/group/service alphabets + corpus product + chain; real planner as transition; independent NSX manager model executes PUT/PATCH/POST/DELETE; oracle = rule multisets with groups as address sets and services by definition, no left-overs, silent second compare",
  "All pairs of rule subsets, of group address sets with naming variants, of service variants and policy structures, the nsx corpus product and a chain of approves; every REST call is executed on the model. Exhaustive inside the alphabets.",
  "Trusts the NSX model, validated on the 40 executable DEVICE/NETSPOC/OUTPUT triples of nsx.t; only documented rule attributes are compared.",
  "DESIGN.md 4 C04"),
})

CHECKS.update({
 "C20": ("exploration", "mutx",
  "exhaustive enumeration of the statement's finite mutation family (every line x every operator x both argument positions, whole-file cases, info files), each mutant run through the real CompareFiles in-process with panic classification by call site and a per-case watchdog (mutants that may end in an unrecoverable fatal error run through the built drc binary); operators: token truncation / deletion / duplication / swap, second blank, last token repeated, indentation, emptied line, file truncation, JSON value replacement (NSX), XML element emptied / deleted / self-reference (PAN-OS), role changes of whole files",
  "The family the statement defines is finite and is enumerated completely (quick: truncation, token deletion, emptied line, second blank, repeated last token, JSON null, XML operators, role changes; thorough: all operators). Every mutant is executed; exit status, message and panic site are classified. This is exhaustive exploration of a stated finite input family, not sampling.",
  "In-process recover() stands for the exit status 2 + trace of the binaries; do-approve/missing-approve status files are covered by C13's damage events.",
  "DESIGN.md 4 C20"),
})

CHECKS.update({
 "C18": ("exploration", "approvex/merge",
  "exhaustive enumeration of part-shape combinations (IPv4 x IPv6 x raw prepend x raw APPEND x naming) for all five device types; the effective target is observed by executing the real planner's script for an empty device on the reference models; oracle = independent list predicates for completeness, intra-part order, raw-first and APPEND position; plus a fixed list of unmergeable raw entries that must be reported",
  "All combinations of the stated part shapes are enumerated (954 cases); the merge result is observed end to end (real merge + real diff + model execution) and checked with predicates that share nothing with the tool's merge code.",
  "Relative order of IPv4 vs IPv6 entries is not prescribed and not checked; entries per part are bounded (<=3/2/2).",
  "DESIGN.md 4 C18"),
})

CHECKS.update({
 "C07": ("model_checking", "approvex/cisco+panos",
  "explicit-state exploration: managed pair space x all subsets (bounded size) of an alphabet of unmanaged items; real planner as transition; the frame invariant (every unmanaged entry still present and textually unchanged; PAN-OS: XML outside the targeted vsys identical) is evaluated after every executed command on the reference models",
  "Device states combine a managed ACL pair space with every subset of up to 2 (thorough 4) unmanaged items; the invariant is checked in every intermediate state, so a transient deletion is caught as well. Exhaustive inside the alphabets. NSX's prefix filter sits in the code that reads the manager and is exercised by the dialogue engines instead.",
  "The alphabet of unmanaged items follows the statement's list; other kinds of foreign configuration are not covered.",
  "DESIGN.md 4 C07"),
})

CHECKS.update({
 "C13": ("model_checking", "histx",
  "explicit-state breadth-first search over event histories with canonical-state de-duplication; every transition runs the real status.SetApprove/SetCompare on a real directory tree and the real missing-approve binary; invariants must-list / must-omit from an independently tracked reference (latest conclusive observation) are evaluated in every reached state; end to end through the real do-approve for every device type, and with the repository's cron scripts (compress-policies, delete-old-policies) run on the tree before missing-approve",
  "All event sequences of the statement's alphabet up to depth 5 (thorough 7) are covered through BFS over canonical states; the reference automaton is 15 lines and tracks only the event list. Every transition is an implementation run, so there is no model/implementation gap.",
  "Status is written through the status package as do-approve does after a run; clock strictly increasing.",
  "DESIGN.md 4 C13 + appendix D"),
})

CHECKS.update({
 "C06": ("fault_enumeration", "dialogx",
  "exhaustive enumeration of the interlock product (device type x front end x hostname x marker x pending changes, PAN-OS HA answers); each combination is a real approve run in-process against a device simulator (fake expect peer / TLS server); transcript classification + device model state decide",
  "The statement's configuration product is finite and enumerated completely (168 runs). Each run goes through the real login, read, compare and approve code.",
  "Simulators classify received lines from device semantics; NSX left out (no hostname/marker/HA in the statement).",
  "DESIGN.md 4 C06"),
 "C09": ("fault_enumeration", "dialogx",
  "deviation-bounded stateless exploration of the device side of the dialogue: baseline + every single non-default answer (error text, garbage, stall, close, HTTP status, malformed body, failed/pending commit job, ...) at every answer point, thorough: all ordered pairs; real front ends in-process; oracle on transcript, exit status, status and history files",
  "For 20 scenarios (5 device types x 4 front ends) every answer point x every deviation kind is run (1556 runs quick). Exhaustive for deviation bound 1 (thorough: bound 2 for do-approve approve).",
  "One chunk per device answer; goexpect replaced by a synchronous stand-in (virtual time); HTTPS stalls are real.",
  "DESIGN.md 4 C09"),
 "C11": ("fault_enumeration", "dialogx",
  "same explorer as C09 on compare dialogues x interlock variants; oracle: transcript read-only (by simulator classification) and device model state unchanged",
  "47 compare scenarios (device type x front end x interlock variant), baseline + every single deviation at every point (2421 runs), thorough all ordered pairs.",
  "As C09.",
  "DESIGN.md 4 C11"),
})

CHECKS.update({
 "C17": ("fault_enumeration", "dialogx",
  "same deviation-bounded explorer as C09 with unique secrets; after every run (success and every single fault at every point) all artefacts are byte-scanned for each secret in plain, URL-, path-, XML-escaped form and every 8-byte window",
  "22 scenarios, baseline + every single deviation at every answer point (1836 runs); every file the run leaves plus stdout/stderr is scanned.",
  "Secrets contain characters that need escaping; device never echoes at password prompts.",
  "DESIGN.md 4 C17"),
})

CHECKS.update({
 "C15": ("fault_enumeration", "dialogx/ios",
  "exhaustive enumeration of banner kind x form x position (every character offset inside the echo) x command inside the reload window, plus C09's single deviations, on an IOS simulator with reload state; ordering invariant and re-arm rule evaluated on the transcript of every run",
  "3 change scripts; every single banner placement (2398 runs quick), thorough all ordered pairs; the ordering invariant is also evaluated on every single-deviation run.",
  "Banner forms as the repository's own simulator scenarios produce them; virtual time.",
  "DESIGN.md 4 C15"),
})

CHECKS.update({
 "C16": ("exploration", "mapx",
  "schedule enumeration where a schedule is the iteration order of a Go map: an AST rewriter (tools/maprange, build overlay) routes every `range <map>` of the repository through a shim; all orders (n<=4) or rotations/reversal/adjacent transpositions of every dynamic occurrence are run, one (thorough: two) deviating occurrence per run, and stdout/stderr/exit status compared byte for byte with the canonical-order run",
  "36 static range-over-map sites are instrumented mechanically (found by type, not by line number); 1542 inputs (all corpus pairs + tie-rich generated ones), 228k runs quick. Exhaustive for deviation bound 1 over the listed inputs.",
  "Map order is the only nondeterminism on the planning path; if the rewriter finds no site the build fails ('instrumentation point not found').",
  "DESIGN.md 4 C16"),
})

CHECKS.update({
 "C12": ("model_checking", "lockx",
  "stateless exhaustive interleaving exploration of the real device.SetLock under a cooperative scheduler (a scheduling point in front of every system call of SetLock, inserted by a build overlay; also inside its retry loop), real file system and real flock; the lock-file clean-up of bin/delete-old-policies is a further actor (its steps are chosen from the text of the script); plus process-level enumeration of holder phases x contender variants x release/kill with the real binaries",
  "All interleavings of 2 and 3 contenders and of 2 contenders plus the housekeeping job (1.07 million executions, 17.8 million scheduled steps in the quick tier; thorough adds 3 contenders plus the job with at most 5 preemptions) are executed as a depth-first search that replays each execution from scratch; the invariant 'one holder per device, losers fail at once with the right message, nobody blocks, replay never diverges' is checked on each. Process level: see rule text.",
  "Atomicity of the single system calls; Linux flock on a local file system.",
  "DESIGN.md 4 C12"),
})

CHECKS.update({
 "C19": ("model_checking", "shx",
  "explicit-state BFS over histories of the real newpolicy.sh run under a bash DEBUG trap: crash points = SIGKILL before every simple command of every run, events = commits (good / bad, revertible or not) and runs; directory trees as states with canonical de-duplication; database invariants after every event plus a liveness step (one undisturbed run from every reached state); concurrency: second run to completion while the first is paused at each step",
  "From 4 initial states (empty, one run, a history with two bad commits, a good commit no run has seen) all event sequences to depth 2 (thorough 3) incl. a kill before each of the ~60-120 steps of each run are executed with the real script, real git and real flock (1335 transitions + 1275 liveness runs quick).",
  "Stub compiler and mail; kills inside git/mv/ln are outside; sudo wrapper not exercised.",
  "DESIGN.md 4 C19"),
})

NOT_YET = "check not built yet in this round (design in DESIGN.md section 4); no technique switch intended"

def main():
    checks = []
    for pid in ALL:
        if pid not in CHECKS:
            continue
        cat, engine, tech, text, note, ref = CHECKS[pid]
        checks.append({
            "property_id": pid,
            "quick_cmd": "./run %s quick" % pid,
            "thorough_cmd": "./run %s thorough" % pid,
            "evidence_file": "/verif/evidence/%s.json" % pid,
            "replay_cmd_template": "./.build/verif replay {path}",
            "engine": engine,
            "level_claimed": {"category": cat, "text": text, "design_ref": ref},
            "level_note": note,
            "technique": tech,
        })
    engines = {}
    for pid, c in CHECKS.items():
        engines.setdefault(c[1], []).append(pid)
    m = {
        "version": 1,
        "setup_cmd": "./build.sh all",
        "hooks": {
            "guard": "verif",
            "enable": "no source change in /repo: ./build.sh builds the drivers with go build -tags verif (goexpect replaced by a stand-in module through the harness go.mod; for C16/C12 additionally -overlay with the map-range rewrite + verifmap shim + lock points, files of /repo only); see MANIFEST.hooks",
            "baseline_off_cmd": "cd /repo/go && GOFLAGS=-mod=mod GOPROXY=off go test -vet=off -count=1 ./...",
            "source_commits": [],
            "add_only": True,
        },
        "engines": [{"name": k, "path": "/verif/harness", "serves_properties": sorted(v),
                     "kind_free_text": "Go, exhaustive enumeration driver + reference models, sharded over worker processes"}
                    for k, v in sorted(engines.items())],
        "checks": checks,
        "not_applicable": [{"property_id": p, "reason": NOT_YET} for p in ALL if p not in CHECKS],
        "notes": "All checks: ./run <id> quick|thorough. Known findings: known-findings.json (+ findings/*.cases).",
    }
    with open(os.path.join(V, "MANIFEST.json"), "w") as f:
        json.dump(m, f, indent=1)
        f.write("\n")

if __name__ == "__main__":
    main()
