#!/bin/bash
# Regenerates findings/C14.*.cases from the current quick spaces (run after a
# reviewed change of the C14 spaces; the checks themselves never write these).
cd /verif; rm -rf /tmp/cases; VERIF_DUMP_CASES=/tmp/cases ./.build/verif C14 quick > /dev/null 2>&1
python3 - <<'EOP'
import os
def merge(dst, srcs):
    s=set()
    for f in srcs:
        if os.path.exists(f): s|=set(open(f).read().split())
    open(dst,'w').write("\n".join(sorted(s))+"\n"); print(dst,'->',len(s))
c='/tmp/cases/'
merge('/verif/findings/C14.asa_move-down_blocker-later-deleted.cases',[c+'C14.asa_move-down_blocker-later-deleted.cases',c+'C14.asa_move-down_blocker-kept.cases'])
merge('/verif/findings/C14.ios_move-down_blocker-later-deleted.cases',[c+'C14.ios_move-down_blocker-later-deleted.cases',c+'C14.ios_move-down_blocker-kept.cases'])
merge('/verif/findings/C14.remark-block.cases',[c+'C14.ios_insert_blocker-kept.cases',c+'C14.ios_delete_blocker-kept.cases'])
merge('/verif/findings/C14.ios_replace-all.cases',[c+f for f in os.listdir(c) if 'delete-by-text' in f or 'insert-by-text' in f])
EOP
git checkout evidence/C14.json 2>/dev/null
