#!/usr/bin/env python3
# Rebuilds the case-hash lists of the planner-check findings from a dump of
# the current quick tier (run by hand after a reviewed change of the spaces):
#   for c in C03 C05 C08 C10; do VERIF_DUMP_CASES=/tmp/allcases ./.build/verif $c quick; done
import json,os,sys
dump=sys.argv[1] if len(sys.argv)>1 else '/tmp/allcases'
norm=lambda p,s:p+"."+s.replace(":","_").replace("/","_").replace(" ","_")
thorough_spaces={"C03":["rules-x","objs-x"],"C05":["rules-x"],"C08":["rules-x","objs-x","acl-x","grp-x","groups-x"],
 "C10":["acl-x","grp-x","vpn","corpus","rules-x","objs-x","groups-x","clash","two-groups-x"]}
ids=["F-C10-crypto-map-incomplete","F-C05-extra-device-table","F-C08-panos-service-group-set","F-C08-panos-nested-groups",
 "F-C03-panos-nested-groups","F-C03-panos-service-group-set","F-C10-panos-service-group-set","F-C10-panos-nested-groups"]
p='/verif/known-findings.json'
d=json.load(open(p))
for f in d['findings']:
    if f['id'] not in ids: continue
    hs=set()
    for s in f['signatures']:
        fn=os.path.join(dump,norm(f['property'],s)+'.cases')
        if os.path.exists(fn): hs|=set(open(fn).read().split())
    cf='findings/%s.cases'%f['id'][2:]
    open('/verif/'+cf,'w').write("\n".join(sorted(hs))+"\n")
    f.pop('any_case',None)
    f['cases_file']=cf
    f['any_case_spaces']=thorough_spaces[f['property']]
    print(f['id'],len(hs))
json.dump(d,open(p,'w'),indent=1)
