// Command maprange rewrites every `range <map>` statement of the
// repository's packages into `range verifmap.Order(<map>, "<site>")` and
// writes the rewritten files plus a build overlay.  /repo is only read.
//
//	maprange <repo go dir> <out dir>
//
// Output: <out>/files/*.go, <out>/overlay.json (Replace map), <out>/sites.txt
package main

import (
	"bytes"
	"encoding/json"
	"fmt"
	"go/ast"
	"go/printer"
	"go/token"
	"go/types"
	"os"
	"path/filepath"
	"strings"

	"golang.org/x/tools/go/ast/astutil"
	"golang.org/x/tools/go/packages"
)

const vmPath = "github.com/hknutzen/Netspoc-Approve/go/pkg/verifmap"

func main() {
	if len(os.Args) != 3 {
		fmt.Fprintln(os.Stderr, "usage: maprange <repo go dir> <out dir>")
		os.Exit(2)
	}
	repo, out := os.Args[1], os.Args[2]
	os.MkdirAll(filepath.Join(out, "files"), 0755)
	cfg := &packages.Config{Mode: packages.NeedName | packages.NeedFiles | packages.NeedSyntax |
		packages.NeedTypes | packages.NeedTypesInfo | packages.NeedImports | packages.NeedDeps,
		Dir: repo, Env: append(os.Environ(), "GOFLAGS=-mod=mod", "GOPROXY=off", "GOSUMDB=off", "GOTOOLCHAIN=local")}
	pkgs, err := packages.Load(cfg, "./pkg/...", "./cmd/...")
	if err != nil {
		fmt.Fprintln(os.Stderr, err)
		os.Exit(1)
	}
	if packages.PrintErrors(pkgs) > 0 {
		os.Exit(1)
	}
	replace := map[string]string{}
	var sites []string
	for _, p := range pkgs {
		for _, f := range p.Syntax {
			fname := p.Fset.Position(f.Pos()).Filename
			if strings.HasSuffix(fname, "_test.go") {
				continue
			}
			changed := false
			ast.Inspect(f, func(n ast.Node) bool {
				rs, ok := n.(*ast.RangeStmt)
				if !ok {
					return true
				}
				tv, ok := p.TypesInfo.Types[rs.X]
				if !ok {
					return true
				}
				if _, isMap := tv.Type.Underlying().(*types.Map); !isMap {
					return true
				}
				pos := p.Fset.Position(rs.Pos())
				// enclosing function name
				fn := "?"
				for _, d := range f.Decls {
					if fd, ok := d.(*ast.FuncDecl); ok && fd.Pos() <= rs.Pos() && rs.End() <= fd.End() {
						fn = fd.Name.Name
					}
				}
				site := fmt.Sprintf("%s/%s:%s:%d", p.Name, filepath.Base(fname), fn, pos.Line)
				sites = append(sites, site)
				rs.X = &ast.CallExpr{
					Fun:  &ast.SelectorExpr{X: ast.NewIdent("verifmap"), Sel: ast.NewIdent("Order")},
					Args: []ast.Expr{rs.X, &ast.BasicLit{Kind: token.STRING, Value: fmt.Sprintf("%q", site)}},
				}
				// `for range m` / `for k := range m`: the iterator yields two values
				if rs.Key == nil {
					rs.Key = ast.NewIdent("_")
					rs.Tok = token.ASSIGN
				}
				changed = true
				return true
			})
			if !changed {
				continue
			}
			astutil.AddImport(p.Fset, f, vmPath)
			var buf bytes.Buffer
			if err := printer.Fprint(&buf, p.Fset, f); err != nil {
				fmt.Fprintln(os.Stderr, err)
				os.Exit(1)
			}
			outName := filepath.Join(out, "files", strings.ReplaceAll(strings.TrimPrefix(fname, repo+"/"), "/", "__"))
			src := "//go:build verif\n\n" + buf.String()
			// keep an existing build constraint line out of the way
			os.WriteFile(outName, []byte(src), 0644)
			replace[fname] = outName
		}
	}
	if len(sites) == 0 {
		fmt.Fprintln(os.Stderr, "instrumentation point not found: no range over a map in the repository")
		os.Exit(1)
	}
	os.WriteFile(filepath.Join(out, "sites.txt"), []byte(strings.Join(sites, "\n")+"\n"), 0644)
	data, _ := json.MarshalIndent(map[string]any{"Replace": replace}, "", " ")
	os.WriteFile(filepath.Join(out, "overlay.json"), data, 0644)
	fmt.Printf("maprange: %d sites in %d files\n", len(sites), len(replace))
}
