//go:build verif

// Package expect is a synchronous, virtual-time stand-in for
// github.com/tailscale/goexpect, selected by the `replace` directive of
// verif/harness/go.mod when the verification driver is built (never part of
// the repository's own build, which keeps the real module).
// It implements exactly the five symbols pkg/console uses.  The other end
// of the "connection" is a Peer supplied by the harness.
package expect

import (
	"errors"
	"fmt"
	"regexp"
	"strings"
	"time"
)

// Peer is the simulated device.
type Peer interface {
	// Input delivers what the tool wrote (one Send call, may hold "\n").
	Input(data string)
	// Output returns the next chunk the device has written.
	// ok=false: nothing more arrives until the tool sends something
	// (waiting would end in a timeout); closed: the connection is gone.
	Output() (chunk string, ok bool, closed bool)
}

// NewPeer is set by the harness before a run.
var NewPeer func(cmd []string) (Peer, error)

type GExpect struct {
	peer   Peer
	buf    string
	closed bool
}

type Option func(*GExpect) Option

func PartialMatch(v bool) Option {
	return func(e *GExpect) Option { return PartialMatch(v) }
}

type TimeoutError int

func (t TimeoutError) Error() string {
	return fmt.Sprintf("expect: timer expired after %d seconds", time.Duration(t)/time.Second)
}

func SpawnWithArgs(cmd []string, timeout time.Duration, opts ...Option) (*GExpect, <-chan error, error) {
	if NewPeer == nil {
		return nil, nil, errors.New("fakeexpect: no peer registered")
	}
	p, err := NewPeer(cmd)
	if err != nil {
		return nil, nil, err
	}
	ch := make(chan error, 1)
	return &GExpect{peer: p}, ch, nil
}

// Expect searches the buffer like the real library in partial-match mode:
// on a match it returns the text up to the end of the match and keeps the
// rest.  Without a match it asks the peer for more; a peer that has nothing
// more yields the timeout error at once (virtual time), a closed peer
// "Process not running".  timeout == 0 dumps what is there.
func (e *GExpect) Expect(re *regexp.Regexp, timeout time.Duration) (string, []string, error) {
	for {
		if loc := re.FindStringIndex(e.buf); loc != nil {
			out := e.buf[:loc[1]]
			match := re.FindStringSubmatch(e.buf)
			e.buf = e.buf[loc[1]:]
			return out, match, nil
		}
		if e.closed {
			out := e.buf
			e.buf = ""
			return out, nil, errors.New("expect: Process not running")
		}
		chunk, ok, closed := e.peer.Output()
		if closed {
			e.closed = true
		}
		if ok {
			e.buf += chunk
			continue
		}
		if closed {
			continue
		}
		out := e.buf
		e.buf = ""
		return out, nil, TimeoutError(timeout)
	}
}

func (e *GExpect) Send(in string) error {
	if e.closed {
		return errors.New("expect: Process not running")
	}
	e.peer.Input(in)
	return nil
}

func (e *GExpect) Close() error { e.closed = true; return nil }

var _ = strings.TrimSpace
