// Stand-in module for github.com/tailscale/goexpect, selected by the
// `replace` directive of verif/harness/go.mod (never by /repo's own build).
module github.com/tailscale/goexpect

go 1.23
