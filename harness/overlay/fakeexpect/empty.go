//go:build verif

package expect
