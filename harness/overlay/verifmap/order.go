//go:build verif

// Package verifmap is added to the repository module by a build overlay
// (never committed there).  Every `range <map>` of the repository is
// rewritten to `range verifmap.Order(<map>, site)`; the explorer decides
// the iteration order of each dynamic occurrence.
package verifmap

import (
	"fmt"
	"iter"
	"reflect"
	"sort"
)

// Occurrence is one dynamic execution of a range-over-map statement.
type Occurrence struct {
	Site string
	N    int
}

// Perm is asked for every occurrence with n >= 2 keys; it returns the order
// in which the canonically sorted keys are visited (nil = canonical).
var Perm func(index int, site string, n int) []int

// Trace of the current run.
var Trace []Occurrence

func Reset() { Trace = Trace[:0] }

func render(v reflect.Value, depth int) string {
	switch v.Kind() {
	case reflect.String:
		return v.String()
	case reflect.Int, reflect.Int8, reflect.Int16, reflect.Int32, reflect.Int64:
		return fmt.Sprintf("%020d", v.Int())
	case reflect.Bool:
		return fmt.Sprint(v.Bool())
	case reflect.Array:
		s := ""
		for i := 0; i < v.Len(); i++ {
			s += render(v.Index(i), depth) + "\x00"
		}
		return s
	case reflect.Pointer:
		if v.IsNil() || depth > 0 {
			return ""
		}
		return render(v.Elem(), depth+1)
	case reflect.Struct:
		s := ""
		for i := 0; i < v.NumField(); i++ {
			f := v.Field(i)
			switch f.Kind() {
			case reflect.String, reflect.Int, reflect.Bool, reflect.Array:
				s += render(f, depth) + "\x01"
			}
		}
		return s
	}
	return ""
}

func Order[K comparable, V any](m map[K]V, site string) iter.Seq2[K, V] {
	return func(yield func(K, V) bool) {
		keys := make([]K, 0, len(m))
		for k := range m {
			keys = append(keys, k)
		}
		rend := make(map[K]string, len(keys))
		for _, k := range keys {
			rend[k] = render(reflect.ValueOf(k), 0)
		}
		sort.SliceStable(keys, func(i, j int) bool { return rend[keys[i]] < rend[keys[j]] })
		idx := len(Trace)
		Trace = append(Trace, Occurrence{site, len(keys)})
		var perm []int
		if Perm != nil && len(keys) >= 2 {
			perm = Perm(idx, site, len(keys))
		}
		visit := func(k K) bool {
			v, ok := m[k]
			if !ok {
				return true // deleted during the iteration
			}
			return yield(k, v)
		}
		if perm == nil {
			for _, k := range keys {
				if !visit(k) {
					return
				}
			}
			return
		}
		for _, i := range perm {
			if i < len(keys) && !visit(keys[i]) {
				return
			}
		}
	}
}
