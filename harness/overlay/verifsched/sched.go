//go:build verif

// Package verifsched is added to the repository module by a build overlay.
// device.SetLock (rewritten copy) calls Point before each of its system
// calls; a controller installed by the explorer decides who runs next.
package verifsched

// Hook is nil unless an exploration is running.
var Hook func(name string)

func Point(name string) {
	if h := Hook; h != nil {
		h(name)
	}
}
