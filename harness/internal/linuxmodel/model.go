// Package linuxmodel is an independent reference model of the two pieces of
// kernel state Netspoc-Approve manages on a Linux device: the static routes
// (as `ip route` manipulates and shows them) and the netfilter ruleset (as
// iptables-restore loads and iptables-save prints it).
package linuxmodel

import (
	"fmt"
	"net/netip"
	"sort"
	"strconv"
	"strings"
)

type Route struct {
	Dst netip.Prefix
	Hop string
	// Extra holds attributes of routes the tool must ignore (proto kernel,
	// scope link, dev only) - printed back verbatim.
	Extra string
}

type Rule struct {
	Text string // as loaded
}

type Chain struct {
	Name   string
	Policy string // ACCEPT DROP or "-"
	Rules  []string
}

type Table struct {
	Name   string
	Chains []*Chain
}

type Dev struct {
	Routes []Route
	Tables []*Table
}

func (d *Dev) Clone() *Dev {
	n := &Dev{Routes: append([]Route(nil), d.Routes...)}
	for _, t := range d.Tables {
		nt := &Table{Name: t.Name}
		for _, c := range t.Chains {
			nt.Chains = append(nt.Chains, &Chain{Name: c.Name, Policy: c.Policy,
				Rules: append([]string(nil), c.Rules...)})
		}
		n.Tables = append(n.Tables, nt)
	}
	return n
}

func parseDst(s string) (netip.Prefix, error) {
	if s == "default" {
		return netip.MustParsePrefix("0.0.0.0/0"), nil
	}
	if strings.Contains(s, "/") {
		p, err := netip.ParsePrefix(s)
		if err != nil {
			return p, err
		}
		return p.Masked(), nil
	}
	a, err := netip.ParseAddr(s)
	if err != nil {
		return netip.Prefix{}, err
	}
	return netip.PrefixFrom(a, a.BitLen()), nil
}

// Load reads a device file in the form the repository's tests use:
// "ip route add ..." lines and an iptables-save dump.
func Load(text string) (*Dev, error) {
	d := &Dev{}
	var ipt []string
	for _, line := range strings.Split(text, "\n") {
		line = strings.TrimSpace(line)
		if line == "" || line[0] == '#' {
			continue
		}
		if rest, ok := strings.CutPrefix(line, "ip route add "); ok {
			if err := d.addRouteText(rest, true); err != nil {
				return nil, err
			}
			continue
		}
		ipt = append(ipt, line)
	}
	if len(ipt) > 0 {
		if err := d.Restore(strings.Join(ipt, "\n")); err != nil {
			return nil, err
		}
	}
	return d, nil
}

func (d *Dev) addRouteText(rest string, loading bool) error {
	w := strings.Fields(rest)
	if len(w) == 0 {
		return fmt.Errorf("incomplete route")
	}
	dst, err := parseDst(w[0])
	if err != nil {
		return fmt.Errorf("bad destination %q", w[0])
	}
	r := Route{Dst: dst}
	if len(w) >= 3 && w[1] == "via" {
		r.Hop = w[2]
		r.Extra = strings.Join(w[3:], " ")
	} else {
		r.Extra = strings.Join(w[1:], " ")
	}
	for _, o := range d.Routes {
		if o.Dst == r.Dst && o.Hop == r.Hop && o.Extra == r.Extra {
			return fmt.Errorf("RTNETLINK answers: File exists (%s)", rest)
		}
	}
	d.Routes = append(d.Routes, r)
	return nil
}

// Exec executes one shell command of the change script ("ip route add|del").
func (d *Dev) Exec(cmd string) error {
	cmd = strings.Join(strings.Fields(cmd), " ")
	if rest, ok := strings.CutPrefix(cmd, "ip route add "); ok {
		return d.addRouteText(rest, false)
	}
	if rest, ok := strings.CutPrefix(cmd, "ip route del "); ok {
		w := strings.Fields(rest)
		if len(w) < 3 || w[1] != "via" {
			return fmt.Errorf("unsupported route delete %q", cmd)
		}
		dst, err := parseDst(w[0])
		if err != nil {
			return fmt.Errorf("bad destination %q", w[0])
		}
		for i, o := range d.Routes {
			if o.Dst == dst && o.Hop == w[2] {
				d.Routes = append(d.Routes[:i:i], d.Routes[i+1:]...)
				return nil
			}
		}
		return fmt.Errorf("RTNETLINK answers: No such process (%s)", rest)
	}
	return fmt.Errorf("unknown command %q", cmd)
}

var builtinTargets = map[string]bool{"ACCEPT": true, "DROP": true, "REJECT": true,
	"LOG": true, "RETURN": true, "MARK": true, "QUEUE": true, "NFLOG": true,
	"DNAT": true, "SNAT": true, "MASQUERADE": true, "REDIRECT": true, "CONNMARK": true,
	"TCPMSS": true, "NOTRACK": true, "CT": true, "ULOG": true, "droplog": false}

// Restore loads an iptables-restore file: every table named in the file is
// flushed and replaced; tables not named stay as they are.
func (d *Dev) Restore(text string) error {
	var cur *Table
	var loaded []*Table
	for _, line := range strings.Split(text, "\n") {
		line = strings.TrimSpace(line)
		if line == "" || line[0] == '#' {
			continue
		}
		switch {
		case line[0] == '*':
			cur = &Table{Name: line[1:]}
			loaded = append(loaded, cur)
		case line == "COMMIT":
			if cur == nil {
				return fmt.Errorf("COMMIT outside of table")
			}
			// all jump targets must exist
			for _, c := range cur.Chains {
				for _, r := range c.Rules {
					w := strings.Fields(r)
					for i, t := range w {
						if (t == "-j" || t == "-g") && i+1 < len(w) {
							tg := w[i+1]
							if builtinTargets[tg] || strings.ToUpper(tg) == tg && !cur.has(tg) {
								continue
							}
							if !cur.has(tg) {
								return fmt.Errorf("iptables-restore: chain %q of table %q: target %q does not exist", c.Name, cur.Name, tg)
							}
						}
					}
				}
			}
			cur = nil
		case line[0] == ':':
			if cur == nil {
				return fmt.Errorf("chain outside of table: %q", line)
			}
			w := strings.Fields(line[1:])
			if len(w) < 2 {
				return fmt.Errorf("bad chain line %q", line)
			}
			cur.Chains = append(cur.Chains, &Chain{Name: w[0], Policy: w[1]})
		case strings.HasPrefix(line, "-A "):
			if cur == nil {
				return fmt.Errorf("rule outside of table: %q", line)
			}
			w := strings.Fields(line)
			if len(w) < 2 {
				return fmt.Errorf("bad rule %q", line)
			}
			c := cur.chain(w[1])
			if c == nil {
				return fmt.Errorf("iptables-restore: chain %q does not exist in table %q", w[1], cur.Name)
			}
			c.Rules = append(c.Rules, strings.Join(w[2:], " "))
		default:
			return fmt.Errorf("iptables-restore: unknown line %q", line)
		}
	}
	if cur != nil {
		return fmt.Errorf("missing COMMIT for table %q", cur.Name)
	}
	for _, t := range loaded {
		replaced := false
		for i, o := range d.Tables {
			if o.Name == t.Name {
				d.Tables[i] = t
				replaced = true
			}
		}
		if !replaced {
			d.Tables = append(d.Tables, t)
		}
	}
	return nil
}

func (t *Table) has(name string) bool { return t.chain(name) != nil }
func (t *Table) chain(name string) *Chain {
	for _, c := range t.Chains {
		if c.Name == name {
			return c
		}
	}
	return nil
}

// ---------------------------------------------------------------------
// Canonical form of a rule (independent normalisation).

var protoNumber = map[string]string{"tcp": "6", "udp": "17", "icmp": "1", "vrrp": "112",
	"ipv6-icmp": "58", "icmpv6": "58", "esp": "50", "ah": "51", "sctp": "132", "udplite": "136", "gre": "47", "ospf": "89", "all": "0"}

type opt struct {
	neg  bool
	key  string
	args []string
}

func parseOpts(rule string) []opt {
	w := strings.Fields(rule)
	var out []opt
	for i := 0; i < len(w); {
		neg := false
		if w[i] == "!" {
			neg = true
			i++
			if i >= len(w) {
				break
			}
		}
		o := opt{key: w[i]}
		i++
		if i+1 < len(w) && w[i] == "!" && !strings.HasPrefix(w[i+1], "-") {
			neg = true
			i++
		}
		for i < len(w) && !strings.HasPrefix(w[i], "-") && w[i] != "!" {
			o.args = append(o.args, w[i])
			i++
		}
		o.neg = neg
		out = append(out, o)
	}
	return out
}

// CanonRule returns an order-independent canonical rendering of a rule.
func CanonRule(rule string) string {
	opts := parseOpts(rule)
	proto := ""
	for _, o := range opts {
		if o.key == "-p" && len(o.args) == 1 {
			proto = strings.ToLower(o.args[0])
		}
	}
	var parts []string
	for _, o := range opts {
		key, args := o.key, append([]string(nil), o.args...)
		switch key {
		case "-m":
			if len(args) == 1 {
				m := strings.ToLower(args[0])
				if m == proto || m == "state" || m == "mark" {
					// implied by the options that follow
					if m == proto {
						continue
					}
				}
			}
		case "-p":
			if len(args) == 1 {
				p := strings.ToLower(args[0])
				if n, ok := protoNumber[p]; ok {
					p = n
				}
				args[0] = p
			}
		case "-s", "-d":
			if len(args) == 1 {
				a := args[0]
				if pfx, err := netip.ParsePrefix(a); err == nil {
					if pfx.Bits() == pfx.Addr().BitLen() {
						a = pfx.Addr().String()
					} else {
						a = pfx.Masked().String()
					}
				}
				args[0] = a
			}
		case "--sport", "--dport":
			if len(args) == 1 {
				lo, hi, rng := strings.Cut(args[0], ":")
				n := func(s, def string) string {
					if s == "" {
						return def
					}
					if v, err := strconv.Atoi(s); err == nil {
						return strconv.Itoa(v)
					}
					return s
				}
				if rng {
					args[0] = n(lo, "0") + ":" + n(hi, "65535")
				} else {
					args[0] = n(lo, "0")
				}
			}
		case "--state", "--ctstate":
			if len(args) == 1 {
				l := strings.Split(args[0], ",")
				sort.Strings(l)
				args[0] = strings.Join(l, ",")
			}
		case "--set-xmark", "--set-mark":
			if len(args) == 1 {
				v, mask, has := strings.Cut(strings.ToLower(args[0]), "/")
				if !has || mask == "0xffffffff" {
					key = "--set-mark"
					if n, err := strconv.ParseInt(v, 0, 64); err == nil {
						v = strconv.FormatInt(n, 10)
					}
					args[0] = v
				}
			}
		case "--log-level":
			if len(args) == 1 {
				names := map[string]string{"emerg": "0", "alert": "1", "crit": "2", "err": "3",
					"warning": "4", "notice": "5", "info": "6", "debug": "7"}
				if n, ok := names[strings.ToLower(args[0])]; ok {
					args[0] = n
				}
			}
		case "--tcp-flags":
			if strings.Join(args, " ") == "FIN,SYN,RST,ACK SYN" {
				key, args = "--syn", nil
			}
		}
		s := key + " " + strings.Join(args, " ")
		if o.neg {
			s = "! " + s
		}
		parts = append(parts, strings.TrimSpace(s))
	}
	sort.Strings(parts)
	return strings.Join(parts, " | ")
}

// CanonRules renders the ruleset canonically (tables and chains sorted,
// rules in order).
func (d *Dev) CanonRules() string {
	var b strings.Builder
	ts := append([]*Table(nil), d.Tables...)
	sort.Slice(ts, func(i, j int) bool { return ts[i].Name < ts[j].Name })
	for _, t := range ts {
		fmt.Fprintf(&b, "*%s\n", t.Name)
		cs := append([]*Chain(nil), t.Chains...)
		// a built-in chain that the file does not name exists all the same:
		// policy ACCEPT, no rules
		for _, n := range BuiltinChains[t.Name] {
			if t.chain(n) == nil {
				cs = append(cs, &Chain{Name: n, Policy: "ACCEPT"})
			}
		}
		sort.Slice(cs, func(i, j int) bool { return cs[i].Name < cs[j].Name })
		for _, c := range cs {
			fmt.Fprintf(&b, ":%s %s\n", c.Name, c.Policy)
			for _, r := range c.Rules {
				fmt.Fprintf(&b, "  %s\n", CanonRule(r))
			}
		}
	}
	return b.String()
}

// StaticRoutes returns the canonical set of static routes (routes the tool
// must ignore are left out).
func (d *Dev) StaticRoutes() []string {
	var l []string
	for _, r := range d.Routes {
		if r.Hop == "" || strings.Contains(r.Extra, "proto kernel") ||
			strings.Contains(r.Extra, "proto boot") || strings.Contains(r.Extra, "scope link") {
			continue
		}
		l = append(l, r.Dst.String()+" via "+r.Hop)
	}
	sort.Strings(l)
	return l
}

// OtherRoutes: the routes outside the tool's scope (frame condition).
func (d *Dev) OtherRoutes() []string {
	var l []string
	for _, r := range d.Routes {
		if r.Hop == "" || strings.Contains(r.Extra, "proto kernel") ||
			strings.Contains(r.Extra, "proto boot") || strings.Contains(r.Extra, "scope link") {
			l = append(l, r.Dst.String()+" "+r.Hop+" "+r.Extra)
		}
	}
	sort.Strings(l)
	return l
}

// ---------------------------------------------------------------------
// Printing in kernel spelling.

func kernelDst(p netip.Prefix) string {
	if p.Bits() == 0 {
		return "default"
	}
	if p.Bits() == p.Addr().BitLen() {
		return p.Addr().String()
	}
	return p.String()
}

// PrintRoutes prints "ip route add ..." lines as the repository's device
// files contain them (ip route show output prefixed by "ip route add").
func (d *Dev) PrintRoutes() string {
	var b strings.Builder
	for _, r := range d.Routes {
		b.WriteString("ip route add " + kernelDst(r.Dst))
		if r.Hop != "" {
			b.WriteString(" via " + r.Hop)
		}
		if r.Extra != "" {
			b.WriteString(" " + r.Extra)
		}
		b.WriteString("\n")
	}
	return b.String()
}

// KernelRule spells a rule as iptables-save prints it.
func KernelRule(rule string) string {
	opts := parseOpts(rule)
	proto := ""
	for _, o := range opts {
		if o.key == "-p" && len(o.args) == 1 {
			proto = strings.ToLower(o.args[0])
		}
	}
	var out []string
	emit := func(neg bool, key string, args ...string) {
		if neg {
			out = append(out, "!")
		}
		out = append(out, key)
		out = append(out, args...)
	}
	seenM := map[string]bool{}
	for _, o := range opts {
		if o.key == "-m" && len(o.args) == 1 {
			seenM[strings.ToLower(o.args[0])] = true
		}
	}
	for _, o := range opts {
		args := append([]string(nil), o.args...)
		switch o.key {
		case "-s", "-d":
			if len(args) == 1 && !strings.Contains(args[0], "/") {
				args[0] += "/32"
			}
			emit(o.neg, o.key, args...)
		case "-p":
			p := proto
			// names iptables-save knows by itself (xtables_chain_protos) or
			// finds in /etc/protocols
			switch p {
			case "112":
				p = "vrrp"
			case "58":
				p = "ipv6-icmp"
			case "50":
				p = "esp"
			case "51":
				p = "ah"
			case "132":
				p = "sctp"
			case "136":
				p = "udplite"
			}
			emit(o.neg, "-p", p)
		case "--dport", "--sport", "--syn", "--tcp-flags":
			if (proto == "tcp" || proto == "udp") && !seenM[proto] {
				seenM[proto] = true
				out = append(out, "-m", proto)
			}
			if o.key == "--syn" {
				emit(o.neg, "--tcp-flags", "FIN,SYN,RST,ACK", "SYN")
				continue
			}
			if len(args) == 1 && strings.HasSuffix(args[0], ":") {
				args[0] += "65535"
			}
			emit(o.neg, o.key, args...)
		case "--state":
			if len(args) == 1 {
				l := strings.Split(args[0], ",")
				sort.Sort(sort.Reverse(sort.StringSlice(l))) // RELATED,ESTABLISHED
				args[0] = strings.Join(l, ",")
			}
			emit(o.neg, o.key, args...)
		case "--set-mark":
			if len(args) == 1 {
				if n, err := strconv.ParseInt(args[0], 0, 64); err == nil {
					emit(o.neg, "--set-xmark", fmt.Sprintf("0x%x/0xffffffff", n))
					continue
				}
			}
			emit(o.neg, o.key, args...)
		case "--log-level":
			if len(args) == 1 && args[0] == "7" {
				args[0] = "debug"
			}
			emit(o.neg, o.key, args...)
		default:
			emit(o.neg, o.key, args...)
		}
	}
	return strings.Join(out, " ")
}

// BuiltinChains: the chains the kernel keeps for each table.
var BuiltinChains = map[string][]string{
	"filter": {"INPUT", "FORWARD", "OUTPUT"},
	"mangle": {"PREROUTING", "INPUT", "FORWARD", "OUTPUT", "POSTROUTING"},
	"nat":    {"PREROUTING", "INPUT", "OUTPUT", "POSTROUTING"},
	"raw":    {"PREROUTING", "OUTPUT"},
}

// PrintRules prints the ruleset; kernel=true uses iptables-save spelling
// (with packet counters on chain lines), else the loaded spelling.
func (d *Dev) PrintRules(kernel bool) string {
	var b strings.Builder
	for _, t := range d.Tables {
		if kernel {
			b.WriteString("# Generated by iptables-save v1.8.9\n")
		}
		fmt.Fprintf(&b, "*%s\n", t.Name)
		if kernel {
			// iptables-save lists every built-in chain of a table, also the
			// ones the loaded file did not mention
			for _, n := range BuiltinChains[t.Name] {
				if t.chain(n) == nil {
					fmt.Fprintf(&b, ":%s ACCEPT [0:0]\n", n)
				}
			}
		}
		for _, c := range t.Chains {
			if kernel {
				fmt.Fprintf(&b, ":%s %s [0:0]\n", c.Name, c.Policy)
			} else {
				fmt.Fprintf(&b, ":%s %s\n", c.Name, c.Policy)
			}
		}
		for _, c := range t.Chains {
			for _, r := range c.Rules {
				if kernel {
					r = KernelRule(r)
				}
				fmt.Fprintf(&b, "-A %s %s\n", c.Name, r)
			}
		}
		b.WriteString("COMMIT\n")
	}
	return b.String()
}

func (d *Dev) Print(kernel bool) string {
	return d.PrintRoutes() + d.PrintRules(kernel)
}
