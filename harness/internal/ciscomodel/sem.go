package ciscomodel

import (
	"fmt"
	"hash/fnv"
	"net/netip"
	"sort"
	"strconv"
	"strings"
)

// ---------------------------------------------------------------------
// ACE parsing and spelling normalisation (independent small tables).

var protoNum = map[string]string{
	"ah": "51", "ahp": "51", "eigrp": "88", "esp": "50", "gre": "47", "igmp": "2",
	"igrp": "9", "ipinip": "4", "ipsec": "50", "nos": "94", "ospf": "89",
	"pcp": "108", "pim": "103", "pptp": "47", "sctp": "132", "snp": "109",
}
var protoName = map[string]string{"1": "icmp", "6": "tcp", "17": "udp", "58": "icmp6"}

var portNum = map[string]map[string]string{
	"tcp": {"www": "80", "http": "80", "https": "443", "ssh": "22", "telnet": "23",
		"smtp": "25", "domain": "53", "ftp": "21", "ftp-data": "20", "pop3": "110",
		"imap4": "143", "ldap": "389", "ldaps": "636", "bgp": "179", "nntp": "119",
		"sqlnet": "1521", "h323": "1720", "sip": "5060", "rsh": "514", "cmd": "514",
		"login": "513", "exec": "512", "lpd": "515", "ident": "113", "echo": "7",
		"discard": "9", "daytime": "13", "chargen": "19", "time": "37", "whois": "43",
		"tacacs": "49", "gopher": "70", "finger": "79", "hostname": "101", "pop2": "109",
		"sunrpc": "111", "netbios-ssn": "139", "irc": "194", "kerberos": "750",
		"klogin": "543", "kshell": "544", "uucp": "540", "rtsp": "554", "nfs": "2049",
		"pptp": "1723", "citrix-ica": "1494", "lotusnotes": "1352", "msrpc": "135",
		"aol": "5190", "cifs": "3020", "ctiqbe": "2748", "pcanywhere-data": "5631",
		"pim-auto-rp": "496", "talk": "517", "tacacs-ds": "65", "drip": "3949"},
	"udp": {"domain": "53", "dns": "53", "ntp": "123", "snmp": "161", "snmptrap": "162",
		"syslog": "514", "tftp": "69", "bootps": "67", "bootpc": "68", "isakmp": "500",
		"non500-isakmp": "4500", "radius": "1645", "radius-acct": "1646", "rip": "520",
		"netbios-ns": "137", "netbios-dgm": "138", "netbios-ss": "139", "echo": "7",
		"discard": "9", "time": "37", "www": "80", "http": "80", "sunrpc": "111",
		"nfs": "2049", "sip": "5060", "kerberos": "750", "tacacs": "49", "talk": "517",
		"who": "513", "biff": "512", "xdmcp": "177", "mobile-ip": "434", "nameserver": "42",
		"dnsix": "195", "pim-auto-rp": "496", "pcanywhere-status": "5632", "cifs": "3020",
		"secureid-udp": "5510", "vxlan": "4789", "ripng": "521", "ripv6": "521", "tacacs-ds": "65"},
}

var logLevel = map[string]string{"emergencies": "0", "alerts": "1", "critical": "2",
	"errors": "3", "warnings": "4", "notifications": "5", "informational": "6", "debugging": "7"}

var icmpNames = map[string]string{"echo": "8", "echo-reply": "0", "unreachable": "3",
	"time-exceeded": "11", "redirect": "5", "source-quench": "4", "parameter-problem": "12",
	"timestamp-request": "13", "timestamp-reply": "14", "information-request": "15",
	"information-reply": "16", "mask-request": "17", "mask-reply": "18",
	"router-advertisement": "9", "router-solicitation": "10", "alternate-address": "6",
	"conversion-error": "31", "mobile-redirect": "32", "traceroute": "30",
	"packet-too-big": "3 4", "port-unreachable": "3 3", "host-unreachable": "3 1",
	"net-unreachable": "3 0", "ttl-exceeded": "11 0", "reassembly-timeout": "11 1", "administratively-prohibited": "3 13"}

// ICMPv6 type names of the ASA (numbers from RFC 4443, 2710, 4861, 2894).
var icmp6Names = map[string]string{"unreachable": "1", "packet-too-big": "2", "time-exceeded": "3", "parameter-problem": "4",
	"echo": "128", "echo-reply": "129", "membership-query": "130", "membership-report": "131", "membership-reduction": "132",
	"router-solicitation": "133", "router-advertisement": "134", "neighbor-solicitation": "135", "neighbor-advertisement": "136",
	"neighbor-redirect": "137", "router-renumbering": "138"}

// Icmp6Names / IcmpNames: copies for the generators of the spelling spaces.
func Icmp6Names() map[string]string { return icmp6Names }
func IcmpNames() map[string]string  { return icmpNames }

// ACE is a parsed extended ACL entry (the part after the ACL name / the IOS
// sub-command).  Parts that are not understood stay in Rest.
type ACE struct {
	Action       string
	Proto        string
	Src, Dst     string // canonical: any4|any6|any|host X|NET/len|object-group NAME|...
	SPort, DPort string
	Rest         string
	OK           bool
}

// canonAddr: ios = the line is an IOS entry (wildcard masks: "X 0.0.0.0"
// is a host, "X 255.255.255.255" is any); otherwise ASA net masks.
func canonAddr(w []string, ios bool) (string, int) {
	if len(w) == 0 {
		return "", 0
	}
	switch w[0] {
	case "any", "any4", "any6":
		return w[0], 1
	case "host", "object-group", "object", "interface":
		if len(w) >= 2 {
			return w[0] + " " + w[1], 2
		}
		return w[0], 1
	}
	if strings.Contains(w[0], "/") {
		if p, err := netip.ParsePrefix(w[0]); err == nil {
			if p.Bits() == 0 {
				return "any6", 1
			}
			if p.Bits() == 128 {
				return "host " + p.Addr().String(), 1
			}
			return p.String(), 1
		}
		return w[0], 1
	}
	if len(w) >= 2 {
		ip, err1 := netip.ParseAddr(w[0])
		m, err2 := netip.ParseAddr(w[1])
		if err1 == nil && err2 == nil && ip.Is4() && m.Is4() {
			mb := m.As4()
			if ios {
				if mb == [4]byte{0, 0, 0, 0} {
					return "host " + w[0], 2
				}
				if mb == [4]byte{255, 255, 255, 255} {
					return "any", 2
				}
				return w[0] + " " + w[1], 2
			}
			if mb == [4]byte{255, 255, 255, 255} {
				return "host " + w[0], 2
			}
			if mb == [4]byte{0, 0, 0, 0} {
				return "any4", 2
			}
			return w[0] + " " + w[1], 2
		}
	}
	return w[0], 1
}

func canonPort(proto string, w []string) (string, int) {
	if len(w) == 0 {
		return "", 0
	}
	conv := func(s string) string {
		if m := portNum[proto]; m != nil {
			if n, ok := m[s]; ok {
				return n
			}
		}
		return s
	}
	switch w[0] {
	case "eq", "gt", "lt", "neq":
		if len(w) >= 2 {
			return w[0] + " " + conv(w[1]), 2
		}
	case "range":
		if len(w) >= 3 {
			return "range " + conv(w[1]) + " " + conv(w[2]), 3
		}
	}
	return "", 0
}

// ParseACE parses "extended permit tcp ..." (ASA, ext=true strips the word
// "extended") or "permit tcp ..." (IOS).
func ParseACE(text string) ACE {
	w := fields(text)
	a := ACE{}
	// ASA entries are kept as "extended permit ...", IOS entries as "permit ..."
	ios := true
	if len(w) > 0 && w[0] == "extended" {
		w = w[1:]
		ios = false
	}
	if len(w) < 2 || (w[0] != "permit" && w[0] != "deny") {
		a.Rest = text
		return a
	}
	a.Action = w[0]
	w = w[1:]
	// protocol
	switch w[0] {
	case "object-group", "object":
		if len(w) < 2 {
			a.Rest = text
			return a
		}
		a.Proto = w[0] + " " + w[1]
		w = w[2:]
	default:
		p := w[0]
		if n, ok := protoName[p]; ok {
			p = n
		} else if n, ok := protoNum[p]; ok {
			p = n
		}
		a.Proto = p
		w = w[1:]
	}
	var n int
	a.Src, n = canonAddr(w, ios)
	w = w[n:]
	if a.Proto == "tcp" || a.Proto == "udp" {
		a.SPort, n = canonPort(a.Proto, w)
		w = w[n:]
	}
	a.Dst, n = canonAddr(w, ios)
	w = w[n:]
	if a.Proto == "tcp" || a.Proto == "udp" {
		a.DPort, n = canonPort(a.Proto, w)
		w = w[n:]
	}
	// rest: icmp types, log options ...
	var rest []string
	for i := 0; i < len(w); i++ {
		t := w[i]
		if i == 0 && (a.Proto == "icmp") {
			if v, ok := icmpNames[t]; ok {
				t = v
			}
		}
		if i == 0 && (a.Proto == "icmp6") {
			if v, ok := icmp6Names[t]; ok {
				t = v
			}
		}
		if t == "log" || t == "log-input" {
			rest = append(rest, t)
			if i+1 < len(w) {
				nx := w[i+1]
				if v, ok := logLevel[nx]; ok {
					nx = v
				}
				if _, err := strconv.Atoi(nx); err == nil {
					i++
					if nx != "6" {
						rest = append(rest, nx)
					}
				}
			}
			continue
		}
		rest = append(rest, t)
	}
	a.Rest = strings.Join(rest, " ")
	a.OK = a.Src != "" && a.Dst != ""
	return a
}

func (a ACE) String() string {
	if a.Action == "" {
		return a.Rest
	}
	l := []string{a.Action, a.Proto, a.Src}
	if a.SPort != "" {
		l = append(l, a.SPort)
	}
	l = append(l, a.Dst)
	if a.DPort != "" {
		l = append(l, a.DPort)
	}
	if a.Rest != "" {
		l = append(l, a.Rest)
	}
	return strings.Join(l, " ")
}

// NormACE returns the spelling-normalised text of an ACL entry.
func NormACE(text string) string {
	w := fields(text)
	if len(w) > 0 && w[0] == "extended" {
		return "extended " + ParseACE(text).String()
	}
	if len(w) > 0 && (w[0] == "permit" || w[0] == "deny") {
		return ParseACE(text).String()
	}
	return text
}

// ---------------------------------------------------------------------
// Packets (C14).

type Packet struct {
	Src, Dst netip.Addr
	Proto    string
	DPort    int
}

func addrMatch(spec string, ip netip.Addr, groups func(name string) []string) (bool, bool) {
	switch {
	case spec == "any":
		return true, true
	case spec == "any4":
		return ip.Is4(), true
	case spec == "any6":
		return ip.Is6(), true
	case strings.HasPrefix(spec, "host "):
		a, err := netip.ParseAddr(spec[5:])
		return err == nil && a == ip, err == nil
	case strings.HasPrefix(spec, "object-group "):
		if groups == nil {
			return false, false
		}
		for _, m := range groups(spec[13:]) {
			w := fields(m)
			if len(w) >= 2 && w[0] == "network-object" {
				s, _ := canonAddr(w[1:], false)
				if ok, known := addrMatch(s, ip, groups); known && ok {
					return true, true
				} else if !known {
					return false, false
				}
			} else {
				return false, false
			}
		}
		return false, true
	case strings.Contains(spec, "/"):
		p, err := netip.ParsePrefix(spec)
		return err == nil && p.Contains(ip), err == nil
	}
	w := fields(spec)
	if len(w) == 2 {
		a, err1 := netip.ParseAddr(w[0])
		m, err2 := netip.ParseAddr(w[1])
		if err1 == nil && err2 == nil && a.Is4() && m.Is4() && ip.Is4() {
			ab, mb, ib := a.As4(), m.As4(), ip.As4()
			// ASA uses net masks, IOS wildcard masks; decide by form:
			// a mask whose first byte is 255 is a net mask.
			wild := mb[0] == 0 && mb != [4]byte{0, 0, 0, 0}
			for i := 0; i < 4; i++ {
				mm := mb[i]
				if wild {
					mm = ^mm
				}
				if ab[i]&mm != ib[i]&mm {
					return false, true
				}
			}
			return true, true
		}
	}
	return false, false
}

func portMatch(spec string, port int) (bool, bool) {
	if spec == "" {
		return true, true
	}
	w := fields(spec)
	n := func(i int) int { v, _ := strconv.Atoi(w[i]); return v }
	switch w[0] {
	case "eq":
		return port == n(1), true
	case "gt":
		return port > n(1), true
	case "lt":
		return port < n(1), true
	case "neq":
		return port != n(1), true
	case "range":
		return port >= n(1) && port <= n(2), true
	}
	return false, false
}

// Match tells whether the entry matches the packet; known=false if the
// entry uses features the evaluator does not model.
func (a ACE) Match(p Packet, groups func(string) []string) (match, known bool) {
	if !a.OK {
		return false, false
	}
	switch a.Proto {
	case "ip":
	case "tcp", "udp", "icmp", "icmp6":
		if a.Proto != p.Proto {
			return false, true
		}
	default:
		if _, err := strconv.Atoi(a.Proto); err == nil {
			return false, true // numeric protocol other than the packet's
		}
		return false, false
	}
	if a.SPort != "" {
		return false, false
	}
	ms, k1 := addrMatch(a.Src, p.Src, groups)
	md, k2 := addrMatch(a.Dst, p.Dst, groups)
	mp, k3 := portMatch(a.DPort, p.DPort)
	if !(k1 && k2 && k3) {
		return false, false
	}
	if a.Proto == "icmp" || a.Proto == "icmp6" {
		r := fields(a.Rest)
		if len(r) > 0 && r[0] != "log" && r[0] != "log-input" {
			return false, false
		}
	}
	return ms && md && mp, true
}

// Verdict evaluates first-match semantics with implicit deny.
func Verdict(acl []string, p Packet, groups func(string) []string) (string, bool) {
	for _, line := range acl {
		w := fields(line)
		if len(w) > 0 && (w[0] == "remark" || (len(w) > 1 && w[0] == "extended" && false)) {
			continue
		}
		if strings.HasPrefix(line, "remark ") {
			continue
		}
		a := ParseACE(line)
		if a.Action == "" {
			return "", false
		}
		m, known := a.Match(p, groups)
		if !known {
			return "", false
		}
		if m {
			return a.Action, true
		}
	}
	return "deny", true
}

// GroupMembers returns the member lines of an ASA object-group.
func (d *Dev) GroupMembers(name string) []string {
	idx := d.entriesOf("object-group", name)
	if len(idx) == 0 {
		return nil
	}
	return d.Entries[idx[0]].Subs
}

// ---------------------------------------------------------------------
// Semantic view.

func h64(s string) string {
	h := fnv.New64a()
	h.Write([]byte(s))
	return fmt.Sprintf("%012x", h.Sum64()&0xffffffffffff)
}

// Scope tells which anchors are managed, derived from the target.
// Sub-commands a device shows but that cannot be compared (secrets) or
// that open a deeper mode; they belong to the unmanaged view.
func ignoredSub(parent []string, s string) bool {
	k, _ := defOf(parent)
	switch k {
	case "tunnel-group":
		for _, p := range []string{"ikev1 pre-shared-key", "ikev2 local-authentication pre-shared-key",
			"ikev2 remote-authentication pre-shared-key", "isakmp keepalive"} {
			if strings.HasPrefix(s+" ", p+" ") {
				return true
			}
		}
	case "group-policy":
		return s == "webvpn"
	}
	return false
}

type Scope struct {
	Interfaces map[string]bool // ASA: implicit interfaces; IOS: interface names
	Route4     bool
	Route6     bool
	VRFs       map[string]bool // IOS: VRFs with routes/interfaces in target
	RouteVRFs  map[string]bool // IOS: VRFs with routes in target
	HaveIntf   bool
	All        bool // no restriction (device has no unmanaged anchors)
}

func isIPName(s string) bool {
	_, err := netip.ParseAddr(s)
	return err == nil
}

type semCtx struct {
	d     *Dev
	memo  map[Ref]string
	stack map[Ref]bool
}

func (c *semCtx) canonLine(parent, w []string, eraseName string, eraseSeq bool) string {
	out := append([]string(nil), w...)
	for _, rp := range refsOf(parent, w, c.d.IOS) {
		switch rp.Kind {
		case "aaa-server", "ldap attribute-map":
			continue // fixed names, transferred manually
		}
		if defaultObjects[rp.Ref] || (rp.Kind == "tunnel-group" && isIPName(rp.Name)) {
			continue
		}
		out[rp.Pos] = "<" + c.content(rp.Ref) + ">"
	}
	return strings.Join(out, " ")
}

func stripMetric(w []string) []string {
	// route IF D M GW [metric]; ipv6 route IF P GW [metric]
	if w[0] == "route" && len(w) == 6 {
		return w[:5]
	}
	if w[0] == "ipv6" && len(w) == 6 && w[1] == "route" {
		return w[:5]
	}
	return w
}

// content returns a hash of the canonical content of a named object.
func (c *semCtx) content(r Ref) string {
	if v, ok := c.memo[r]; ok {
		return v
	}
	if c.stack[r] {
		return "CYCLE"
	}
	c.stack[r] = true
	defer delete(c.stack, r)
	d := c.d
	idx := d.entriesOf(r.Kind, r.Name)
	var parts []string
	switch r.Kind {
	case "access-list":
		for _, i := range idx {
			w := fields(d.Entries[i].Line)
			body := w[2:]
			if len(body) > 0 && body[0] == "remark" {
				parts = append(parts, strings.Join(body, " "))
				continue
			}
			// expand refs on the full line, then drop the name, then normalise
			cl := fields(c.canonLine(nil, w, "", false))
			parts = append(parts, NormACE(strings.Join(cl[2:], " ")))
		}
	case "ip access-list extended":
		if len(idx) > 0 {
			parts = iosRuns(d.Entries[idx[0]].Subs)
		}
	case "object-group":
		if len(idx) > 0 {
			e := d.Entries[idx[0]]
			w := fields(e.Line)
			hdr := append([]string{w[0], w[1]}, w[3:]...)
			var subs []string
			for _, s := range e.Subs {
				sw := fields(s)
				if sw[0] == "description" {
					continue
				}
				cl := c.canonLine(w, sw, "", false)
				if sw[0] == "network-object" {
					a, _ := canonAddr(fields(cl)[1:], false)
					cl = "network-object " + a
				}
				subs = append(subs, cl)
			}
			sort.Strings(subs)
			subs = uniq(subs)
			parts = append([]string{strings.Join(hdr, " ")}, subs...)
		}
	case "crypto map", "crypto dynamic-map":
		if d.IOS {
			var groups []string
			for _, i := range idx {
				e := d.Entries[i]
				w := fields(e.Line)
				var subs []string
				for _, s := range e.Subs {
					if strings.HasPrefix(s, "match address ") {
						continue // configured manually, not managed
					}
					subs = append(subs, c.canonLine(w, fields(s), "", false))
				}
				sort.Strings(subs)
				groups = append(groups, strings.Join(w[4:], " ")+"{"+strings.Join(subs, ";")+"}")
			}
			sort.Strings(groups)
			parts = groups
			break
		}
		bySeq := map[string][]string{}
		for _, i := range idx {
			w := fields(d.Entries[i].Line)
			cl := fields(c.canonLine(nil, w, "", false))
			if len(cl) < 5 {
				continue
			}
			line := strings.Join(cl[4:], " ")
			if line == "set pfs group14" {
				line = "set pfs"
			}
			bySeq[w[3]] = append(bySeq[w[3]], line)
		}
		var groups []string
		for _, l := range bySeq {
			sort.Strings(l)
			groups = append(groups, strings.Join(l, ";"))
		}
		sort.Strings(groups)
		parts = groups
	default:
		for _, i := range idx {
			e := d.Entries[i]
			w := fields(e.Line)
			cw := fields(c.canonLine(nil, w, "", false))
			// erase the name and a sequence number of certificate maps
			var hdr []string
			switch r.Kind {
			case "crypto ca certificate map":
				hdr = []string{"crypto ca certificate map"}
			case "ip local pool":
				hdr = append([]string{"ip local pool"}, cw[4:]...)
			case "crypto ipsec ikev1 transform-set", "crypto ipsec ikev2 ipsec-proposal":
				hdr = append(append([]string(nil), cw[:4]...), cw[5:]...)
			default:
				hdr = append([]string{cw[0]}, cw[2:]...)
			}
			var subs []string
			for _, s := range e.Subs {
				if ignoredSub(w, s) {
					continue
				}
				cl := c.canonLine(w, fields(s), "", false)
				if r.Kind == "crypto ca certificate map" && strings.HasPrefix(cl, "subject-name") {
					cl = strings.ToLower(cl)
				}
				subs = append(subs, cl)
			}
			sort.Strings(subs)
			parts = append(parts, strings.Join(hdr, " ")+"{"+strings.Join(subs, ";")+"}")
		}
		sort.Strings(parts)
	}
	v := h64(r.Kind + "\n" + strings.Join(parts, "\n"))
	c.memo[r] = v
	return v
}

func uniq(l []string) []string {
	var r []string
	for i, s := range l {
		if i == 0 || s != l[i-1] {
			r = append(r, s)
		}
	}
	return r
}

// iosRuns canonicalises an IOS ACL: remarks dropped, maximal runs of the
// same action become sorted sets.
func iosRuns(lines []string) []string {
	var out []string
	var run []string
	act := ""
	flush := func() {
		if len(run) > 0 {
			sort.Strings(run)
			out = append(out, act+"{"+strings.Join(uniq(run), ";")+"}")
			run = nil
		}
	}
	for _, l := range lines {
		w := fields(l)
		if len(w) == 0 || w[0] == "remark" {
			continue
		}
		if w[0] != act {
			flush()
			act = w[0]
		}
		run = append(run, NormACE(l))
	}
	flush()
	return out
}

// ScopeOf derives the managed scope from a target configuration.
func ScopeOf(b *Dev) *Scope {
	sc := &Scope{Interfaces: map[string]bool{}, VRFs: map[string]bool{}, RouteVRFs: map[string]bool{}}
	for _, e := range b.Entries {
		w := fields(e.Line)
		switch {
		case w[0] == "access-group" && len(w) == 5:
			sc.Interfaces[w[4]] = true
		case w[0] == "crypto" && len(w) == 5 && w[1] == "map" && w[3] == "interface":
			sc.Interfaces[w[4]] = true
		case w[0] == "route":
			sc.Route4 = true
		case w[0] == "ipv6" && len(w) > 1 && w[1] == "route":
			sc.Route6 = true
		case w[0] == "ip" && len(w) > 1 && w[1] == "route":
			sc.Route4 = true
			sc.VRFs[iosRouteVRF(w)] = true
			sc.RouteVRFs[iosRouteVRF(w)] = true
		case w[0] == "interface" && b.IOS:
			sc.HaveIntf = true
			sc.Interfaces[w[1]] = true
			sc.VRFs[iosIntfVRF(e.Subs)] = true
		}
	}
	return sc
}

func iosRouteVRF(w []string) string {
	if len(w) > 3 && w[2] == "vrf" {
		return w[3]
	}
	return ""
}

func iosIntfVRF(subs []string) string {
	for _, s := range subs {
		if i := strings.Index(s, "vrf forwarding "); i >= 0 {
			return strings.TrimSpace(s[i+len("vrf forwarding "):])
		}
	}
	return ""
}

// Sem returns the canonical managed view: one string per anchor, sorted.
func (d *Dev) Sem(sc *Scope) []string {
	c := &semCtx{d: d, memo: map[Ref]string{}, stack: map[Ref]bool{}}
	var out []string
	if d.IOS {
		return d.semIOS(c, sc)
	}
	for _, e := range d.Entries {
		w := fields(e.Line)
		switch w[0] {
		case "access-group":
			if len(w) == 5 && !sc.All && !sc.Interfaces[w[4]] {
				continue
			}
			out = append(out, c.canonLine(nil, w, "", false))
		case "crypto":
			if len(w) == 5 && w[1] == "map" && w[3] == "interface" {
				if !sc.All && !sc.Interfaces[w[4]] {
					continue
				}
				out = append(out, c.canonLine(nil, w, "", false))
			}
		case "route":
			if sc.All || sc.Route4 {
				out = append(out, strings.Join(stripMetric(w), " "))
			}
		case "ipv6":
			if len(w) > 1 && w[1] == "route" && (sc.All || sc.Route6) {
				out = append(out, strings.Join(stripMetric(w), " "))
			}
		case "username":
			out = append(out, d.anchorEntry(c, e))
		case "tunnel-group":
			if isIPName(w[1]) || defaultObjects[Ref{"tunnel-group", w[1]}] {
				out = append(out, d.anchorEntry(c, e))
			}
		case "group-policy":
			if defaultObjects[Ref{"group-policy", w[1]}] && !(len(w) == 3 && w[2] == "internal") {
				out = append(out, d.anchorEntry(c, e))
			}
		case "tunnel-group-map":
			cw := fields(c.canonLine(nil, w, "", false))
			if len(cw) == 4 {
				cw = []string{cw[0], cw[1], cw[3]}
			}
			out = append(out, strings.Join(cw, " "))
		case "webvpn":
			for _, s := range e.Subs {
				sw := fields(s)
				if sw[0] == "certificate-group-map" {
					cw := fields(c.canonLine(w, sw, "", false))
					if len(cw) == 4 {
						cw = []string{cw[0], cw[1], cw[3]}
					}
					out = append(out, "webvpn "+strings.Join(cw, " "))
				}
			}
		case "no":
			if e.Line == "no sysopt connection permit-vpn" {
				out = append(out, e.Line)
			}
		}
	}
	sort.Strings(out)
	return out
}

func (d *Dev) anchorEntry(c *semCtx, e *Entry) string {
	w := fields(e.Line)
	var subs []string
	for _, s := range e.Subs {
		if ignoredSub(w, s) {
			continue
		}
		subs = append(subs, c.canonLine(w, fields(s), "", false))
	}
	sort.Strings(subs)
	if len(subs) == 0 && len(w) == 3 && strings.HasSuffix(w[2], "attributes") {
		return "" // an empty attribute block is nothing
	}
	if defaultObjects[Ref{w[0], w[1]}] && len(w) >= 3 && w[2] == "type" {
		return "" // default tunnel-groups always exist
	}
	return c.canonLine(nil, w, "", false) + "{" + strings.Join(subs, ";") + "}"
}

func (d *Dev) semIOS(c *semCtx, sc *Scope) []string {
	var out []string
	for _, e := range d.Entries {
		w := fields(e.Line)
		switch {
		case w[0] == "interface":
			vrf := iosIntfVRF(e.Subs)
			if !sc.All && (!sc.Interfaces[w[1]] || !sc.VRFs[vrf]) {
				continue
			}
			for _, s := range e.Subs {
				sw := fields(s)
				if sw[0] == "crypto" && len(sw) == 3 && sw[1] == "map" && d.isGDOI(sw[2]) {
					continue
				}
				if (sw[0] == "ip" && len(sw) > 1 && sw[1] == "access-group") ||
					(sw[0] == "crypto" && len(sw) > 1 && sw[1] == "map") {
					out = append(out, e.Line+": "+c.canonLine(w, sw, "", false))
				}
			}
		case w[0] == "ip" && len(w) > 1 && w[1] == "route":
			if sc.All || sc.RouteVRFs[iosRouteVRF(w)] {
				out = append(out, e.Line)
			}
		}
	}
	sort.Strings(out)
	return out
}

// SemEqual compares two devices on the scope of the target.
func SemEqual(a, b *Dev, sc *Scope) (bool, string) {
	sa, sb := a.Sem(sc), b.Sem(sc)
	sa, sb = dropEmpty(sa), dropEmpty(sb)
	if strings.Join(sa, "\n") == strings.Join(sb, "\n") {
		return true, ""
	}
	return false, fmt.Sprintf("device:\n  %s\ntarget:\n  %s",
		strings.Join(sa, "\n  "), strings.Join(sb, "\n  "))
}

func dropEmpty(l []string) []string {
	var r []string
	for _, s := range l {
		if s != "" {
			r = append(r, s)
		}
	}
	return r
}

func (d *Dev) isGDOI(name string) bool {
	for _, i := range d.entriesOf("crypto map", name) {
		w := fields(d.Entries[i].Line)
		if len(w) >= 5 && w[4] == "gdoi" {
			return true
		}
	}
	return false
}
