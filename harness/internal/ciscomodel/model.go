// Package ciscomodel is an independent reference model of the configuration
// store of a Cisco ASA / IOS device: it executes configuration commands one
// by one, enforces the rules a real device enforces (referents exist,
// referenced objects are not deleted, no duplicate ACL entry, line/sequence
// numbers address an existing slot, sub-commands need their parent's mode)
// and prints its state in the syntax the device prints.
//
// It shares no code and no tables with the tool under test.
package ciscomodel

import (
	"fmt"
	"sort"
	"strconv"
	"strings"
)

type Entry struct {
	Line string
	Subs []string
	Seq  []int // IOS ACL: sequence number per sub line
}

func (e *Entry) clone() *Entry {
	return &Entry{Line: e.Line, Subs: append([]string(nil), e.Subs...),
		Seq: append([]int(nil), e.Seq...)}
}

type Dev struct {
	IOS     bool
	Entries []*Entry
	cur     *Entry // current sub mode, nil = global configuration mode
	nested  *Entry // ASA: "webvpn" was entered inside the attributes mode of this group-policy / username
	left    bool   // configuration mode was left by a top-level exit/end
	// Steps counts executed commands (for diagnostics).
	Steps int
}

func (d *Dev) Clone() *Dev {
	n := &Dev{IOS: d.IOS, left: d.left, Steps: d.Steps}
	for _, e := range d.Entries {
		c := e.clone()
		n.Entries = append(n.Entries, c)
		if d.cur == e {
			n.cur = c
		}
		if d.nested == e {
			n.nested = c
		}
	}
	return n
}

// ResetSession forgets the configuration-mode state (a new session).
func (d *Dev) ResetSession() { d.cur = nil; d.left = false }

func fields(s string) []string { return strings.Fields(s) }

func norm(s string) string { return strings.Join(strings.Fields(s), " ") }

// Load parses a configuration in the device's print syntax (one space of
// indentation for sub-commands; deeper levels are kept attached to the
// sub-command they follow as opaque text).
func Load(text string, ios bool) *Dev {
	d := &Dev{IOS: ios}
	var cur *Entry
	curIndent := map[*Entry]int{}
	inBanner := false
	for _, raw := range strings.Split(text, "\n") {
		line := strings.TrimRight(raw, " \t\r")
		if line == "" || line[0] == '!' {
			continue
		}
		if inBanner {
			if strings.Contains(line, "^C") {
				inBanner = false
			}
			continue
		}
		if strings.HasPrefix(line, "banner ") && strings.Count(line, "^C") == 1 {
			inBanner = true
			continue
		}
		if line[0] != ' ' {
			if w := strings.Fields(line); ios && len(w) == 3 && w[0] == "interface" && (w[2] == "point-to-point" || w[2] == "multipoint") {
				// the type of a sub-interface is shown behind its name; the
				// interface is addressed by its name alone
				line = w[0] + " " + w[1]
			}
			cur = &Entry{Line: norm(line)}
			d.Entries = append(d.Entries, cur)
			continue
		}
		if cur == nil {
			continue
		}
		// Sub-sub commands (two or more levels) are ignored like the device
		// nests them; we keep only first-level subs.  First sub decides the
		// indentation.
		ind := len(line) - len(strings.TrimLeft(line, " "))
		if len(cur.Subs) == 0 {
			cur.Seq = nil
			curIndent[cur] = ind
		}
		if ind > curIndent[cur] {
			continue
		}
		sub := norm(line)
		if d.IOS && strings.HasPrefix(cur.Line, "ip access-list extended ") {
			w := fields(sub)
			if n, err := strconv.Atoi(w[0]); err == nil {
				cur.Subs = append(cur.Subs, strings.Join(w[1:], " "))
				cur.Seq = append(cur.Seq, n)
				continue
			}
			cur.Subs = append(cur.Subs, sub)
			cur.Seq = append(cur.Seq, 0)
			continue
		}
		cur.Subs = append(cur.Subs, sub)
	}
	if d.IOS {
		for _, e := range d.Entries {
			if strings.HasPrefix(e.Line, "ip access-list extended ") {
				d.renumberIfUnset(e)
			}
		}
	}
	return d
}

func (d *Dev) renumberIfUnset(e *Entry) {
	unset := false
	for _, n := range e.Seq {
		if n == 0 {
			unset = true
		}
	}
	if unset || len(e.Seq) != len(e.Subs) {
		e.Seq = make([]int, len(e.Subs))
		for i := range e.Subs {
			e.Seq[i] = 10 * (i + 1)
		}
	}
}

// Print renders the configuration as the device shows it.
func (d *Dev) Print() string {
	var b strings.Builder
	for _, e := range d.Entries {
		b.WriteString(e.Line)
		b.WriteByte('\n')
		for _, s := range e.Subs {
			b.WriteByte(' ')
			b.WriteString(s)
			b.WriteByte('\n')
		}
	}
	return b.String()
}

// PrintSeq renders IOS ACLs with sequence numbers (IOS-XE >= 16.12).
func (d *Dev) PrintSeq() string {
	var b strings.Builder
	for _, e := range d.Entries {
		b.WriteString(e.Line)
		b.WriteByte('\n')
		for i, s := range e.Subs {
			b.WriteByte(' ')
			if len(e.Seq) == len(e.Subs) && strings.HasPrefix(e.Line, "ip access-list extended ") {
				b.WriteString(strconv.Itoa(e.Seq[i]))
				b.WriteByte(' ')
			}
			b.WriteString(s)
			b.WriteByte('\n')
		}
	}
	return b.String()
}

// ---------------------------------------------------------------------
// Kinds of named objects and references between lines.

type Ref struct{ Kind, Name string }

// defOf returns the kind and name a top-level line defines (or is part of).
func defOf(w []string) (kind, name string) {
	n := len(w)
	at := func(i int) string {
		if i < n {
			return w[i]
		}
		return ""
	}
	switch at(0) {
	case "access-list":
		return "access-list", at(1)
	case "object-group":
		return "object-group", at(2)
	case "group-policy":
		return "group-policy", at(1)
	case "tunnel-group":
		return "tunnel-group", at(1)
	case "username":
		return "username", at(1)
	case "aaa-server":
		return "aaa-server", at(1)
	case "ldap":
		if at(1) == "attribute-map" {
			return "ldap attribute-map", at(2)
		}
	case "interface":
		return "interface", at(1)
	case "ip":
		if at(1) == "local" && at(2) == "pool" {
			return "ip local pool", at(3)
		}
		if at(1) == "access-list" && at(2) == "extended" {
			return "ip access-list extended", at(3)
		}
	case "crypto":
		switch at(1) {
		case "map":
			if at(3) == "interface" {
				return "", ""
			}
			return "crypto map", at(2)
		case "dynamic-map":
			return "crypto dynamic-map", at(2)
		case "ipsec":
			if at(2) == "ikev1" && at(3) == "transform-set" {
				return "crypto ipsec ikev1 transform-set", at(4)
			}
			if at(2) == "ikev2" && at(3) == "ipsec-proposal" {
				return "crypto ipsec ikev2 ipsec-proposal", at(4)
			}
		case "ca":
			if at(2) == "certificate" && at(3) == "map" {
				return "crypto ca certificate map", at(4)
			}
		}
	}
	return "", ""
}

// RefPos is a reference together with the token index holding the name.
type RefPos struct {
	Ref
	Pos int
}

// refsOf lists the references made by a line.  parent is the top-level line
// for a sub-command, "" for a top-level line.
func refsOf(parent []string, w []string, ios bool) []RefPos {
	var r []RefPos
	n := len(w)
	at := func(i int) string {
		if i < n {
			return w[i]
		}
		return ""
	}
	add := func(kind string, pos int) {
		if pos < n {
			r = append(r, RefPos{Ref{kind, w[pos]}, pos})
		}
	}
	if parent == nil {
		switch at(0) {
		case "access-list":
			for i := 2; i+1 < n; i++ {
				if w[i] == "object-group" {
					add("object-group", i+1)
					i++
				}
			}
		case "access-group":
			add("access-list", 1)
		case "tunnel-group-map":
			if at(1) == "default-group" {
				add("tunnel-group", 2)
			} else {
				add("crypto ca certificate map", 1)
				add("tunnel-group", 3)
			}
		case "crypto":
			switch at(1) {
			case "map", "dynamic-map":
				if at(1) == "map" && at(3) == "interface" {
					add("crypto map", 2)
					break
				}
				switch {
				case at(4) == "match" && at(5) == "address":
					if ios {
						add("ip access-list extended", 6)
					} else {
						add("access-list", 6)
					}
				case at(4) == "ipsec-isakmp" && at(5) == "dynamic":
					add("crypto dynamic-map", 6)
				case at(4) == "set" && at(5) == "ikev1" && at(6) == "transform-set":
					for i := 7; i < n; i++ {
						add("crypto ipsec ikev1 transform-set", i)
					}
				case at(4) == "set" && at(5) == "ikev2" && at(6) == "ipsec-proposal":
					for i := 7; i < n; i++ {
						add("crypto ipsec ikev2 ipsec-proposal", i)
					}
				}
			}
		}
		return r
	}
	pk, _ := defOf(parent)
	switch pk {
	case "object-group":
		if at(0) == "group-object" {
			add("object-group", 1)
		}
	case "group-policy":
		switch at(0) {
		case "vpn-filter", "split-tunnel-network-list":
			if at(1) == "value" {
				add("access-list", 2)
			}
		case "address-pools":
			if at(1) == "value" {
				for i := 2; i < n; i++ {
					add("ip local pool", i)
				}
			}
		}
	case "username":
		switch at(0) {
		case "vpn-filter":
			if at(1) == "value" {
				add("access-list", 2)
			}
		case "vpn-group-policy":
			add("group-policy", 1)
		}
	case "tunnel-group":
		switch at(0) {
		case "default-group-policy":
			add("group-policy", 1)
		case "authentication-server-group":
			add("aaa-server", 1)
		}
	case "aaa-server":
		if at(0) == "ldap-attribute-map" {
			add("ldap attribute-map", 1)
		}
	case "ldap attribute-map":
		if at(0) == "map-value" && n >= 4 {
			add("group-policy", n-1)
		}
	case "interface":
		if ios {
			if at(0) == "ip" && at(1) == "access-group" {
				add("ip access-list extended", 2)
			}
			if at(0) == "crypto" && at(1) == "map" {
				add("crypto map", 2)
			}
		}
	case "crypto map":
		if ios && at(0) == "set" && at(1) == "ip" && at(2) == "access-group" {
			add("ip access-list extended", 3)
		}
		if ios && at(0) == "match" && at(1) == "address" {
			add("ip access-list extended", 2)
		}
	}
	if len(parent) == 1 && parent[0] == "webvpn" && at(0) == "certificate-group-map" {
		add("crypto ca certificate map", 1)
		add("tunnel-group", 3)
	}
	return r
}

var defaultObjects = map[Ref]bool{
	{"group-policy", "DfltGrpPolicy"}:      true,
	{"tunnel-group", "DefaultL2LGroup"}:    true,
	{"tunnel-group", "DefaultRAGroup"}:     true,
	{"tunnel-group", "DefaultWEBVPNGroup"}: true,
}

func (d *Dev) exists(r Ref) bool {
	if defaultObjects[r] {
		return true
	}
	for _, e := range d.Entries {
		k, n := defOf(fields(e.Line))
		if k == r.Kind && n == r.Name {
			return true
		}
	}
	return false
}

// referrers returns a description of a line that references r, or "".
// skip entries are ignored (they are being removed together).
func (d *Dev) referrer(r Ref, skip map[*Entry]bool) string {
	for _, e := range d.Entries {
		if skip[e] {
			continue
		}
		pw := fields(e.Line)
		// An object does not count as its own referrer.
		k, n := defOf(pw)
		self := k == r.Kind && n == r.Name
		if !self {
			for _, rp := range refsOf(nil, pw, d.IOS) {
				if rp.Ref == r {
					return e.Line
				}
			}
		}
		for _, s := range e.Subs {
			for _, rp := range refsOf(pw, fields(s), d.IOS) {
				if rp.Ref == r && !self {
					return e.Line + " / " + s
				}
			}
		}
	}
	return ""
}

func (d *Dev) checkRefs(parent, w []string) error {
	for _, rp := range refsOf(parent, w, d.IOS) {
		if !d.exists(rp.Ref) {
			return fmt.Errorf("%s %q does not exist", rp.Kind, rp.Name)
		}
	}
	return nil
}

func (d *Dev) find(line string) int {
	for i, e := range d.Entries {
		if e.Line == line {
			return i
		}
	}
	return -1
}

func (d *Dev) removeAt(i int) {
	if d.cur == d.Entries[i] {
		d.cur = nil
	}
	d.Entries = append(d.Entries[:i:i], d.Entries[i+1:]...)
}

func (d *Dev) insertAt(i int, e *Entry) {
	d.Entries = append(d.Entries, nil)
	copy(d.Entries[i+1:], d.Entries[i:])
	d.Entries[i] = e
}

// entriesOf returns indices of all top-level entries defining (kind,name).
func (d *Dev) entriesOf(kind, name string) []int {
	var l []int
	for i, e := range d.Entries {
		k, n := defOf(fields(e.Line))
		if k == kind && n == name {
			l = append(l, i)
		}
	}
	return l
}

// removeObject removes all entries of (kind,name) if it is not referenced.
func (d *Dev) removeObject(kind, name string) error {
	idx := d.entriesOf(kind, name)
	if len(idx) == 0 {
		return fmt.Errorf("%s %q does not exist", kind, name)
	}
	skip := map[*Entry]bool{}
	for _, i := range idx {
		skip[d.Entries[i]] = true
	}
	if by := d.referrer(Ref{kind, name}, skip); by != "" {
		return fmt.Errorf("%s %q is still referenced by %q", kind, name, by)
	}
	for j := len(idx) - 1; j >= 0; j-- {
		d.removeAt(idx[j])
	}
	return nil
}

// ---------------------------------------------------------------------
// Modes.

var topKeywords = map[string]bool{
	"access-list": true, "object-group": true, "access-group": true,
	"crypto": true, "group-policy": true, "tunnel-group": true,
	"tunnel-group-map": true, "username": true, "ip": true, "ipv6": true,
	"route": true, "interface": true, "webvpn": true, "aaa-server": true,
	"ldap": true, "clear": true, "sysopt": true,
}

// Explicit sub-command keywords per mode.  Modes with opaque=true accept
// any other keyword that is not a top-level keyword.
type mode struct {
	subs   map[string]bool
	opaque bool
}

func set(l ...string) map[string]bool {
	m := map[string]bool{}
	for _, s := range l {
		m[s] = true
	}
	return m
}

func (d *Dev) modeOf(e *Entry) *mode {
	w := fields(e.Line)
	at := func(i int) string {
		if i < len(w) {
			return w[i]
		}
		return ""
	}
	if d.IOS {
		switch {
		case at(0) == "ip" && at(1) == "access-list":
			return &mode{subs: set("permit", "deny", "remark")}
		case at(0) == "interface":
			// "ip ..." and "crypto map" are sub-commands of an IOS interface.
			return &mode{subs: set("ip", "crypto", "shutdown", "vrf", "description"), opaque: true}
		case at(0) == "crypto" && at(1) == "map" && (at(4) == "ipsec-isakmp" || at(4) == "gdoi"):
			return &mode{subs: set("set", "match", "description")}
		}
		return nil
	}
	switch at(0) {
	case "object-group":
		switch at(1) {
		case "network":
			return &mode{subs: set("network-object", "group-object", "description")}
		case "service":
			return &mode{subs: set("port-object", "service-object", "group-object", "description")}
		case "protocol":
			return &mode{subs: set("protocol-object", "group-object", "description")}
		case "icmp-type":
			return &mode{subs: set("icmp-object", "group-object", "description")}
		}
	case "group-policy":
		if at(2) == "attributes" {
			return &mode{subs: set("webvpn"), opaque: true}
		}
	case "username":
		if at(2) == "attributes" {
			return &mode{subs: set("webvpn"), opaque: true}
		}
	case "tunnel-group":
		if strings.HasSuffix(at(2), "-attributes") {
			return &mode{opaque: true}
		}
	case "crypto":
		if at(1) == "ca" && at(2) == "certificate" && at(3) == "map" {
			return &mode{subs: set("subject-name", "extended-key-usage", "issuer-name", "alt-subject-name")}
		}
		if at(1) == "ipsec" && at(2) == "ikev2" && at(3) == "ipsec-proposal" {
			return &mode{subs: set("protocol")}
		}
	case "webvpn":
		return &mode{subs: set("certificate-group-map", "enable"), opaque: true}
	case "aaa-server":
		return &mode{opaque: true}
	case "ldap":
		return &mode{subs: set("map-name", "map-value")}
	case "interface":
		return &mode{subs: set("ip", "ipv6"), opaque: true}
	}
	return nil
}

// multi-valued sub-commands (several lines with the same keyword coexist).
var multiSub = set("network-object", "port-object", "group-object",
	"service-object", "protocol-object", "icmp-object", "banner",
	"subject-name", "extended-key-usage", "map-value", "map-name",
	"certificate-group-map", "anyconnect-custom", "permit", "deny", "remark")

// subKey returns the key under which a single-valued sub-command is stored.
func subKey(parent, w []string) string {
	if len(w) == 0 {
		return ""
	}
	if w[0] == "protocol" && len(w) >= 3 {
		return strings.Join(w[:3], " ")
	}
	if (w[0] == "ikev1" || w[0] == "ikev2" || w[0] == "isakmp") && len(w) >= 2 {
		return w[0] + " " + w[1]
	}
	if w[0] == "certificate-group-map" && len(w) >= 3 {
		return strings.Join(w[:3], " ")
	}
	if w[0] == "set" && len(w) >= 2 {
		// IOS crypto map sub-commands: set peer X (multi), set ip access-group N in|out
		if w[1] == "ip" && len(w) >= 5 {
			return "set ip access-group " + w[4]
		}
		return strings.Join(w, " ")
	}
	if w[0] == "ip" && len(w) >= 4 && w[1] == "access-group" {
		return "ip access-group " + w[3]
	}
	if w[0] == "crypto" && len(w) >= 2 && w[1] == "map" {
		return "crypto map"
	}
	if w[0] == "ip" || w[0] == "ipv6" {
		return strings.Join(w, " ")
	}
	if multiSub[w[0]] {
		return strings.Join(w, " ")
	}
	return w[0]
}

// ---------------------------------------------------------------------
// Exec.

// Exec executes one configuration command.  An error means a device that
// enforces its rules would have answered with an error.
func (d *Dev) Exec(line string) error {
	d.Steps++
	line = norm(line)
	if line == "" {
		return nil
	}
	if d.left {
		return fmt.Errorf("command %q sent after configuration mode was left", line)
	}
	if line == "exit" || line == "end" {
		if d.cur != nil && line == "exit" && d.nested == d.cur {
			// leaves the nested webvpn mode only
			d.nested = nil
		} else if d.cur != nil && line == "exit" {
			d.cur = nil
		} else if line == "end" {
			d.cur = nil
			d.left = true
		} else {
			d.left = true
		}
		return nil
	}
	w := fields(line)
	if d.IOS && len(w) == 3 && w[0] == "interface" && (w[2] == "point-to-point" || w[2] == "multipoint") {
		// an existing sub-interface may be entered with its type
		line = w[0] + " " + w[1]
		w = w[:2]
	}
	neg := false
	body := w
	if w[0] == "no" && len(w) > 1 {
		neg = true
		body = w[1:]
	}
	if d.cur != nil && d.nested != d.cur {
		d.nested = nil
	}
	if d.cur != nil {
		m := d.modeOf(d.cur)
		if m != nil {
			kw := body[0]
			if !d.IOS && d.nested == d.cur && (kw == "certificate-group-map" || kw == "enable") {
				// the webvpn mode of a group-policy / username is not the
				// global webvpn mode
				return fmt.Errorf("invalid input %q in the webvpn mode of %q", line, d.cur.Line)
			}
			if !d.IOS && kw == "webvpn" && !neg && len(body) == 1 {
				pw := fields(d.cur.Line)
				if len(pw) == 3 && pw[2] == "attributes" && (pw[0] == "group-policy" || pw[0] == "username") {
					d.nested = d.cur
				}
			}
			isNum := false
			if _, err := strconv.Atoi(kw); err == nil {
				isNum = true
			}
			if d.IOS && kw == "ip" && len(body) > 1 && (body[1] == "access-list" || body[1] == "route") {
				// global commands, not interface sub-commands
			} else if d.IOS && kw == "crypto" && strings.HasPrefix(d.cur.Line, "interface ") && len(body) != 3 {
				// "crypto map NAME SEQ ..." is a global command
			} else if m.subs[kw] || (m.opaque && !topKeywords[kw]) ||
				(isNum && d.IOS && strings.HasPrefix(d.cur.Line, "ip access-list ")) {
				return d.execSub(d.cur, neg, body)
			}
		}
		if !topKeywords[body[0]] {
			return fmt.Errorf("invalid input %q in mode of %q", line, d.cur.Line)
		}
		d.cur = nil
	}
	return d.execTop(neg, body, line)
}

func (d *Dev) execSub(e *Entry, neg bool, w []string) error {
	pw := fields(e.Line)
	text := strings.Join(w, " ")
	if d.IOS && strings.HasPrefix(e.Line, "ip access-list extended ") {
		return d.execIOSACLSub(e, neg, w)
	}
	if neg {
		for i, s := range e.Subs {
			if s == text {
				e.Subs = append(e.Subs[:i:i], e.Subs[i+1:]...)
				return nil
			}
		}
		// "no <keyword>" without value removes a single-valued attribute.
		if len(w) == 1 {
			for i, s := range e.Subs {
				if fields(s)[0] == w[0] {
					e.Subs = append(e.Subs[:i:i], e.Subs[i+1:]...)
					return nil
				}
			}
		}
		return fmt.Errorf("sub-command %q is not present in %q", text, e.Line)
	}
	if err := d.checkRefs(pw, w); err != nil {
		return err
	}
	// A group must not contain itself.
	if k, n := defOf(pw); k == "object-group" && w[0] == "group-object" && len(w) > 1 && w[1] == n {
		return fmt.Errorf("object-group %q must not contain itself", n)
	}
	key := subKey(pw, w)
	for i, s := range e.Subs {
		if s == text {
			return nil
		}
		if subKey(pw, fields(s)) == key {
			e.Subs[i] = text
			return nil
		}
	}
	e.Subs = append(e.Subs, text)
	return nil
}

func stripLog(s string) string {
	w := fields(s)
	for i, t := range w {
		if t == "log" || t == "log-input" {
			return strings.Join(w[:i], " ")
		}
	}
	return s
}

func (d *Dev) execIOSACLSub(e *Entry, neg bool, w []string) error {
	if neg {
		if len(w) == 1 {
			n, err := strconv.Atoi(w[0])
			if err != nil {
				return fmt.Errorf("invalid input %q", "no "+w[0])
			}
			for i, s := range e.Seq {
				if s == n {
					e.Subs = append(e.Subs[:i:i], e.Subs[i+1:]...)
					e.Seq = append(e.Seq[:i:i], e.Seq[i+1:]...)
					return nil
				}
			}
			return fmt.Errorf("no entry with sequence number %d in %q", n, e.Line)
		}
		text := strings.Join(w, " ")
		for i, s := range e.Subs {
			if s == text {
				e.Subs = append(e.Subs[:i:i], e.Subs[i+1:]...)
				e.Seq = append(e.Seq[:i:i], e.Seq[i+1:]...)
				return nil
			}
		}
		return fmt.Errorf("entry %q not present in %q", text, e.Line)
	}
	seq := 0
	if n, err := strconv.Atoi(w[0]); err == nil {
		seq = n
		w = w[1:]
	}
	if len(w) == 0 {
		return fmt.Errorf("incomplete ACL entry")
	}
	text := strings.Join(w, " ")
	if w[0] != "remark" {
		// IOS knows "any" only (any4 / any6 are ASA keywords)
		for _, t := range w {
			if t == "any4" || t == "any6" {
				return fmt.Errorf("invalid input %q in ACL entry %q", t, text)
			}
		}
		for _, s := range e.Subs {
			if stripLog(s) == stripLog(text) && fields(s)[0] != "remark" {
				return fmt.Errorf("duplicate ACL entry %q in %q", text, e.Line)
			}
		}
	}
	if seq == 0 {
		last := 0
		for _, s := range e.Seq {
			if s > last {
				last = s
			}
		}
		seq = last + 10
	}
	pos := len(e.Seq)
	for i, s := range e.Seq {
		if s == seq {
			return fmt.Errorf("sequence number %d already used in %q", seq, e.Line)
		}
		if s > seq {
			pos = i
			break
		}
	}
	e.Subs = append(e.Subs, "")
	copy(e.Subs[pos+1:], e.Subs[pos:])
	e.Subs[pos] = text
	e.Seq = append(e.Seq, 0)
	copy(e.Seq[pos+1:], e.Seq[pos:])
	e.Seq[pos] = seq
	return nil
}

func (d *Dev) execTop(neg bool, w []string, full string) error {
	at := func(i int) string {
		if i < len(w) {
			return w[i]
		}
		return ""
	}
	text := strings.Join(w, " ")
	switch at(0) {
	case "clear":
		if neg || at(1) != "configure" || len(w) < 4 {
			return fmt.Errorf("invalid input %q", full)
		}
		kind := strings.Join(w[2:len(w)-1], " ")
		name := w[len(w)-1]
		switch kind {
		case "access-list", "group-policy", "tunnel-group", "username",
			"crypto ca certificate map", "crypto map", "crypto dynamic-map",
			"object-group":
			return d.removeObject(kind, name)
		}
		return fmt.Errorf("unsupported %q", full)
	case "sysopt":
		// "sysopt connection permit-vpn" removes the stored negative form.
		if i := d.find("no " + text); !neg && i >= 0 {
			d.removeAt(i)
			return nil
		}
		if neg {
			if d.find("no "+text) < 0 {
				d.Entries = append(d.Entries, &Entry{Line: "no " + text})
			}
			return nil
		}
		return nil
	case "access-list":
		if !d.IOS {
			return d.execASAACL(neg, w)
		}
	case "access-group":
		if !d.IOS {
			key := strings.Join(w[2:], " ")
			if neg {
				if i := d.find(text); i >= 0 {
					d.removeAt(i)
					return nil
				}
				return fmt.Errorf("%q is not configured", text)
			}
			if err := d.checkRefs(nil, w); err != nil {
				return err
			}
			for _, e := range d.Entries {
				ew := fields(e.Line)
				if ew[0] == "access-group" && strings.Join(ew[2:], " ") == key {
					e.Line = text
					return nil
				}
			}
			d.Entries = append(d.Entries, &Entry{Line: text})
			return nil
		}
	case "route", "ipv6":
		if !d.IOS && (at(0) == "route" || at(1) == "route") {
			return d.execASARoute(neg, w)
		}
		if d.IOS && at(1) == "route" {
			return d.execIOSRoute(neg, w)
		}
	case "ip":
		if d.IOS && at(1) == "route" {
			return d.execIOSRoute(neg, w)
		}
		if d.IOS && at(1) == "access-list" && at(2) == "resequence" {
			return d.execResequence(w)
		}
		if d.IOS && at(1) == "access-list" && at(2) == "extended" {
			name := at(3)
			idx := d.entriesOf("ip access-list extended", name)
			if neg {
				return d.removeObject("ip access-list extended", name)
			}
			if len(idx) == 0 {
				e := &Entry{Line: text}
				d.Entries = append(d.Entries, e)
				d.cur = e
			} else {
				d.cur = d.Entries[idx[0]]
			}
			return nil
		}
	case "object-group":
		if !d.IOS {
			name := at(2)
			idx := d.entriesOf("object-group", name)
			if neg {
				if len(idx) == 0 || d.Entries[idx[0]].Line != text {
					return fmt.Errorf("%q does not exist", text)
				}
				return d.removeObject("object-group", name)
			}
			if len(idx) > 0 {
				if d.Entries[idx[0]].Line != text {
					return fmt.Errorf("object-group %q exists with other type", name)
				}
				d.cur = d.Entries[idx[0]]
				return nil
			}
			e := &Entry{Line: text}
			d.Entries = append(d.Entries, e)
			d.cur = e
			return nil
		}
	case "crypto":
		if (at(1) == "map" || at(1) == "dynamic-map") && !d.IOS {
			return d.execASACrypto(neg, w)
		}
	case "tunnel-group-map":
		key := strings.Join(w[:min(3, len(w))], " ")
		if at(1) == "default-group" {
			key = "tunnel-group-map default-group"
		}
		if neg {
			for i, e := range d.Entries {
				if e.Line == text || (strings.HasPrefix(e.Line, key+" ") && text == key) {
					d.removeAt(i)
					return nil
				}
			}
			return fmt.Errorf("%q is not configured", text)
		}
		if err := d.checkRefs(nil, w); err != nil {
			return err
		}
		for _, e := range d.Entries {
			if strings.HasPrefix(e.Line+" ", key+" ") {
				e.Line = text
				return nil
			}
		}
		d.Entries = append(d.Entries, &Entry{Line: text})
		return nil
	}
	// Generic handling: mode-opening lines and plain lines.
	return d.execGeneric(neg, w)
}

func (d *Dev) execGeneric(neg bool, w []string) error {
	text := strings.Join(w, " ")
	kind, name := defOf(w)
	if neg {
		i := d.find(text)
		if i < 0 {
			return fmt.Errorf("%q is not configured", text)
		}
		if kind != "" {
			// Removing the last entry of a named object removes the object.
			idx := d.entriesOf(kind, name)
			if len(idx) == 1 {
				return d.removeObject(kind, name)
			}
			// tunnel-group type / group-policy internal are the object itself.
			if (kind == "tunnel-group" && len(w) > 2 && w[2] == "type") ||
				(kind == "group-policy" && len(w) > 2 && w[2] == "internal") {
				return d.removeObject(kind, name)
			}
		}
		d.removeAt(i)
		return nil
	}
	if err := d.checkRefs(nil, w); err != nil {
		return err
	}
	// Attribute blocks need their object.
	if (kind == "group-policy" || kind == "username") && len(w) > 2 && w[2] == "attributes" ||
		kind == "tunnel-group" && len(w) > 2 && strings.HasSuffix(w[2], "-attributes") {
		if !d.exists(Ref{kind, name}) {
			return fmt.Errorf("%s %q does not exist", kind, name)
		}
	}
	e := &Entry{Line: text}
	if i := d.find(text); i >= 0 {
		e = d.Entries[i]
	} else {
		// single line objects: replace a line with the same definition key
		replaced := false
		if kind == "ip local pool" || kind == "crypto ipsec ikev1 transform-set" {
			for _, i := range d.entriesOf(kind, name) {
				d.Entries[i].Line = text
				e = d.Entries[i]
				replaced = true
			}
		}
		if kind == "tunnel-group" && len(w) > 2 && w[2] == "type" {
			for _, i := range d.entriesOf(kind, name) {
				if strings.HasPrefix(d.Entries[i].Line, "tunnel-group "+name+" type ") {
					return fmt.Errorf("tunnel-group %q exists with other type", name)
				}
			}
		}
		if !replaced {
			d.Entries = append(d.Entries, e)
		}
	}
	if d.modeOf(e) != nil {
		d.cur = e
	}
	return nil
}

func (d *Dev) execASAACL(neg bool, w []string) error {
	// access-list NAME [line K] REST
	if len(w) < 3 {
		return fmt.Errorf("incomplete access-list command")
	}
	name := w[1]
	rest := w[2:]
	lineNo := 0
	if rest[0] == "line" && len(rest) > 2 {
		n, err := strconv.Atoi(rest[1])
		if err != nil || n < 1 {
			return fmt.Errorf("bad line number %q", rest[1])
		}
		lineNo = n
		rest = rest[2:]
	}
	body := strings.Join(rest, " ")
	idx := d.entriesOf("access-list", name)
	textOf := func(i int) string {
		return strings.Join(fields(d.Entries[i].Line)[2:], " ")
	}
	if neg {
		if lineNo > 0 {
			if lineNo > len(idx) {
				return fmt.Errorf("access-list %s has no line %d", name, lineNo)
			}
			if textOf(idx[lineNo-1]) != body {
				return fmt.Errorf("access-list %s line %d is %q, not %q",
					name, lineNo, textOf(idx[lineNo-1]), body)
			}
			if len(idx) == 1 {
				return d.removeObject("access-list", name)
			}
			d.removeAt(idx[lineNo-1])
			return nil
		}
		for _, i := range idx {
			if textOf(i) == body {
				if len(idx) == 1 {
					return d.removeObject("access-list", name)
				}
				d.removeAt(i)
				return nil
			}
		}
		return fmt.Errorf("access-list %s has no entry %q", name, body)
	}
	full := append([]string{"access-list", name}, rest...)
	if err := d.checkRefs(nil, full); err != nil {
		return err
	}
	if rest[0] != "remark" {
		for _, i := range idx {
			if stripASALog(textOf(i)) == stripASALog(body) {
				return fmt.Errorf("access-list %s already contains %q", name, body)
			}
		}
	}
	e := &Entry{Line: strings.Join(full, " ")}
	if lineNo == 0 || len(idx) == 0 {
		if lineNo > 1 {
			return fmt.Errorf("access-list %s line %d out of range (ACL is empty)", name, lineNo)
		}
		if len(idx) == 0 {
			d.Entries = append(d.Entries, e)
		} else {
			d.insertAt(idx[len(idx)-1]+1, e)
		}
		return nil
	}
	if lineNo > len(idx)+1 {
		return fmt.Errorf("access-list %s line %d out of range (ACL has %d lines)",
			name, lineNo, len(idx))
	}
	if lineNo == len(idx)+1 {
		d.insertAt(idx[len(idx)-1]+1, e)
	} else {
		d.insertAt(idx[lineNo-1], e)
	}
	return nil
}

// stripASALog removes the log options of an ASA ACL entry:
// log [[level] [interval secs] | disable | default], time-range, inactive
func stripASALog(s string) string {
	w := fields(s)
	for i, t := range w {
		if t == "log" {
			return strings.Join(w[:i], " ")
		}
	}
	return s
}

func routeDst(w []string) string {
	// route IF DEST MASK GW [metric] ; ipv6 route IF PREFIX GW [metric]
	if w[0] == "route" && len(w) >= 4 {
		return w[2] + " " + w[3]
	}
	if w[0] == "ipv6" && len(w) >= 4 {
		return "6 " + w[3]
	}
	return strings.Join(w, " ")
}

func (d *Dev) execASARoute(neg bool, w []string) error {
	text := strings.Join(w, " ")
	if neg {
		if i := d.find(text); i >= 0 {
			d.removeAt(i)
			return nil
		}
		return fmt.Errorf("route %q does not exist", text)
	}
	for _, e := range d.Entries {
		ew := fields(e.Line)
		if (ew[0] == "route" || (ew[0] == "ipv6" && len(ew) > 1 && ew[1] == "route")) &&
			ew[0] == w[0] && routeDst(ew) == routeDst(w) {
			// Equal-cost routes through one interface are accepted (the
			// repository's test "Different next hop" relies on it); an
			// exact duplicate or a second route through another
			// interface is an error.
			if routeIntf(ew) == routeIntf(w) && strings.Join(stripMetricW(ew), " ") != strings.Join(stripMetricW(w), " ") {
				continue
			}
			return fmt.Errorf("route to %s already exists (%q)", routeDst(w), e.Line)
		}
	}
	d.Entries = append(d.Entries, &Entry{Line: text})
	return nil
}

func (d *Dev) execIOSRoute(neg bool, w []string) error {
	text := strings.Join(w, " ")
	if neg {
		if i := d.find(text); i >= 0 {
			d.removeAt(i)
			return nil
		}
		return fmt.Errorf("route %q does not exist", text)
	}
	if d.find(text) >= 0 {
		return nil
	}
	d.Entries = append(d.Entries, &Entry{Line: text})
	return nil
}

func (d *Dev) execResequence(w []string) error {
	// ip access-list resequence NAME START INCR
	if len(w) != 6 {
		return fmt.Errorf("invalid resequence command")
	}
	idx := d.entriesOf("ip access-list extended", w[3])
	if len(idx) == 0 {
		return fmt.Errorf("ip access-list extended %q does not exist", w[3])
	}
	start, err1 := strconv.Atoi(w[4])
	incr, err2 := strconv.Atoi(w[5])
	if err1 != nil || err2 != nil || start < 1 || incr < 1 {
		return fmt.Errorf("invalid resequence numbers")
	}
	e := d.Entries[idx[0]]
	e.Seq = make([]int, len(e.Subs))
	for i := range e.Subs {
		e.Seq[i] = start + i*incr
		if e.Seq[i] > 2147483647 {
			return fmt.Errorf("sequence number overflow")
		}
	}
	d.cur = nil
	return nil
}

func cryptoKey(w []string) string {
	// crypto map N S <k1> <k2> ...
	if len(w) >= 6 {
		if w[4] == "set" && len(w) >= 8 && w[5] == "security-association" {
			return strings.Join(w[:8], " ")
		}
		if w[4] == "set" && len(w) >= 7 && (w[5] == "ikev1" || w[5] == "ikev2") {
			return strings.Join(w[:7], " ")
		}
		return strings.Join(w[:6], " ")
	}
	return strings.Join(w, " ")
}

func (d *Dev) execASACrypto(neg bool, w []string) error {
	text := strings.Join(w, " ")
	if len(w) >= 5 && w[1] == "map" && w[3] == "interface" {
		if neg {
			if i := d.find(text); i >= 0 {
				d.removeAt(i)
				return nil
			}
			return fmt.Errorf("%q is not configured", text)
		}
		if err := d.checkRefs(nil, w); err != nil {
			return err
		}
		for _, e := range d.Entries {
			ew := fields(e.Line)
			if len(ew) >= 5 && ew[0] == "crypto" && ew[1] == "map" && ew[3] == "interface" && ew[4] == w[4] {
				e.Line = text
				return nil
			}
		}
		d.Entries = append(d.Entries, &Entry{Line: text})
		return nil
	}
	if len(w) < 5 {
		return fmt.Errorf("incomplete crypto command %q", text)
	}
	if _, err := strconv.Atoi(w[3]); err != nil {
		return fmt.Errorf("bad sequence number in %q", text)
	}
	kind, name := defOf(w)
	if neg {
		i := d.find(text)
		if i < 0 {
			// "no crypto map N S set pfs" removes whatever pfs value is set.
			key := cryptoKey(w)
			for j, e := range d.Entries {
				if cryptoKey(fields(e.Line)) == key && len(w) <= 6 {
					i = j
				}
			}
			if i < 0 {
				return fmt.Errorf("%q is not configured", text)
			}
		}
		if len(d.entriesOf(kind, name)) == 1 {
			return d.removeObject(kind, name)
		}
		d.removeAt(i)
		return nil
	}
	if err := d.checkRefs(nil, w); err != nil {
		return err
	}
	key := cryptoKey(w)
	for _, e := range d.Entries {
		if cryptoKey(fields(e.Line)) == key {
			e.Line = text
			return nil
		}
	}
	// keep entries of one map together
	idx := d.entriesOf(kind, name)
	e := &Entry{Line: text}
	if len(idx) > 0 {
		d.insertAt(idx[len(idx)-1]+1, e)
	} else {
		d.Entries = append(d.Entries, e)
	}
	return nil
}

// ---------------------------------------------------------------------
// Views used by the oracles.

// ACL returns the entries of an ASA ACL (text after the name) in order.
func (d *Dev) ACL(name string) []string {
	var l []string
	for _, i := range d.entriesOf("access-list", name) {
		l = append(l, strings.Join(fields(d.Entries[i].Line)[2:], " "))
	}
	return l
}

// IOSACL returns the lines of an IOS ACL in order.
func (d *Dev) IOSACL(name string) []string {
	idx := d.entriesOf("ip access-list extended", name)
	if len(idx) == 0 {
		return nil
	}
	return append([]string(nil), d.Entries[idx[0]].Subs...)
}

// Lines with a given first word(s).
func (d *Dev) LinesWithPrefix(p string) []string {
	var l []string
	for _, e := range d.Entries {
		if strings.HasPrefix(e.Line+" ", p+" ") {
			l = append(l, e.Line)
		}
	}
	sort.Strings(l)
	return l
}

// SubsOf returns the sub-commands of the first entry with that line.
func (d *Dev) SubsOf(line string) []string {
	if i := d.find(line); i >= 0 {
		return d.Entries[i].Subs
	}
	return nil
}

func routeIntf(w []string) string {
	if w[0] == "route" && len(w) > 1 {
		return w[1]
	}
	if len(w) > 2 {
		return w[2]
	}
	return ""
}

func stripMetricW(w []string) []string { return stripMetric(w) }
