package engines

import (
	"encoding/json"
	"fmt"
	"sort"
	"strings"
	"time"

	"verif/harness/internal/core"
	"verif/harness/internal/corpus"
	"verif/harness/internal/nsxmodel"
)

type nsxCmd struct{ method, url, body string }

func parseNSXScript(stdout string) []nsxCmd {
	var l []nsxCmd
	lines := strings.Split(stdout, "\n")
	isCmd := func(s string) bool {
		for _, m := range []string{"PUT ", "PATCH ", "POST ", "DELETE "} {
			if strings.HasPrefix(s, m) {
				return true
			}
		}
		return false
	}
	for i := 0; i < len(lines); i++ {
		if !isCmd(lines[i]) {
			continue
		}
		m, u, _ := strings.Cut(lines[i], " ")
		c := nsxCmd{method: m, url: u}
		if i+1 < len(lines) && !isCmd(lines[i+1]) {
			c.body = lines[i+1]
			i++
		}
		l = append(l, c)
	}
	return l
}

// ---------------------------------------------------------------------
// generator

type nsxRuleT struct {
	id, action, dir string
	seq             int
	src, dst, srv   string // "ANY", ip, "g:<name>"; srv "ANY" or service id suffix
	logged          bool
	tag             string
}

var nsxRules = []nsxRuleT{
	{"r1", "ALLOW", "OUT", 20, "g:gA", "10.1.2.30", "tcp_80", false, ""},
	{"r2", "ALLOW", "OUT", 20, "10.1.1.10", "g:gB", "udp_123", false, ""},
	{"r3", "DROP", "OUT", 30, "ANY", "ANY", "ANY", false, ""},
	{"r4", "DROP", "IN", 30, "ANY", "ANY", "ANY", false, ""},
	{"r5", "ALLOW", "OUT", 20, "g:gA", "10.1.2.30", "tcp_80", true, "t1"},
	{"r6", "ALLOW", "IN", 25, "g:gB", "g:gA", "tcp_80", false, ""},
	// the same as r3 / r6 for the other address family
	{"r7", "DROP", "OUT", 30, "ANY", "ANY", "ANY", false, "v6:"},
	{"r8", "ALLOW", "IN", 25, "g:gB", "g:gA", "tcp_80", false, "v6:"},
}

type nsxCfgT struct {
	policies map[string][]nsxRuleT
	groups   map[string][]string // name (without prefix) -> addresses
	services map[string]string   // id suffix -> port ("" = default from name)
	extraSvc []string
	names    map[string]string // rename of group references g:X -> name
	exprId   string            // id of the address expression of every group ("" = "id", what Netspoc writes)
}

var nsxAddrs = []string{"10.1.1.10", "10.1.1.20", "10.1.1.30", "10.1.1.40", "10.1.1.50"}

func nsxJSON(c nsxCfgT) string {
	exprID := "id"
	if c.exprId != "" {
		exprID = c.exprId
	}
	usedG := map[string]bool{}
	usedS := map[string]bool{}
	ref := func(s string) string {
		if g, ok := strings.CutPrefix(s, "g:"); ok {
			if n, ok := c.names[g]; ok {
				g = n
			}
			usedG[g] = true
			return "/infra/domains/default/groups/Netspoc-" + g
		}
		return s
	}
	var pols []any
	var pids []string
	for p := range c.policies {
		pids = append(pids, p)
	}
	sort.Strings(pids)
	for _, pid := range pids {
		var rules []any
		for _, r := range c.policies[pid] {
			srv := "ANY"
			if r.srv != "ANY" {
				srv = "/infra/services/Netspoc-" + r.srv
				usedS[r.srv] = true
			}
			o := map[string]any{"resource_type": "Rule", "id": r.id, "action": r.action, "direction": r.dir,
				"sequence_number": r.seq, "source_groups": []string{ref(r.src)}, "destination_groups": []string{ref(r.dst)},
				"services": []string{srv}, "scope": []string{"/infra/tier-0s/v1"}, "ip_protocol": "IPV4"}
			if r.logged {
				o["logged"] = true
			}
			// tag prefix "v6:" = the rule is an IPv6 rule
			tag := r.tag
			if t, ok := strings.CutPrefix(tag, "v6:"); ok {
				tag = t
				o["ip_protocol"] = "IPV6"
			}
			if tag != "" {
				o["tag"] = tag
			}
			rules = append(rules, o)
		}
		pols = append(pols, map[string]any{"id": "Netspoc-" + pid, "resource_type": "GatewayPolicy", "rules": rules})
	}
	var groups []any
	var gnames []string
	for g := range c.groups {
		gnames = append(gnames, g)
	}
	for g := range usedG {
		if _, ok := c.groups[g]; !ok {
			gnames = append(gnames, g)
		}
	}
	sort.Strings(gnames)
	for _, g := range gnames {
		addrs := c.groups[g]
		if addrs == nil {
			addrs = []string{"10.1.1.10", "10.1.1.20"}
		}
		groups = append(groups, map[string]any{"id": "Netspoc-" + g, "expression": []any{
			map[string]any{"id": exprID, "resource_type": "IPAddressExpression", "ip_addresses": addrs}}})
	}
	var svcs []any
	var snames []string
	for s := range usedS {
		snames = append(snames, s)
	}
	snames = append(snames, c.extraSvc...)
	sort.Strings(snames)
	for _, s := range snames {
		proto, port, _ := strings.Cut(s, "_")
		if p, ok := c.services[s]; ok {
			port = p
		}
		svcs = append(svcs, map[string]any{"id": "Netspoc-" + s, "service_entries": []any{
			map[string]any{"id": "id", "resource_type": "L4PortSetServiceEntry", "l4_protocol": strings.ToUpper(proto),
				"destination_ports": []string{port}, "source_ports": []string{}}}})
	}
	if pols == nil {
		pols = []any{}
	}
	if groups == nil {
		groups = []any{}
	}
	if svcs == nil {
		svcs = []any{}
	}
	b, _ := json.MarshalIndent(map[string]any{"policies": pols, "groups": groups, "services": svcs}, "", " ")
	return string(b) + "\n"
}

type nsxSpace struct {
	name string
	n    int64
	gen  func(i int64) (a string, b core.Files)
}

func nsxRuleSpace(name string, nRules int) *nsxSpace {
	ss := subsets(nRules)
	nb := int64(len(ss))
	mk := func(s []int) []nsxRuleT {
		var l []nsxRuleT
		for _, i := range s {
			l = append(l, nsxRules[i])
		}
		return l
	}
	grp := map[string][]string{"gA": {"10.1.1.10", "10.1.1.20"}, "gB": {"10.1.2.30", "10.1.2.40"}}
	return &nsxSpace{name: name, n: nb * nb, gen: func(i int64) (string, core.Files) {
		da, tb := mk(ss[i/nb]), mk(ss[i%nb])
		dev := nsxCfgT{policies: map[string][]nsxRuleT{}, groups: map[string][]string{}}
		if len(da) > 0 {
			dev.policies["v1"] = da
		}
		tgt := nsxCfgT{policies: map[string][]nsxRuleT{}, groups: map[string][]string{}}
		if len(tb) > 0 {
			tgt.policies["v1"] = tb
		}
		return nsxJSON(withGroups(dev, grp)), core.Files{Main: nsxJSON(withGroups(tgt, grp))}
	}}
}

// withGroups defines only those groups of grp that the rules use.
func withGroups(c nsxCfgT, grp map[string][]string) nsxCfgT {
	c.groups = map[string][]string{}
	for _, rules := range c.policies {
		for _, r := range rules {
			for _, s := range []string{r.src, r.dst} {
				if g, ok := strings.CutPrefix(s, "g:"); ok {
					n := g
					if m, ok := c.names[g]; ok {
						n = m
					}
					if a, ok := grp[g]; ok {
						c.groups[n] = a
					}
				}
			}
		}
	}
	return c
}

func nsxGroupSpace(name string, universe int) *nsxSpace {
	nsub := int64(1<<uint(universe)) - 1
	const variants = 7
	set := func(mask int) []string {
		var l []string
		for i := 0; i < universe; i++ {
			if mask&(1<<uint(i)) != 0 {
				l = append(l, nsxAddrs[i])
			}
		}
		return l
	}
	r1 := nsxRuleT{"r1", "ALLOW", "OUT", 20, "g:gA", "10.1.2.30", "tcp_80", false, ""}
	r2 := nsxRuleT{"r2", "ALLOW", "OUT", 21, "10.9.9.9", "g:gB", "tcp_80", false, ""}
	return &nsxSpace{name: name, n: nsub * nsub * variants, gen: func(i int64) (string, core.Files) {
		dm := int(i%nsub) + 1
		i /= nsub
		tm := int(i%nsub) + 1
		i /= nsub
		variant := int(i)
		dev := nsxCfgT{policies: map[string][]nsxRuleT{"v1": {r1}}, groups: map[string][]string{"gA": set(dm)}}
		tgt := nsxCfgT{policies: map[string][]nsxRuleT{"v1": {r1}}, groups: map[string][]string{"gA": set(tm)}}
		switch variant {
		case 1: // renamed on device
			dev.names = map[string]string{"gA": "g7"}
			dev.groups = map[string][]string{"g7": set(dm)}
		case 2: // device group shared by two rules, target has two groups
			r2d := r2
			r2d.dst = "g:gA"
			dev.policies["v1"] = []nsxRuleT{r1, r2d}
			tgt.policies["v1"] = []nsxRuleT{r1, r2}
			tgt.groups = map[string][]string{"gA": set(tm), "gB": set(dm)}
		case 3: // duplicate identical left-over groups on the device
			dev.groups = map[string][]string{"gA": set(dm), "g8": set(tm), "g9": set(tm)}
		case 4: // id clash: device has the target's id with other content, used elsewhere
			dev.names = map[string]string{"gA": "g7"}
			r2d := r2
			r2d.dst = "g:gA"
			dev.policies["v1"] = []nsxRuleT{r1, r2d}
			dev.groups = map[string][]string{"g7": set(dm), "gA": {"10.7.7.7"}}
			tgt.policies["v1"] = []nsxRuleT{r1, r2}
			tgt.groups = map[string][]string{"gA": set(tm), "gB": {"10.7.7.7"}}
		case 6: // the device group was made by hand or in the UI: its expression has another id
			dev.exprId = "c0ffee00-4a2b-4c1d-9e8f-001122334455"
		case 5: // two target rules share one group, device has two groups
			r2t := r2
			r2t.dst = "g:gA"
			dev.policies["v1"] = []nsxRuleT{r1, r2}
			dev.groups = map[string][]string{"gA": set(dm), "gB": set(tm)}
			tgt.policies["v1"] = []nsxRuleT{r1, r2t}
		}
		return nsxJSON(dev), core.Files{Main: nsxJSON(tgt)}
	}}
}

// clash: the device rule's group gA (members dm) is replaced in the target
// rule by gB (members t1) while an inserted target rule (before or after)
// uses a group with the id gA again (members t2; equal to dm or not).
func nsxClashSpace() *nsxSpace {
	const universe = 3
	nsub := int64(1<<uint(universe)) - 1
	set := func(mask int) []string {
		var l []string
		for i := 0; i < universe; i++ {
			if mask&(1<<uint(i)) != 0 {
				l = append(l, nsxAddrs[i])
			}
		}
		return l
	}
	return &nsxSpace{name: "clash", n: nsub * nsub * nsub * 4, gen: func(i int64) (string, core.Files) {
		variant := int(i % 4)
		i /= 4
		dm := int(i%nsub) + 1
		i /= nsub
		t1 := int(i%nsub) + 1
		i /= nsub
		t2 := int(i) + 1
		r1 := nsxRuleT{"r1", "ALLOW", "OUT", 20, "g:gA", "10.2.1.10", "tcp_80", false, ""}
		r1t := r1
		r1t.src = "g:gB"
		seq := 21
		if variant&1 == 1 {
			seq = 19
		}
		r2 := nsxRuleT{"r2", "ALLOW", "OUT", seq, "g:gA", "10.2.1.20", "tcp_80", false, ""}
		dev := nsxCfgT{policies: map[string][]nsxRuleT{"v1": {r1}}, groups: map[string][]string{"gA": set(dm)}}
		if variant&2 == 2 { // gB exists on the device already (unused)
			dev.groups["gB"] = set(t2)
		}
		rules := []nsxRuleT{r1t, r2}
		if seq < 20 {
			rules = []nsxRuleT{r2, r1t}
		}
		tgt := nsxCfgT{policies: map[string][]nsxRuleT{"v1": rules}, groups: map[string][]string{"gB": set(t1), "gA": set(t2)}}
		return nsxJSON(dev), core.Files{Main: nsxJSON(tgt)}
	}}
}

// ids: the device holds rules under the ids r1, r1-1, r1-2, r2 (ids with
// a numeric suffix are what earlier runs leave behind when the id of a
// new rule was taken), each absent or with one of three contents; the
// target has r1, r2, each absent or with one of three contents.  A rule
// that is written under a fresh id must not replace another device rule.
func nsxIdSpace() *nsxSpace {
	ids := []string{"r1", "r1-1", "r1-2", "r2"}
	mk := func(ids []string, code int64) nsxCfgT {
		var l []nsxRuleT
		for _, id := range ids {
			c := code % 4
			code /= 4
			if c == 0 {
				continue
			}
			r := nsxRules[c-1]
			r.id = id
			l = append(l, r)
		}
		sort.SliceStable(l, func(i, j int) bool { return l[i].seq < l[j].seq })
		c := nsxCfgT{policies: map[string][]nsxRuleT{}}
		if len(l) > 0 {
			c.policies["v1"] = l
		}
		return c
	}
	grp := map[string][]string{"gA": {"10.1.1.10", "10.1.1.20"}, "gB": {"10.1.2.30", "10.1.2.40"}}
	return &nsxSpace{name: "ids", n: 256 * 16, gen: func(i int64) (string, core.Files) {
		return nsxJSON(withGroups(mk(ids, i/16), grp)), core.Files{Main: nsxJSON(withGroups(mk([]string{"r1", "r2"}, i%16), grp))}
	}}
}

// two-groups: two rules that each use a group as source and as
// destination; device references over {gA,gB}, target references over
// {gA,gB,gC} with changed or unchanged contents.  Groups get shared,
// switched, edited in place and deleted within one run.
func nsxTwoGroupSpace(name string, contents []int) *nsxSpace {
	names := []string{"gA", "gB", "gC"}
	contA := [][]string{{"10.1.1.10", "10.1.1.20"}, {"10.1.1.10", "10.1.1.20", "10.1.1.30"}, {"10.1.1.50", "10.1.1.60"}}
	contB := [][]string{{"10.1.1.30", "10.1.1.40"}, {"10.1.1.30"}}
	contC := [][]string{{"10.1.1.10", "10.1.1.20"}, {"10.1.1.50"}}
	const nd, nt = 16, 81
	if contents == nil {
		for i := 0; i < 12; i++ {
			contents = append(contents, i)
		}
	}
	nc := int64(len(contents))
	return &nsxSpace{name: name, n: nd * nt * nc, gen: func(i int64) (string, core.Files) {
		cv := contents[i%nc]
		i /= nc
		t := int(i % nt)
		d := int(i / nt)
		// both rules tie on every sort key in front of the groups
		mk := func(x1, y1, x2, y2 string) []nsxRuleT {
			return []nsxRuleT{{"r1", "ALLOW", "OUT", 20, "g:" + x1, "g:" + y1, "tcp_80", false, ""},
				{"r2", "ALLOW", "OUT", 20, "g:" + x2, "g:" + y2, "tcp_80", false, ""}}
		}
		dr := mk(names[d%2], names[d/2%2], names[d/4%2], names[d/8%2])
		tr := mk(names[t%3], names[t/3%3], names[t/9%3], names[t/27%3])
		dev := withGroups(nsxCfgT{policies: map[string][]nsxRuleT{"v1": dr}},
			map[string][]string{"gA": contA[0], "gB": contB[0]})
		tgt := withGroups(nsxCfgT{policies: map[string][]nsxRuleT{"v1": tr}},
			map[string][]string{"gA": contA[cv%3], "gB": contB[cv/3%2], "gC": contC[cv/6%2]})
		return nsxJSON(dev), core.Files{Main: nsxJSON(tgt)}
	}}
}

func nsxServiceSpace() *nsxSpace {
	type sv struct {
		srv      string
		port     string
		extraSvc []string
	}
	vars := []sv{{"tcp_80", "", nil}, {"tcp_80", "81", nil}, {"tcp_81", "", nil}, {"ANY", "", nil},
		{"tcp_80", "", []string{"udp_53"}}, {"ANY", "", []string{"tcp_80"}}}
	n := int64(len(vars))
	return &nsxSpace{name: "svc", n: n * n, gen: func(i int64) (string, core.Files) {
		mk := func(v sv) string {
			r := nsxRuleT{"r1", "ALLOW", "OUT", 20, "10.1.1.10", "10.1.2.30", v.srv, false, ""}
			c := nsxCfgT{policies: map[string][]nsxRuleT{"v1": {r}}, extraSvc: v.extraSvc, services: map[string]string{}}
			if v.port != "" {
				c.services[v.srv] = v.port
			}
			return nsxJSON(c)
		}
		return mk(vars[i/n]), core.Files{Main: mk(vars[i%n])}
	}}
}

func nsxPolicySpace() *nsxSpace {
	sets := [][]nsxRuleT{nil, {nsxRules[2]}, {nsxRules[0], nsxRules[2]}}
	grp := map[string][]string{"gA": {"10.1.1.10", "10.1.1.20"}}
	mk := func(code int) string {
		c := nsxCfgT{policies: map[string][]nsxRuleT{}}
		if s := sets[code%3]; s != nil {
			c.policies["v1"] = s
		}
		if s := sets[code/3]; s != nil {
			c.policies["v2"] = s
		}
		return nsxJSON(withGroups(c, grp))
	}
	return &nsxSpace{name: "policies", n: 81, gen: func(i int64) (string, core.Files) {
		return mk(int(i / 9)), core.Files{Main: mk(int(i % 9))}
	}}
}

func nsxCorpusSpace() *nsxSpace {
	sp := corpusSpace("NSX")
	return &nsxSpace{name: "corpus", n: sp.n, gen: func(i int64) (string, core.Files) {
		a, b := sp.gen(i)
		return a.Main, b
	}}
}

// ---------------------------------------------------------------------

type nsxx struct {
	ctx  *core.Ctx
	res  *core.Result
	sc   *core.Scratch
	prop string
	conv bool
	exec bool
	cuts bool
	seen map[string]struct{}
}

func (x *nsxx) visit(m *nsxmodel.Dev) {
	k := m.Print()
	if _, ok := x.seen[k]; !ok {
		x.seen[k] = struct{}{}
		x.res.States++
	}
}

func (x *nsxx) violation(sp *nsxSpace, idx int64, a string, b core.Files, script []string, step int, oracle, sig, msg string) {
	x.res.AddViolation(core.Violation{Property: x.prop, Engine: "approvex/nsx", Space: sp.name,
		Index: idx, Inputs: inputsOf(core.Files{Main: a}, b), Script: script, Step: step,
		Oracle: oracle, Signature: sig, Message: msg})
}

func nsxSemDiff(m, tb *nsxmodel.Dev) string {
	pa, pb := m.PolicyIDs(), tb.PolicyIDs()
	if strings.Join(pa, ",") != strings.Join(pb, ",") {
		return fmt.Sprintf("policies %v, target %v", pa, pb)
	}
	for _, p := range pb {
		ga, gb := m.SemPolicy(p), tb.SemPolicy(p)
		if strings.Join(ga, "\n") != strings.Join(gb, "\n") {
			return fmt.Sprintf("rules of %s:\n%s\ntarget:\n%s", p, strings.Join(ga, "\n"), strings.Join(gb, "\n"))
		}
	}
	return ""
}

// left-overs: services not defined by the target, groups no rule uses
func nsxLeftOvers(m, tb *nsxmodel.Dev) string {
	tsv := map[string]bool{}
	for _, s := range tb.ServiceIDs() {
		tsv[s] = true
	}
	for _, s := range m.ServiceIDs() {
		if strings.HasPrefix(s, "Netspoc") && !tsv[s] {
			return "left-over service " + s
		}
	}
	for _, s := range tb.ServiceIDs() {
		if m.ServiceDef(s) != tb.ServiceDef(s) {
			return "service " + s + " differs from target definition"
		}
	}
	used := m.UsedGroups()
	for _, g := range m.GroupIDs() {
		if strings.HasPrefix(g, "Netspoc") && !used[g] {
			return "left-over group " + g
		}
	}
	return ""
}

func (x *nsxx) runCase(sp *nsxSpace, idx int64, a string, b core.Files, tag string) *nsxmodel.Dev {
	res := x.res
	res.Evaluations++
	out := x.sc.Compare("NSX", core.Files{Main: a}, b)
	switch out.Status {
	case 1:
		res.Count("rejected_by_tool", 1)
		res.Outcome("rejected:" + short(firstLine(out.Stderr), 50))
		if tag != "" {
			x.violation(sp, idx, a, b, nil, 0, "resume-accepted", tag+"rejected", out.Stderr)
		}
		return nil
	case 2:
		res.Count("tool_panic", 1)
		res.Outcome("panic:" + out.Site)
		// the inputs of these spaces are well-formed: the tool cannot bring
		// the device to the target if it crashes
		if sp.name != "corpus" || tag != "" { // corpus inputs may be malformed on purpose: C20's matter
			x.violation(sp, idx, a, b, nil, 0, "no-panic", tag+"panic:"+out.Site, out.Panic)
		}
		return nil
	}
	res.Transitions++
	cmds := parseNSXScript(out.Stdout)
	var script []string
	for _, c := range cmds {
		script = append(script, c.method+" "+c.url+" "+c.body)
	}
	if len(cmds) > 0 {
		res.Nontrivial++
	}
	res.Outcome(fmt.Sprintf("cmds=%d", len(cmds)))
	if len(res.Samples) < 3 && len(cmds) > 2 {
		res.Sample(map[string]any{"space": sp.name, "index": idx, "script": script})
	}
	m, err := nsxmodel.Load(a)
	if err != nil {
		res.Count("device_not_loadable_by_model", 1)
		return nil
	}
	x.visit(m)
	multipart := b.V6 != "" || b.Raw != ""
	tb, err := nsxmodel.Load(b.Main)
	if err != nil {
		res.Count("target_not_loadable_by_model", 1)
		return nil
	}
	// A target that references Netspoc objects it does not define (a
	// shortcut of some repository tests) is not a valid Netspoc output.
	{
		all := &nsxmodel.Dev{}
		for _, part := range []string{b.Main, b.V6, b.Raw} {
			if pt, err := nsxmodel.Load(part); err == nil && part != "" {
				all.Policies = append(all.Policies, pt.Policies...)
				all.Groups = append(all.Groups, pt.Groups...)
				all.Services = append(all.Services, pt.Services...)
			}
		}
		for k := range all.Dangling() {
			if strings.HasPrefix(k, "Netspoc") {
				res.Count("target_with_dangling_refs_skipped", 1)
				return nil
			}
		}
	}
	if x.cuts && tag == "" {
		cm := m.Clone()
		for k := 0; k+1 < len(cmds); k++ {
			if err := cm.Exec(cmds[k].method, cmds[k].url, cmds[k].body); err != nil {
				break
			}
			res.Count("cut_states", 1)
			x.visit(cm)
			x.cuts = false
			x.conv, x.exec = true, true
			x.runCase(sp, idx*1000+int64(k+1), cm.Print(), b, "cut:")
			x.cuts = true
			x.conv, x.exec = false, false
		}
		return nil
	}
	for i, c := range cmds {
		if err := m.Exec(c.method, c.url, c.body); err != nil {
			if x.exec || x.conv {
				x.violation(sp, idx, a, b, script, i, "exec-accept", tag+"exec:"+execSig(err),
					fmt.Sprintf("call %s %s: %v", c.method, c.url, err))
			} else {
				res.Count("skipped_exec_error(see C08)", 1)
			}
			return nil
		}
		res.Count("commands_executed", 1)
		x.visit(m)
	}
	if x.conv {
		if multipart {
			res.Count("sem_skipped_parts", 1)
		} else {
			if d := nsxSemDiff(m, tb); d != "" {
				x.violation(sp, idx, a, b, script, len(script), "sem-equal", tag+"sem-differs", d)
				return nil
			}
			if d := nsxLeftOvers(m, tb); d != "" {
				x.violation(sp, idx, a, b, script, len(script), "no-left-overs", tag+"left-over", d)
				return nil
			}
			if len(cmds) == 0 {
				m0, _ := nsxmodel.Load(a)
				if d := nsxSemDiff(m0, tb); d != "" {
					x.violation(sp, idx, a, b, script, 0, "unchanged-only-if-equal", tag+"unchanged-but-different", d)
					return nil
				}
				if d := nsxLeftOvers(m0, tb); d != "" {
					x.violation(sp, idx, a, b, script, 0, "unchanged-only-if-equal", tag+"unchanged-but-left-over", d)
					return nil
				}
			}
		}
		out2 := x.sc.Compare("NSX", core.Files{Main: m.Print()}, b)
		res.Transitions++
		if out2.Status != 0 || len(parseNSXScript(out2.Stdout)) != 0 {
			x.violation(sp, idx, a, b, script, len(script), "second-compare-silent", tag+"second-compare",
				fmt.Sprintf("second compare not silent (status %d):\n%s%s", out2.Status, short(out2.Stdout, 1500), out2.Stderr))
			return nil
		}
	}
	return m
}

func (x *nsxx) run(spaces []*nsxSpace) {
	var base int64
	for _, sp := range spaces {
		var done int64
		for i := int64(0); i < sp.n; i++ {
			if !x.ctx.Mine(base + i) {
				continue
			}
			if done%128 == 0 && x.ctx.Expired() {
				x.res.Incomplete = append(x.res.Incomplete, fmt.Sprintf("deadline in nsx space %s at %d/%d", sp.name, i, sp.n))
				return
			}
			a, b := sp.gen(i)
			x.runCase(sp, i, a, b, "")
			done++
		}
		x.res.Count("space:nsx-"+sp.name, done)
		base += sp.n
	}
}

func (x *nsxx) runChain() {
	if x.ctx.Shard != 0 {
		return
	}
	depth := 2
	if x.ctx.Thorough() {
		depth = 3
	}
	grp := map[string][]string{"gA": {"10.1.1.10", "10.1.1.20"}, "gB": {"10.1.2.30", "10.1.2.40"}}
	grp2 := map[string][]string{"gA": {"10.1.1.10", "10.1.1.30"}, "gB": {"10.1.1.10", "10.1.1.20"}}
	mk := func(g map[string][]string, s ...int) string {
		var l []nsxRuleT
		for _, i := range s {
			l = append(l, nsxRules[i])
		}
		c := nsxCfgT{policies: map[string][]nsxRuleT{}}
		if len(l) > 0 {
			c.policies["v1"] = l
		}
		return nsxJSON(withGroups(c, g))
	}
	inits := []string{mk(grp), mk(grp, 0, 1, 2), mk(grp2, 5, 2)}
	targets := []string{mk(grp, 0, 2, 3), mk(grp2, 0, 1, 2), mk(grp, 5, 4), mk(grp2, 5, 1, 3), mk(grp, 2)}
	sp := &nsxSpace{name: "chain"}
	seen := map[string]bool{}
	frontier := inits
	for _, s := range inits {
		seen[s] = true
	}
	var serial int64
	for d := 1; d <= depth; d++ {
		var next []string
		for _, st := range frontier {
			for _, t := range targets {
				serial++
				after := x.runCase(sp, serial, st, core.Files{Main: t}, "")
				if after == nil {
					continue
				}
				p := after.Print()
				if !seen[p] {
					seen[p] = true
					next = append(next, p)
				}
			}
		}
		frontier = next
	}
	x.res.Count("chain_states_nsx", int64(len(seen)))
}

func nsxSpaces(ctx *core.Ctx) []*nsxSpace {
	l := []*nsxSpace{nsxRuleSpace("rules", 8), nsxGroupSpace("groups", 4), nsxClashSpace(), nsxTwoGroupSpace("two-groups", nil), nsxServiceSpace(), nsxPolicySpace(), nsxCorpusSpace(), nsxIdSpace()}
	if ctx.Thorough() {
		l = append(l, nsxGroupSpace("groups-x", 5))
	}
	return l
}

func c04Worker(ctx *core.Ctx) *core.Result {
	x := &nsxx{ctx: ctx, res: core.NewResult(), sc: core.NewScratch("C04"), prop: "C04", conv: true, seen: map[string]struct{}{}}
	defer x.sc.Close()
	x.run(nsxSpaces(ctx))
	x.runChain()
	// targets made of IPv4 + IPv6 + raw parts with several policies (shared
	// with C18): the manager must reach the effective, merged target
	(&c18{ctx: ctx, res: x.res, sc: x.sc, prop: "C04"}).runNSXMulti()
	return x.res
}

// SelftestNSX: expected outputs of nsx.t executed on the model.
func SelftestNSX() (ok, unsupported int, bad []string) {
	cases, err := corpus.Load()
	if err != nil {
		return 0, 0, []string{err.Error()}
	}
	for _, c := range cases {
		if c.Model != "NSX" || c.Scenario != "" || c.Error != "" || c.Output == "" {
			continue
		}
		if c.Netspoc.V6 != "" || c.Netspoc.Raw != "" {
			unsupported++
			continue
		}
		id := c.File + "/" + c.Title
		m, err := nsxmodel.Load(c.Device)
		if err != nil {
			unsupported++
			continue
		}
		exp := strings.Join(corpus.ExpectedScript(c.Output), "\n")
		tb, err := nsxmodel.Load(c.Netspoc.Main)
		if err != nil {
			unsupported++
			continue
		}
		m.Assume = tb.Dangling()
		failed := false
		for i, cmd := range parseNSXScript(exp) {
			if err := m.Exec(cmd.method, cmd.url, cmd.body); err != nil {
				bad = append(bad, fmt.Sprintf("%s: model rejects expected call #%d %s %s: %v", id, i, cmd.method, cmd.url, err))
				failed = true
				break
			}
		}
		if failed {
			continue
		}
		if d := nsxSemDiff(m, tb); d != "" {
			bad = append(bad, fmt.Sprintf("%s: not Sem-equal after expected script: %s", id, short(d, 1200)))
			continue
		}
		ok++
	}
	return
}

func init() {
	registerSharded("C04", c04Worker, func(tier string) core.Meta {
		return core.Meta{ID: "C04", Level: "model_checking",
			Rule: "states = distinct manager states of the NSX model; enumerated: all pairs of rule subsets of a 6-rule alphabet (two rules sharing a sequence_number, differing in direction/action/logged/tag), all pairs of group address sets over 4/5 addresses x naming variants (renamed, shared, duplicated left-overs, id clash, two rules sharing a group, address expression with an id other than the one Netspoc writes), space ids (device rules r1, r1-1, r1-2, r2), spaces clash (id of an edited device group re-used by an inserted rule) and two-groups (two tying rules with source and destination groups over device groups gA,gB and target groups gA,gB,gC with changed contents), targets of IPv4+IPv6+raw parts with three policies (merged target, shared with C18), service variants (changed in place, unused, new), policy structures, corpus product of nsx.t, chain of approves; transition = real planner; each REST call is executed on the model; oracle: rule multiset per policy equal with groups as address sets and services by definition, no left-over Netspoc service/unused group, second compare silent, empty script only for an equivalent manager",
			Assumptions: []string{"NSX model: PUT creates (an existing object needs _revision), PATCH merges, DELETE refuses referenced objects, POST ?action=add/remove refuse present/absent addresses",
				"only the documented rule attributes are compared (the tool drops unknown ones when parsing)"},
			Bounds: map[string]any{"quick": "groups over 4 addresses", "thorough": "groups over 5 addresses, chain depth 3"},
		}
	}, 170*time.Second, 30*time.Minute)
	c08Extra = append(c08Extra, func(ctx *core.Ctx, res *core.Result) {
		x := &nsxx{ctx: ctx, res: res, sc: core.NewScratch("C08n"), prop: "C08", exec: true, seen: map[string]struct{}{}}
		defer x.sc.Close()
		x.run(nsxSpaces(ctx))
		x.runChain()
	})
	otherCutRunners = append(otherCutRunners, func(ax *approvex, ctx *core.Ctx) {
		x := &nsxx{ctx: ctx, res: ax.res, sc: ax.sc, prop: "C10", cuts: true, seen: map[string]struct{}{}}
		l := []*nsxSpace{nsxRuleSpace("rules", 5), nsxGroupSpace("groups", 3), nsxServiceSpace(), nsxPolicySpace(),
			nsxTwoGroupSpace("two-groups", []int{2, 5})}
		if ctx.Thorough() {
			l = append(l, nsxRuleSpace("rules-x", 6), nsxGroupSpace("groups-x", 4), nsxCorpusSpace(), nsxClashSpace(), nsxTwoGroupSpace("two-groups-x", nil))
		}
		x.run(l)
	})
}
