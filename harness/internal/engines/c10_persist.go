//go:build verif

package engines

import (
	"fmt"
	"strings"

	"verif/harness/internal/core"
	"verif/harness/internal/panmodel"
	"verif/harness/internal/sim"
)

// C10, the last cut position on PAN-OS: every change command has taken
// effect on the candidate configuration, the run is cut off before (or
// while) the commit.  The firewall still enforces the old running
// configuration.  The resumed approve must bring the device - the
// configuration it runs - to the target; a following compare must be silent.
// (The file-based cut engine sees one configuration per device; candidate
// and running configuration exist only in the HTTPS simulator.)
func c10Persist(ctx *core.Ctx, res *core.Result) {
	if ctx.Shard != 0 {
		return
	}
	scr := core.NewScratch("C10p")
	defer scr.Close()
	defer closeInnerScratches()
	for _, front := range []string{"drc", "do-approve"} {
		for _, how := range []string{sim.DevClose, sim.DevHTTP500, sim.DevStall} {
			sc := baseScenario("PAN-OS", front)
			probe := runDialogue(scr, sc, runOpts{})
			at := 0
			for _, t := range probe.trans {
				if t.Class == sim.ClSave && at == 0 {
					at = t.Point
				}
			}
			if at == 0 || probe.exit != 0 {
				res.Broken = append(res.Broken, "c10 persist: reference approve without commit request")
				continue
			}
			// run 1: cut at the commit request
			r1 := runDialogue(scr, sc, runOpts{dev: map[int]string{at: how}})
			res.Evaluations++
			res.Transitions++
			if r1.panRunAfter != r1.before {
				// the commit went through although its answer was lost: nothing to resume
				res.Outcome("persist: commit took effect")
				continue
			}
			// run 2: same target, device = candidate of run 1, running = old
			sc2 := *sc
			sc2.name += "/resumed-after-cut-at-commit:" + how
			sc2.device = "<config>" + r1.after + "</config>"
			sc2.panRunning = "<config>" + r1.before + "</config>"
			r2 := runDialogue(scr, &sc2, runOpts{})
			res.Evaluations++
			res.Nontrivial++
			res.Transitions++
			res.Count("persist_runs", 1)
			ev := append([]string{"scenario=" + sc2.name, fmt.Sprintf("run 1 cut at point %d (%s), exit=%d", at, how, r1.exit), fmt.Sprintf("run 2 exit=%d commits=%d", r2.exit, r2.commits)}, r2.transcript()...)
			want, err1 := panmodel.Load(sc.target.Main)
			got, err2 := panmodel.Load("<config>" + r2.panRunAfter + "</config>")
			if err1 != nil || err2 != nil {
				res.Broken = append(res.Broken, fmt.Sprintf("c10 persist: %v %v", err1, err2))
				continue
			}
			g, w := strings.Join(got.SemVsys("vsys1"), "\n"), strings.Join(want.SemVsys("vsys1"), "\n")
			if g != w {
				res.AddViolation(core.Violation{Property: "C10", Engine: "cutx/panos-commit", Space: "persist", Events: ev,
					Inputs: map[string]string{"device": sc.device, "code": sc.target.Main},
					Oracle: "resumed-run-reaches-target", Signature: "persist:panos-never-committed",
					Message: fmt.Sprintf("after a run cut off at the commit the resumed approve ends with exit %d and %d commits; the running configuration still is the old one:\n%s\n--- target\n%s", r2.exit, r2.commits, g, w)})
				continue
			}
			res.Outcome("persist ok")
		}
	}
}

func init() {
	otherCutRunners = append(otherCutRunners, func(x *approvex, ctx *core.Ctx) { c10Persist(ctx, x.res) })
}
