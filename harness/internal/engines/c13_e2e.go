//go:build verif

package engines

import (
	"fmt"
	"path/filepath"
	"strings"

	"verif/harness/internal/core"
	"verif/harness/internal/sim"
)

// C13 end to end: the status file is written by the real do-approve (with
// and without --brief) after a real session with the simulated device; then
// the real missing-approve binary decides.  This binds the event
// "compare" / "approve ok" / "approve failed" of the history search to what
// do-approve actually records for every device type and both output modes.
func c13EndToEnd(ctx *core.Ctx, res *core.Result) {
	scr := core.NewScratch("C13e2e")
	defer scr.Close()
	defer closeInnerScratches()
	for _, devType := range []string{"ASA", "IOS", "Linux", "PAN-OS", "NSX"} {
		for _, front := range []string{"do-compare", "do-compare-brief", "do-approve", "do-approve-brief"} {
			for _, variant := range []string{"differs", "equal", "differs+fault", "approved-then-drift"} {
				var sc *dscenario
				base := strings.TrimSuffix(front, "-brief")
				if variant == "equal" {
					sc = unchangedScenario(devType, base)
				} else {
					sc = baseScenario(devType, base)
				}
				sc.front = front
				sc.name = fmt.Sprintf("%s/%s/%s", devType, front, variant)
				o := runOpts{dev: map[int]string{}}
				if variant == "approved-then-drift" {
					// first a successful approve (status: approve OK), then the
					// device is put back by hand; the run under test follows
					first := baseScenario(devType, "do-approve")
					if r0 := runDialogue(scr, first, runOpts{}); r0.exit != 0 {
						res.Broken = append(res.Broken, "e2e: preparatory approve failed for "+devType)
						continue
					}
					o.keepWork, o.testTime = true, "2024-Sep-29 16:25:50"
				}
				if variant == "differs+fault" {
					// the first config-changing command (approve) or the last
					// read-only one (compare) is answered with an error
					probe := runDialogue(scr, sc, runOpts{})
					at := 0
					for _, t := range probe.trans {
						if strings.HasPrefix(base, "do-approve") && t.Class == sim.ClChange {
							at = t.Point // the last config-changing command
						}
						if strings.HasPrefix(base, "do-compare") && t.Class == sim.ClRead {
							at = t.Point
						}
					}
					if at == 0 {
						continue
					}
					kind := sim.DevError
					if isHTTPS(devType) {
						kind = sim.DevHTTP500
					}
					o.dev[at] = kind
				}
				// history in front: none, or a successful approve of the same
				// policy followed by manual drift back to the old state
				r := runDialogue(scr, sc, o)
				res.Evaluations++
				res.Transitions++
				res.Count("end_to_end_runs", 1)
				listed, out, err := runMissingApprove(filepath.Join(scr.Dir, "dlg"))
				if err != nil {
					res.Broken = append(res.Broken, fmt.Sprintf("missing-approve after %s: %v %s", sc.name, err, out))
					continue
				}
				// what the device carries afterwards relative to the current policy
				mustList := true
				switch {
				case variant == "equal":
					mustList = false
				case base == "do-approve":
					// a successful approve brought the code to the device (a fault
					// the tool does not notice is C09's matter, not C13's)
					mustList = r.exit != 0
				}
				res.Nontrivial++
				res.Outcome(fmt.Sprintf("e2e:%s:%s:listed=%v", front, variant, listed))
				ev := append([]string{"scenario=" + sc.name, fmt.Sprintf("exit=%d", r.exit), "status: " + strings.TrimSpace(r.files["status/router"])}, r.transcript()...)
				if mustList && !listed {
					res.AddViolation(core.Violation{Property: "C13", Engine: "histx/e2e", Space: devType, Events: ev,
						Oracle: "never-forgets", Signature: "e2e-forgotten:" + front + ":" + variant,
						Message: fmt.Sprintf("after '%s' on a device that differs from the current policy missing-approve prints %q", sc.name, strings.TrimSpace(out))})
				}
				if !mustList && listed && r.exit == 0 {
					res.AddViolation(core.Violation{Property: "C13", Engine: "histx/e2e", Space: devType, Events: ev,
						Oracle: "terminates", Signature: "e2e-overlisted:" + front + ":" + variant,
						Message: fmt.Sprintf("after a successful '%s' that established equality missing-approve still lists the device", sc.name)})
				}
			}
		}
	}
}

func init() {
	c13Extra = func(ctx *core.Ctx, res *core.Result) {
		c13EndToEnd(ctx, res)
		c13Housekeeping(ctx, res)
	}
}
