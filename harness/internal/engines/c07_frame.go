package engines

import (
	"fmt"
	"strings"
	"time"

	"verif/harness/internal/ciscomodel"
	"verif/harness/internal/core"
)

// C07: configuration outside Netspoc's scope is never deleted or altered.
// Device states carry unmanaged items from an alphabet (all subsets up to a
// size bound); after every executed command every unmanaged entry must
// still be there, textually unchanged and in its order.

var asaUnmanaged = []string{
	// unbound ACL with a plain name
	"access-list manual extended permit ip host 10.5.5.5 any4\naccess-list manual extended deny ip any4 any4\n",
	// object-group referenced only by an unbound ACL
	"object-group network gmanual\n network-object host 10.5.5.6\naccess-list manual2 extended permit ip object-group gmanual any4\n",
	// interface unknown to Netspoc with its own ACL that carries a generated name
	"interface Ethernet0/2\n nameif dmz\naccess-list dmz_in-DRC-0 extended permit ip host 10.5.5.7 any4\naccess-group dmz_in-DRC-0 in interface dmz\n",
	// shutdown interface unknown to Netspoc with ACL using an object-group with generated name
	"interface Ethernet0/3\n nameif dmz2\n shutdown\nobject-group network gd-DRC-0\n network-object host 10.5.5.8\naccess-list dmz2_in extended permit ip object-group gd-DRC-0 any4\naccess-group dmz2_in out interface dmz2\n",
	// routes of an address family the target does not mention
	"ipv6 route outside 1000::/64 2000::1\n",
	// lines the tool does not model
	"ntp server 10.1.1.1\nlogging host inside 10.1.1.2\nsnmp-server host inside 10.1.1.3 community xxx\n",
	// aaa-server and ldap attribute-map
	"ldap attribute-map M1\n map-name memberOf Group-Policy\naaa-server LDAP1 protocol ldap\naaa-server LDAP1 (inside) host 10.2.2.2\n ldap-attribute-map M1\n",
	// crypto map on an interface unknown to Netspoc
	"interface Ethernet0/4\n nameif vpn\naccess-list cry-DRC-0 extended permit ip host 10.5.5.9 host 10.5.5.10\ncrypto ipsec ikev1 transform-set tu-DRC-0 esp-3des esp-sha-hmac\ncrypto map mvpn 10 match address cry-DRC-0\ncrypto map mvpn 10 set peer 10.3.3.9\ncrypto map mvpn 10 set ikev1 transform-set tu-DRC-0\ncrypto map mvpn interface vpn\n",
	// object-group referenced by an unbound ACL and by the managed ACL
	"object-group network g1\n network-object host 10.1.1.10\n network-object host 10.1.1.11\naccess-list manual3 extended permit ip object-group g1 any4\n",
	// interface unknown to Netspoc with access-groups in both directions
	"interface Ethernet0/5\n nameif dmz3\naccess-list dmz3_in extended permit ip host 10.5.5.31 any4\naccess-list dmz3_out extended permit ip host 10.5.5.32 any4\naccess-group dmz3_in in interface dmz3\naccess-group dmz3_out out interface dmz3\n",
	// hand-made unbound ACL whose line names a group of a kind the tool does
	// not model (icmp-type) next to a generated network group
	"object-group icmp-type PING\n icmp-object echo\nobject-group network gmon-DRC-0\n network-object host 10.5.5.61\naccess-list MONITOR extended permit icmp object-group gmon-DRC-0 any4 object-group PING\n",
	// access-group of an unknown interface with a trailing keyword
	"interface Ethernet0/6\n nameif dmz4\naccess-list dmz4_in-DRC-0 extended permit ip host 10.5.5.41 any4\naccess-group dmz4_in-DRC-0 in interface dmz4 per-user-override\n",
	"interface Ethernet0/7\n nameif dmz5\naccess-list dmz5_cp-DRC-0 extended permit ip host 10.5.5.51 any4\naccess-group dmz5_cp-DRC-0 in interface dmz5 control-plane\n",
	// plain-named group-policy (two commands) re-using a generated filter
	// ACL whose second line references a further generated group
	"object-group network gm1-DRC-0\n network-object 10.0.5.0 255.255.255.0\nobject-group network gm2-DRC-0\n network-object 10.0.6.0 255.255.255.0\n" +
		"access-list filter-DRC-0 extended permit ip object-group gm1-DRC-0 any4\naccess-list filter-DRC-0 extended permit tcp object-group gm2-DRC-0 any4 eq 80\n" +
		"group-policy UNKNOWN internal\ngroup-policy UNKNOWN attributes\n vpn-filter value filter-DRC-0\n",
	// plain-named tunnel-group (no tunnel-group-map) using a generated
	// group-policy whose attributes reference a pool and a filter ACL
	"access-list mf-DRC-0 extended permit ip 10.1.2.192 255.255.255.192 10.1.0.0 255.255.255.0\nip local pool mpool-DRC-0 10.1.219.192-10.1.219.255 mask 0.0.0.63\n" +
		"group-policy MGP-DRC-0 internal\ngroup-policy MGP-DRC-0 attributes\n address-pools value mpool-DRC-0\n vpn-filter value mf-DRC-0\n" +
		"tunnel-group ADMIN-tunnel type remote-access\ntunnel-group ADMIN-tunnel general-attributes\n default-group-policy MGP-DRC-0\n",
}

var iosUnmanaged = []string{
	"ip access-list extended manual\n permit ip host 10.5.5.5 any\n deny ip any any\n",
	"ip access-list extended e9_in-DRC-0\n permit ip host 10.5.5.7 any\ninterface Ethernet9\n ip address 10.9.9.1 255.255.255.0\n ip access-group e9_in-DRC-0 in\n",
	"ip route vrf X 10.77.0.0 255.255.0.0 10.7.7.7\n",
	"ntp server 10.1.1.1\nlogging host 10.1.1.2\n",
	"crypto map GD 10 gdoi\ninterface Ethernet8\n ip address 10.8.8.1 255.255.255.0\n crypto map GD\n",
	"interface Ethernet7\n ip address 10.7.7.1 255.255.255.0\n ip vrf forwarding X\n ip access-group e7-DRC-0 in\nip access-list extended e7-DRC-0\n permit ip any any\n",
	// VRF unknown to Netspoc with two interfaces, the ACL (generated name)
	// is bound to the second one
	"interface Ethernet10\n ip address 10.10.10.1 255.255.255.0\n ip vrf forwarding Y\ninterface Ethernet11\n ip address 10.11.11.1 255.255.255.0\n ip vrf forwarding Y\n ip access-group e11-DRC-0 in\nip access-list extended e11-DRC-0\n permit ip any any\n",
	// interface of a VRF unknown to Netspoc with a crypto map of two
	// entries, each with a filter ACL that carries a generated name
	"ip access-list extended cf12-1-DRC-0\n permit tcp host 10.1.1.1 host 10.2.2.2 eq 80\n deny ip any any\nip access-list extended cf12-2-DRC-0\n permit tcp host 10.1.1.1 host 10.3.3.3 eq 80\n deny ip any any\n" +
		"crypto map cm12 1 ipsec-isakmp\n set ip access-group cf12-1-DRC-0 in\n set peer 10.156.1.2\ncrypto map cm12 2 ipsec-isakmp\n set ip access-group cf12-2-DRC-0 in\n set peer 10.156.1.3\n" +
		"interface Ethernet12\n ip address 10.12.12.1 255.255.255.0\n ip vrf forwarding Z\n crypto map cm12\n",
	// unknown interface with ACLs in both directions
	"ip access-list extended e6_in\n permit ip host 10.5.5.31 any\nip access-list extended e6_out\n permit ip host 10.5.5.32 any\ninterface Ethernet6\n ip address 10.6.6.1 255.255.255.0\n ip access-group e6_in in\n ip access-group e6_out out\n",
}

// subsetsUpTo returns all subsets of {0..n-1} with at most k elements.
func subsetsUpTo(n, k int) [][]int {
	var out [][]int
	for _, s := range subsets(n) {
		if len(s) <= k {
			out = append(out, s)
		}
	}
	return out
}

type frameSpace struct {
	space
	unmanaged func(i int64) string
}

func frameSpaceASA(name string, maxItems int) *frameSpace {
	base := c01ACLSpace("acl", 5, 2) // includes lines referencing g1 (index 3)
	subs := subsetsUpTo(len(asaUnmanaged), maxItems)
	ns := int64(len(subs))
	fs := &frameSpace{}
	fs.name, fs.model, fs.n = name, "ASA", base.n*ns
	unm := func(i int64) string {
		var b strings.Builder
		for _, k := range subs[i%ns] {
			b.WriteString(asaUnmanaged[k])
		}
		return b.String()
	}
	fs.gen = func(i int64) (core.Files, core.Files) {
		a, b := base.gen(i / ns)
		u := unm(i)
		// item 8 defines g1 itself: avoid a second definition
		if strings.Contains(u, "object-group network g1\n") {
			a.Main = strings.Replace(a.Main, "object-group network g1\n network-object host 10.1.1.10\n network-object host 10.1.1.11\n", "", 1)
		}
		return core.Files{Main: a.Main + u}, b
	}
	fs.unmanaged = unm
	return fs
}

func frameSpaceIOS(name string, maxItems int) *frameSpace {
	base := c02ACLSpace("acl", 5, 2)
	subs := subsetsUpTo(len(iosUnmanaged), maxItems)
	ns := int64(len(subs))
	fs := &frameSpace{}
	fs.name, fs.model, fs.n = name, "IOS", base.n*ns
	unm := func(i int64) string {
		var b strings.Builder
		for _, k := range subs[i%ns] {
			b.WriteString(iosUnmanaged[k])
		}
		return b.String()
	}
	fs.gen = func(i int64) (core.Files, core.Files) {
		a, b := base.gen(i / ns)
		return core.Files{Main: a.Main + unm(i)}, b
	}
	fs.unmanaged = unm
	return fs
}

// frameSpaceIOSRoutes: IOS devices with interfaces in the global VRF and in
// VRF A and B and any subset of routes; the target has routes for some of
// the VRFs only.  Device routes of a VRF (or of the global table) for which
// the target specifies no route are out of scope and must stay.
func frameSpaceIOSRoutes() *frameSpace {
	base := iosVRFIntfSpace()
	fs := &frameSpace{}
	fs.name, fs.model, fs.n = "vrf-routes", "IOS", base.n
	fs.gen = base.gen
	vrfOf := func(l string) string {
		w := strings.Fields(l)
		if len(w) > 3 && w[2] == "vrf" {
			return w[3]
		}
		return ""
	}
	fs.unmanaged = func(i int64) string {
		a, b := base.gen(i)
		has := map[string]bool{}
		for _, l := range strings.Split(b.Main, "\n") {
			if strings.HasPrefix(l, "ip route ") {
				has[vrfOf(l)] = true
			}
		}
		var out strings.Builder
		for _, l := range strings.Split(a.Main, "\n") {
			if strings.HasPrefix(l, "ip route ") && !has[vrfOf(l)] {
				out.WriteString(l + "\n")
			}
		}
		return out.String()
	}
	return fs
}

// frameSpaceAAA: a managed tunnel-group that names an aaa-server which the
// administrator maintains by hand.  The definition on the device (protocol
// ldap / radius / tacacs+, one or two hosts, with or without attribute map)
// never has to look like the one in Netspoc's code; whatever happens to the
// tunnel-group, the aaa-server and ldap attribute-map lines must stay.
func frameSpaceAAA() *frameSpace {
	devAAA := []string{
		"aaa-server AUTH_KV protocol ldap\naaa-server AUTH_KV (inside) host 10.2.8.16\n ldap-attribute-map LDAPMAP\nldap attribute-map LDAPMAP\n map-name memberOf Group-Policy\n",
		"aaa-server AUTH_KV protocol radius\naaa-server AUTH_KV (inside) host 10.2.8.16\n key *****\n authentication-port 1812\nldap attribute-map LDAPMAP\n map-name memberOf Group-Policy\n",
		"aaa-server AUTH_KV protocol tacacs+\naaa-server AUTH_KV (inside) host 10.2.8.16\n key *****\naaa-server AUTH_KV (inside) host 10.2.8.17\n key *****\n",
		"aaa-server AUTH_KV protocol ldap\naaa-server AUTH_KV (inside) host 10.2.8.16\n ldap-attribute-map OTHERMAP\nldap attribute-map OTHERMAP\n map-name memberOf Group-Policy\n map-value memberOf x y\nldap attribute-map LDAPMAP\n map-name memberOf Group-Policy\n",
	}
	tg := func(v int) string {
		switch v {
		case 0:
			return ""
		case 1:
			return "crypto ca certificate map ca-map-G1 10\n subject-name attr cn co g1\ntunnel-group VPN-tunnel-G1 type remote-access\ntunnel-group VPN-tunnel-G1 general-attributes\n authentication-server-group AUTH_KV\n" +
				"tunnel-group VPN-tunnel-G1 webvpn-attributes\n authentication aaa certificate\ntunnel-group-map ca-map-G1 10 VPN-tunnel-G1\n"
		case 2:
			return "crypto ca certificate map ca-map-G1 10\n subject-name attr cn co g1\ntunnel-group VPN-tunnel-G1 type remote-access\ntunnel-group VPN-tunnel-G1 general-attributes\n authentication-server-group AUTH_KV\n" +
				"tunnel-group VPN-tunnel-G1 webvpn-attributes\n authentication certificate\ntunnel-group-map ca-map-G1 10 VPN-tunnel-G1\n"
		}
		return "crypto ca certificate map ca-map-G2 10\n subject-name attr cn co g2\ntunnel-group VPN-tunnel-G2 type remote-access\ntunnel-group VPN-tunnel-G2 general-attributes\n authentication-server-group AUTH_KV\n" +
			"tunnel-group-map ca-map-G2 10 VPN-tunnel-G2\n"
	}
	tgtAAA := "aaa-server AUTH_KV protocol ldap\naaa-server AUTH_KV host X\n ldap-attribute-map LDAPMAP\nldap attribute-map LDAPMAP\n map-name memberOf Group-Policy\n"
	acl := "access-list inside_in extended permit ip any4 any4\naccess-group inside_in in interface inside\n"
	nd, nt := int64(len(devAAA)), int64(4)
	fs := &frameSpace{}
	fs.name, fs.model, fs.n = "aaa", "ASA", nd*nt*nt
	fs.gen = func(i int64) (core.Files, core.Files) {
		d, dv, tv := i%nd, int(i/nd%nt), int(i/nd/nt)
		tgt := tg(tv) + acl
		if tv != 0 {
			tgt = tgtAAA + tgt
		}
		return core.Files{Main: asaIntf + devAAA[d] + tg(dv) + acl}, core.Files{Main: tgt}
	}
	fs.unmanaged = func(i int64) string { return devAAA[i%nd] }
	return fs
}

// frameCheck verifies that every unmanaged entry is still present,
// textually unchanged, in its relative order.
func frameCheck(m *ciscomodel.Dev, want []*ciscomodel.Entry) error {
	pos := 0
	for _, w := range want {
		found := -1
		for i := pos; i < len(m.Entries); i++ {
			if m.Entries[i].Line == w.Line {
				found = i
				break
			}
		}
		if found < 0 {
			// maybe present but out of order
			for i := 0; i < pos; i++ {
				if m.Entries[i].Line == w.Line {
					return fmt.Errorf("unmanaged line %q was moved", w.Line)
				}
			}
			return fmt.Errorf("unmanaged line %q was deleted or changed", w.Line)
		}
		if strings.Join(m.Entries[found].Subs, "\n") != strings.Join(w.Subs, "\n") {
			return fmt.Errorf("sub-commands of unmanaged %q changed:\n was: %s\n now: %s", w.Line,
				strings.Join(w.Subs, " | "), strings.Join(m.Entries[found].Subs, " | "))
		}
		// ACL lines of one ACL keep their order; other entries may be
		// anywhere, so only advance for ACL lines.
		if strings.HasPrefix(w.Line, "access-list ") {
			pos = found + 1
		} else {
			pos = 0
		}
	}
	return nil
}

func (x *approvex) runFrame(fs *frameSpace, base int64) {
	ios := fs.model == "IOS"
	var mine int64
	for i := int64(0); i < fs.n; i++ {
		if !x.ctx.Mine(base + i) {
			continue
		}
		mine++
		if mine%256 == 0 && x.ctx.Expired() {
			x.res.Incomplete = append(x.res.Incomplete, fmt.Sprintf("deadline in frame space %s at %d/%d", fs.name, i, fs.n))
			return
		}
		a, b := fs.gen(i)
		x.res.Evaluations++
		x.res.Count("space:"+fs.model+"-"+fs.name, 1)
		out := x.sc.Compare(fs.model, a, b)
		if out.Status != 0 {
			x.res.Count("rejected_by_tool", 1)
			x.res.Outcome("rejected:" + short(rejectSig(out.Stderr), 50))
			continue
		}
		script := out.Script()
		x.res.Transitions++
		if len(script) > 0 {
			x.res.Nontrivial++
		}
		want := ciscomodel.Load(fs.unmanaged(i), ios).Entries
		m := ciscomodel.Load(a.Main, ios)
		x.visit(a.Main)
		if len(x.res.Samples) < 2 && len(script) > 2 && len(want) > 3 {
			x.res.Sample(map[string]any{"space": fs.name, "index": i, "device": a.Main, "target": b.Main, "script": script})
		}
		step, cmd, err := execScript(m, script, func(li int, m *ciscomodel.Dev) error {
			x.visit(m.Print())
			if e := frameCheck(m, want); e != nil {
				return &safetyErr{msg: e.Error()}
			}
			return nil
		})
		x.res.Count("commands_executed", int64(m.Steps))
		if err != nil {
			if _, isFrame := err.(*safetyErr); isFrame {
				x.violation(&fs.space, i, a, b, script, step, "frame", "frame:"+frameSig(err.Error()),
					fmt.Sprintf("after %q: %v", cmd, err))
			} else {
				x.res.Count("skipped_exec_error(see C08)", 1)
				// a rejected command that touches unmanaged content is a frame matter too
				if strings.Contains(err.Error(), "still referenced") {
					x.violation(&fs.space, i, a, b, script, step, "frame", "frame:delete-referenced",
						fmt.Sprintf("command %q: %v", cmd, err))
				}
			}
			continue
		}
		x.res.Outcome(fmt.Sprintf("ok:lines=%d", len(script)))
	}
}

func frameSig(msg string) string {
	switch {
	case strings.Contains(msg, "sub-commands of unmanaged"):
		w := strings.Fields(msg)
		for i, t := range w {
			if t == "unmanaged" && i+1 < len(w) {
				return "subs-changed:" + strings.Trim(w[i+1], `"`)
			}
		}
		return "subs-changed"
	case strings.Contains(msg, "was moved"):
		return "moved"
	case strings.Contains(msg, "deleted or changed"):
		w := strings.Fields(msg)
		for i, t := range w {
			if t == "line" && i+1 < len(w) {
				return "deleted:" + strings.Trim(w[i+1], `"`)
			}
		}
		return "deleted"
	}
	return "other"
}

func c07Worker(ctx *core.Ctx) *core.Result {
	x := newApprovex(ctx, "C07", oracles{frame: true})
	defer x.sc.Close()
	k := 2
	if ctx.Thorough() {
		k = 4
	}
	fa := frameSpaceASA("unmanaged", k)
	x.runFrame(fa, 0)
	fi := frameSpaceIOS("unmanaged", k)
	x.runFrame(fi, fa.n)
	x.runFrame(frameSpaceSharedGroup(), fa.n+fi.n)
	x.runFrame(frameSpaceIOSRoutes(), fa.n+fi.n+1000000)
	x.runFrame(frameSpaceAAA(), fa.n+fi.n+2000000)
	// PAN-OS: everything outside the targeted vsys
	px := &panx{ctx: ctx, res: x.res, sc: x.sc, prop: "C07", frame: true, seen: map[string]struct{}{}}
	px.run([]*panSpace{panVsysSpace(), panFrameSpace()})
	if c07Extra != nil {
		c07Extra(ctx, x.res)
	}
	return x.res
}

var c07Extra func(ctx *core.Ctx, res *core.Result)

// panFrameSpace: two vsys with rules and objects; the target addresses only
// vsys1; vsys2 uses equal object names.
func panFrameSpace() *panSpace {
	sq := seqs(4, 0, 2)
	nb := int64(len(sq))
	mk := func(s []int) []panRuleT {
		var l []panRuleT
		for _, i := range s {
			l = append(l, panRules[i])
		}
		return l
	}
	other := panVsysT{name: "vsys2", rules: []panRuleT{panRules[1], panRules[3]}, extra: "<display-name>manual</display-name>"}
	return &panSpace{name: "frame", n: nb * nb, gen: func(i int64) (string, core.Files) {
		return panConfig(panVsysT{name: "vsys1", rules: mk(sq[i/nb]), extra: "<display-name>netspoc</display-name>"}, other),
			core.Files{Main: panConfig(panVsysT{name: "vsys1", rules: mk(sq[i%nb])})}
	}}
}

func init() {
	registerSharded("C07", c07Worker, func(tier string) core.Meta {
		return core.Meta{ID: "C07", Level: "model_checking",
			Rule: "states = distinct device-model states; device states = managed ACL pair space (len<=2 over 5 lines incl. group references) x all subsets of up to 2 (thorough 4) unmanaged items from an alphabet of 15 ASA / 9 IOS items (plain-named group-policy and tunnel-group chains through two-command objects down to generated filter ACLs, groups and pools, unbound plain-named ACL, group used only by it, group shared with a managed ACL, unknown interfaces - shutdown or not - with ACLs (also bound with per-user-override or control-plane), groups and crypto maps carrying generated names (also a crypto map of two entries with generated filter ACLs on an interface of an unknown VRF), routes of other family/VRF, unmodelled lines, aaa-server/ldap map, gdoi crypto map); IOS routes: devices with interfaces in three VRFs and every route subset, targets with routes for some VRFs only (routes of the other VRFs must stay); space aaa: a managed tunnel-group naming a hand-maintained aaa-server whose definition differs from the one in the target (protocol, hosts, attribute map) x tunnel-group variants on both sides; PAN-OS: two-vsys devices, target addressing one; transition = real planner; after every executed command every unmanaged entry must still be present with identical text and sub-commands (PAN-OS: the XML outside the targeted vsys is byte-identical); non-trivial = script non-empty. NSX (objects without the Netspoc prefix) is filtered while reading the manager and is therefore checked end to end by the dialogue engine (C11/C09 simulators), not here",
			Assumptions: []string{"unmanaged content is what the statement lists; the check knows exactly which lines it added as unmanaged"},
			Bounds:      map[string]any{"quick": "<=2 unmanaged items", "thorough": "<=4 unmanaged items"},
		}
	}, 170*time.Second, 40*time.Minute)
}


// frameSpaceSharedGroup: a device group referenced by the managed ACL and
// by an unbound plain-named ACL; the target changes the group's content.
func frameSpaceSharedGroup() *frameSpace {
	const nsub = 7
	fs := &frameSpace{}
	fs.name, fs.model, fs.n = "shared-group", "ASA", nsub*nsub*2
	unm := func(i int64) string {
		name := "g1"
		if i%2 == 1 {
			name = "g1-DRC-0"
		}
		i /= 2
		d := int(i%nsub) + 1
		return groupText(name, d) + "access-list manual3 extended permit ip object-group " + name + " any4\n"
	}
	fs.unmanaged = unm
	fs.gen = func(i int64) (core.Files, core.Files) {
		name := "g1"
		if i%2 == 1 {
			name = "g1-DRC-0"
		}
		t := int((i/2)/nsub) + 1
		a := asaIntf + unm(i) + "access-list inside_in extended permit ip object-group " + name + " any4\naccess-group inside_in in interface inside\n"
		b := groupText("g1", t) + "access-list inside_in extended permit ip object-group g1 any4\naccess-group inside_in in interface inside\n"
		return core.Files{Main: a}, core.Files{Main: b}
	}
	return fs
}
