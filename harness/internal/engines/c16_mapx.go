//go:build verif && verifmap

package engines

import (
	"fmt"
	"strings"

	"github.com/hknutzen/Netspoc-Approve/go/pkg/verifmap"
	"verif/harness/internal/core"
	"verif/harness/internal/corpus"
)

// C16 worker: only present in the binary built with the map-range overlay.

type c16case struct {
	name  string
	model string
	a, b  core.Files
}

func c16Inputs(thorough bool) []c16case {
	var l []c16case
	// corpus: every test's own DEVICE / NETSPOC pair
	cases, _ := corpus.Load()
	for _, c := range cases {
		if c.Scenario != "" || strings.Count(c.Device, "\n") > 400 || strings.Count(c.Netspoc.Main, "\n") > 400 {
			continue
		}
		l = append(l, c16case{name: "corpus:" + c.File + "/" + c.Title, model: c.Model, a: core.Files{Main: c.Device}, b: c.Netspoc})
	}
	add := func(name, model string, a, b core.Files) { l = append(l, c16case{name, model, a, b}) }
	// ASA: identical left-over groups, several needed groups
	g := c01GroupSpace("grp", 3)
	for i := int64(0); i < g.n; i++ {
		naming := (i / (7 * 7 * 7 * 7)) % 5
		if naming != 3 {
			continue
		}
		if !thorough && i%7 != 0 {
			continue
		}
		a, b := g.gen(i)
		add(fmt.Sprintf("asa-dup-groups:%d", i), "ASA", a, b)
	}
	// ASA: three identical left-over groups and two target groups of that content
	dev := asaIntf + groupText("x-DRC-0", 3) + groupText("x-DRC-1", 3) + groupText("x-DRC-2", 3) + groupText("y-DRC-0", 5) + groupText("y-DRC-1", 5) +
		"access-list inside_in extended deny ip any4 any4\naccess-group inside_in in interface inside\n"
	tgt := groupText("g1", 3) + groupText("g2", 5) + groupText("g3", 3) +
		"access-list inside_in extended permit ip object-group g1 any4\naccess-list inside_in extended permit ip any4 object-group g2\n" +
		"access-list inside_in extended permit ip object-group g3 object-group g2\naccess-list inside_in extended deny ip any4 any4\naccess-group inside_in in interface inside\n"
	add("asa-three-identical-groups", "ASA", core.Files{Main: dev}, core.Files{Main: tgt})
	// ASA: crypto map entries with one peer on the device
	cry := func(entries ...string) string {
		var b strings.Builder
		b.WriteString("crypto ipsec ikev1 transform-set T esp-3des esp-sha-hmac\n")
		for i, e := range entries {
			seq := 10 * (i + 1)
			fmt.Fprintf(&b, "access-list cacl%d extended permit ip 10.1.%d.0 255.255.255.0 host 10.3.4.5\n", i, i)
			fmt.Fprintf(&b, "crypto map M %d match address cacl%d\ncrypto map M %d set peer %s\ncrypto map M %d set ikev1 transform-set T\n", seq, i, seq, e, seq)
		}
		b.WriteString("crypto map M interface outside\n")
		return b.String()
	}
	add("asa-crypto-same-peer", "ASA", core.Files{Main: asaIntf + cry("10.9.9.1", "10.9.9.1", "10.9.9.2")}, core.Files{Main: cry("10.9.9.1", "10.9.9.2")})
	add("asa-crypto-same-peer-target", "ASA", core.Files{Main: asaIntf + cry("10.9.9.1", "10.9.9.2")}, core.Files{Main: cry("10.9.9.1", "10.9.9.1", "10.9.9.3")})
	// ASA: several dangling references
	add("asa-dangling-refs", "ASA", core.Files{Main: asaIntf}, core.Files{Main: "access-list a extended permit ip object-group nope1 any4\naccess-group a in interface inside\n" +
		"access-list b extended permit ip object-group nope2 any4\naccess-group b in interface outside\ngroup-policy P attributes\n vpn-filter value nope3\n"})
	// ASA: raw with several unused objects and IPv6 merge
	add("asa-raw-unused", "ASA", core.Files{Main: asaIntf}, core.Files{Main: "access-list inside_in extended permit ip host 10.1.1.1 any4\naccess-group inside_in in interface inside\n",
		V6:  "access-list inside_in extended permit ip host 1000::1 any6\naccess-list inside_in extended deny ip any6 any6\naccess-group inside_in in interface inside\n",
		Raw: "object-group network u1\n network-object host 10.1.1.1\nobject-group network u2\n network-object host 10.1.1.2\nobject-group network u3\n network-object host 10.1.1.3\naccess-list unb1 extended permit ip any4 any4\naccess-list unb2 extended permit ip any4 any4\n"})
	// ASA / IOS: unused raw objects that share one name across command types
	add("asa-raw-unused-same-name", "ASA", core.Files{Main: asaIntf}, core.Files{Main: "access-list inside_in extended permit ip host 10.1.1.1 any4\naccess-group inside_in in interface inside\n",
		Raw: "object-group network VPN1\n network-object host 10.1.1.1\naccess-list VPN1 extended permit ip any4 any4\ngroup-policy VPN1 internal\ngroup-policy VPN1 attributes\n banner value x\n" +
			"object-group network VPN2\n network-object host 10.1.1.2\naccess-list VPN2 extended permit ip any4 any4\n"})
	add("ios-raw-unused-same-name", "IOS", core.Files{Main: iosIntf("Ethernet0", "10.0.0.1")},
		core.Files{Main: iosACLBody("inside_in", []int{0, 3}, c02Lines, false) + iosIntf("Ethernet0", "10.0.0.1", "ip access-group inside_in in"),
			Raw: "ip access-list extended X1\n permit ip any any\nip access-list extended X2\n permit ip any any\ncrypto map X1 10 ipsec-isakmp\n set peer 10.1.1.1\n"})
	// ASA / IOS: one name used for two command types, a generated left-over
	// of only one of them on the device (first free index differs per type)
	add("asa-same-name-two-types", "ASA", core.Files{Main: asaIntf + "object-group network foo-DRC-0\n network-object 10.0.6.0 255.255.255.0\n" +
		"access-list old-DRC-0 extended permit ip object-group foo-DRC-0 any4\naccess-group old-DRC-0 in interface inside\n"},
		core.Files{Main: "object-group network foo\n network-object 10.0.5.0 255.255.255.0\n network-object 10.0.7.0 255.255.255.0\n network-object 10.0.8.0 255.255.255.0\n" +
			"access-list foo extended permit tcp object-group foo any4 eq 80\naccess-group foo in interface inside\n"})
	add("asa-same-name-two-types-acl-leftover", "ASA", core.Files{Main: asaIntf + "access-list foo-DRC-0 extended permit ip host 10.0.6.1 any4\naccess-group foo-DRC-0 in interface outside\n"},
		core.Files{Main: "object-group network foo\n network-object 10.0.5.0 255.255.255.0\n network-object 10.0.7.0 255.255.255.0\n" +
			"access-list foo extended permit tcp object-group foo any4 eq 80\naccess-group foo in interface inside\n"})
	add("ios-same-name-two-types", "IOS", core.Files{Main: "ip access-list extended foo-DRC-0\n permit ip host 10.0.6.1 any\n" + iosIntf("Ethernet1", "10.0.1.1", "ip access-group foo-DRC-0 in") + iosIntf("Ethernet0", "10.0.0.1")},
		core.Files{Main: "ip access-list extended foo\n permit ip host 10.0.5.1 any\ncrypto map foo 1 ipsec-isakmp\n set ip access-group foo in\n set peer 10.156.4.206\n" +
			iosIntf("Ethernet1", "10.0.1.1") + iosIntf("Ethernet0", "10.0.0.1", "crypto map foo")})
	// NSX: identical groups on the device
	ng := nsxGroupSpace("groups", 3)
	for i := int64(0); i < ng.n; i++ {
		if (i/(7*7))%6 != 3 {
			continue
		}
		a, b := ng.gen(i)
		add(fmt.Sprintf("nsx-dup-groups:%d", i), "NSX", core.Files{Main: a}, b)
	}
	// NSX: a new rule whose group equals two identical left-over groups
	{
		r1 := nsxRuleT{"r1", "ALLOW", "OUT", 20, "g:gA", "10.1.2.30", "tcp_80", false, ""}
		r2 := nsxRuleT{"r2", "ALLOW", "OUT", 21, "10.9.9.9", "g:gB", "tcp_80", false, ""}
		x := []string{"10.1.1.30", "10.1.1.40"}
		d := nsxCfgT{policies: map[string][]nsxRuleT{"v1": {r1}}, groups: map[string][]string{"gA": {"10.1.1.10"}, "g7": x, "g8": x, "g9": x}}
		t := nsxCfgT{policies: map[string][]nsxRuleT{"v1": {r1, r2}}, groups: map[string][]string{"gA": {"10.1.1.10"}, "gB": x}}
		add("nsx-new-rule-identical-leftovers", "NSX", core.Files{Main: nsxJSON(d)}, core.Files{Main: nsxJSON(t)})
	}
	// Linux: rules differing in several options at once
	for i, pair := range [][2]int{{0, 12}, {0, 13}, {0, 14}, {1, 10}, {9, 10}, {3, 15}, {0, 9}} {
		add(fmt.Sprintf("linux-multi-option:%d", i), "Linux", core.Files{Main: linuxRuleset([]int{pair[0]}, true)}, core.Files{Main: linuxRuleset([]int{pair[1]}, false)})
	}
	// Linux: protocol given by name with a match option of the same name
	// (the normalisation of one option depends on the value of another)
	for i, pr := range [][2]string{{"vrrp", "112"}, {"ipv6-icmp", "58"}, {"VRRP", "112"}, {"tcp", "tcp"}} {
		raw := func(rule string) string {
			return "*filter\n:INPUT DROP\n:FORWARD DROP\n:OUTPUT ACCEPT\n-A FORWARD " + rule + "\nCOMMIT\n"
		}
		add(fmt.Sprintf("linux-proto-match:%d", i), "Linux", core.Files{Main: raw("-p " + pr[1] + " -j ACCEPT")},
			core.Files{Main: raw("-j ACCEPT -p " + pr[0] + " -m " + pr[0])})
		add(fmt.Sprintf("linux-proto-match-rev:%d", i), "Linux", core.Files{Main: raw("-p " + pr[0] + " -m " + pr[0] + " -j ACCEPT")},
			core.Files{Main: raw("-j ACCEPT -p " + pr[1])})
	}
	// Linux: raw file adds several chains and tables (one message each)
	add("linux-raw-new-chains", "Linux", core.Files{Main: "*filter\n:INPUT DROP\n:FORWARD DROP\n:OUTPUT ACCEPT\nCOMMIT\n"},
		core.Files{Main: "*filter\n:INPUT DROP\n:FORWARD DROP\n:OUTPUT ACCEPT\n-A FORWARD -j ACCEPT -s 10.1.1.1\nCOMMIT\n",
			Raw: "*filter\n:c1 -\n:c2 -\n:c3 -\n:c4 -\n-A c1 -j ACCEPT\n-A c2 -j ACCEPT\n-A c3 -j ACCEPT\n-A c4 -j ACCEPT\nCOMMIT\n" +
				"*mangle\n:PREROUTING ACCEPT\n-A PREROUTING -j MARK --set-mark 5\nCOMMIT\n*nat\n:PREROUTING ACCEPT\nCOMMIT\n"})
	// Linux: raw file redefines two user chains (two independent errors)
	add("linux-raw-two-errors", "Linux", core.Files{Main: "*filter\n:INPUT DROP\nCOMMIT\n"},
		core.Files{Main: "*filter\n:INPUT DROP\n:c1 -\n:c2 -\n-A c1 -j ACCEPT\n-A c2 -j ACCEPT\nCOMMIT\n",
			Raw: "*filter\n:c1 -\n:c2 -\n-A c1 -j DROP\n-A c2 -j DROP\nCOMMIT\n"})
	// ASA: raw file with several independent errors
	add("asa-raw-two-unsupported", "ASA", core.Files{Main: asaIntf}, core.Files{Main: "access-list inside_in extended permit ip host 10.1.1.1 any4\naccess-group inside_in in interface inside\n",
		Raw: "tunnel-group VPN-tunnel type remote-access\ntunnel-group-map default-group VPN-tunnel\nwebvpn\n anyconnect-custom-attr x\n"})
	add("asa-raw-two-name-clashes", "ASA", core.Files{Main: asaIntf}, core.Files{Main: groupText("g1", 3) + groupText("g2", 5) +
		"access-list inside_in extended permit ip object-group g1 object-group g2\naccess-group inside_in in interface inside\n",
		Raw: groupText("g1", 4) + groupText("g2", 6) + "access-list inside_in extended permit ip object-group g1 any4\naccess-list outside_in extended permit ip object-group g2 any4\naccess-group outside_in in interface outside\n"})
	// remaining map iterations of the planner: ASA routes with a metric on
	// two interfaces, IOS with two GDOI crypto maps
	add("asa-route-metric-two-interfaces", "ASA", core.Files{Main: asaIntf + "route inside 10.1.0.0 255.255.0.0 10.0.0.2 1\nroute outside 10.2.0.0 255.255.0.0 10.0.1.2 1\nroute outside 10.4.0.0 255.255.0.0 10.0.1.2 1\n"},
		core.Files{Main: "route inside 10.1.0.0 255.255.0.0 10.0.0.2\nroute outside 10.3.0.0 255.255.0.0 10.0.1.2\nroute inside 10.5.0.0 255.255.0.0 10.0.0.3\n"})
	add("ios-two-gdoi-maps", "IOS", core.Files{Main: "crypto map GDOI-03 10 gdoi\n set group GDOI-03\ncrypto map GDOI-04 10 gdoi\n set group GDOI-04\n" +
		"interface eth0\n ip address 10.1.2.3 255.255.255.252\n crypto map GDOI-03\ninterface eth1\n ip address 10.1.2.5 255.255.255.252\n crypto map GDOI-04\n"},
		core.Files{Main: "interface eth0\n ip address 10.1.2.3 255.255.255.252\ninterface eth1\n ip address 10.1.2.5 255.255.255.252\n"})
	// several independent errors in one input: the one reported must not
	// depend on the iteration order
	{
		var aaa, acls, maps, ios strings.Builder
		for _, n := range []string{"A", "B", "C"} {
			aaa.WriteString("aaa-server LDAP_" + n + " protocol ldap\naaa-server LDAP_" + n + " (inside) host 10.2.8.8\n ldap-attribute-map MAP1\naaa-server LDAP_" + n + " (inside) host 10.2.8.16\n ldap-attribute-map MAP2\n")
			acls.WriteString("access-list acl_" + n + " extended permit tcp object-group\n")
			maps.WriteString("crypto map map_" + n + " 1 set ikev1 transform-set t1 t2 t3 t4 t5 t6 t7 t8 t9 t10 t11 t12\n")
			ios.WriteString("ip access-list extended acl_" + n + "\n permit tcp object-group\n")
		}
		add("asa-several-bad-aaa-servers", "ASA", core.Files{Main: asaIntf + "ldap attribute-map MAP1\n map-name memberOf Group-Policy\nldap attribute-map MAP2\n map-name memberOf Group-Policy\n" + aaa.String()}, core.Files{Main: ""})
		add("asa-several-incomplete-acls", "ASA", core.Files{Main: asaIntf}, core.Files{Main: acls.String()})
		add("asa-several-long-transform-sets", "ASA", core.Files{Main: asaIntf}, core.Files{Main: maps.String()})
		add("ios-several-incomplete-acls", "IOS", core.Files{Main: iosIntf("Ethernet0", "10.0.0.1")}, core.Files{Main: ios.String()})
	}
	// ASA: several interfaces of the target unknown on the device
	add("asa-several-unknown-interfaces", "ASA", core.Files{Main: "interface Ethernet0/0\n nameif mgmt\n"},
		core.Files{Main: "access-list a extended permit ip any4 any4\naccess-group a in interface inside\naccess-list b extended permit ip any4 any4\naccess-group b in interface outside\n" +
			"access-list c extended permit ip any4 any4\naccess-group c in interface dmz\n"})
	add("linux-struct", "Linux", core.Files{Main: "*filter\n:INPUT DROP\n:a -\n:b -\n:c -\nCOMMIT\n*mangle\n:PREROUTING ACCEPT\nCOMMIT\n*nat\n:PREROUTING ACCEPT\nCOMMIT\n"},
		core.Files{Main: "*filter\n:INPUT DROP\n:d -\n:e -\nCOMMIT\n*raw\n:PREROUTING ACCEPT\nCOMMIT\n"})
	// PAN-OS
	ps := panObjSpace("objs", 3)
	for i := int64(0); i < ps.n; i += 5 {
		a, b := ps.gen(i)
		add(fmt.Sprintf("panos-objs:%d", i), "PAN-OS", core.Files{Main: a}, b)
	}
	// PAN-OS: identical unused address-groups on the device; the target
	// needs a group of that content for a new rule / for a replaced list
	{
		x := []string{"a1", "a2"}
		r1 := panRuleT{"allow", "z1", "z2", []string{"a1"}, []string{"a3"}, []string{"tcp 80"}, ""}
		r2 := panRuleT{"allow", "z2", "z1", []string{"gx"}, []string{"a3"}, []string{"tcp 80"}, ""}
		d := panVsysT{name: "vsys1", rules: []panRuleT{r1}, groups: map[string][]string{"g7": x, "g8": x, "g9": x}}
		t := panVsysT{name: "vsys1", rules: []panRuleT{r1, r2}, groups: map[string][]string{"gx": x}}
		add("panos-new-rule-identical-leftovers", "PAN-OS", core.Files{Main: panConfig(d)}, core.Files{Main: panConfig(t)})
		r2d := r2
		r2d.src = []string{"gdev"}
		d2 := panVsysT{name: "vsys1", rules: []panRuleT{r1, r2d}, groups: map[string][]string{"gdev": {"a1", "a2", "a3", "a4", "a5"}, "g7": x, "g8": x, "g9": x}}
		add("panos-replaced-list-identical-leftovers", "PAN-OS", core.Files{Main: panConfig(d2)}, core.Files{Main: panConfig(t)})
		// identical unused service-groups and services
		r3 := panRuleT{"allow", "z1", "z2", []string{"a1"}, []string{"a3"}, []string{"sg1"}, ""}
		d3 := panVsysT{name: "vsys1", rules: []panRuleT{r1}, sgroup: map[string][]string{"sg7": {"tcp 80", "udp 53"}, "sg8": {"tcp 80", "udp 53"}, "sg9": {"tcp 80", "udp 53"}}}
		t3 := panVsysT{name: "vsys1", rules: []panRuleT{r1, r3}, sgroup: map[string][]string{"sg1": {"tcp 80", "udp 53"}}}
		add("panos-identical-service-groups", "PAN-OS", core.Files{Main: panConfig(d3)}, core.Files{Main: panConfig(t3)})
	}
	// every k-th case of the structured planner spaces (thorough: smaller k)
	stride := func(q, t int64) int64 {
		if thorough {
			return t
		}
		return q
	}
	vp := asaVPNSpace()
	for i := int64(3); i < vp.n; i += stride(211, 53) {
		a, b := vp.gen(i)
		add(fmt.Sprintf("asa-vpn:%d", i), "ASA", a, b)
	}
	ntg := nsxTwoGroupSpace("two-groups", nil)
	for i := int64(1); i < ntg.n; i += stride(61, 13) {
		a, b := ntg.gen(i)
		add(fmt.Sprintf("nsx-two-groups:%d", i), "NSX", core.Files{Main: a}, b)
	}
	ncl := nsxClashSpace()
	for i := int64(0); i < ncl.n; i += stride(7, 2) {
		a, b := ncl.gen(i)
		add(fmt.Sprintf("nsx-clash:%d", i), "NSX", core.Files{Main: a}, b)
	}
	ptg := panTwoGroupSpace()
	for i := int64(1); i < ptg.n; i += stride(61, 13) {
		a, b := ptg.gen(i)
		add(fmt.Sprintf("panos-two-groups:%d", i), "PAN-OS", core.Files{Main: a}, b)
	}
	psh := panSharedSpace()
	for i := int64(2); i < psh.n; i += stride(211, 53) {
		a, b := psh.gen(i)
		add(fmt.Sprintf("panos-shared:%d", i), "PAN-OS", core.Files{Main: a}, b)
	}
	lr := linuxRouteSpace()
	for i := int64(5); i < lr.n; i += stride(257, 67) {
		a, b := lr.gen(i)
		add(fmt.Sprintf("linux-routes:%d", i), "Linux", core.Files{Main: a}, b)
	}
	iv := iosVRFIntfSpace()
	for i := int64(1); i < iv.n; i += stride(13, 3) {
		a, b := iv.gen(i)
		add(fmt.Sprintf("ios-vrf-intf:%d", i), "IOS", a, b)
	}
	for _, sp := range []struct {
		s    *space
		q, t int64
	}{{c01ACLSpace("acl", 6, 3), 53, 11}, {c01GroupSpace("grp", 3), 101, 23}, {asaBindSpace(), 7, 2}, {routePairSpace("ASA"), 257, 61},
		{c02ACLSpace("acl", 6, 3), 149, 37}, {c02LogSpace(), 251, 59}, {iosIntfSpace(), 5, 1}, {iosCryptoSpace(), 1, 1}, {routePairSpace("IOS"), 257, 61},
		{iosRawBlocksSpace("raw-blocks", c02Lines, 5, 3), 17, 5}, {noiseSpace("ASA"), 13, 3}} {
		for i := int64(2); i < sp.s.n; i += stride(sp.q, sp.t) {
			a, b := sp.s.gen(i)
			add(fmt.Sprintf("%s-%s:%d", strings.ToLower(sp.s.model), sp.s.name, i), sp.s.model, a, b)
		}
	}
	for _, sp := range []struct {
		s    *linSpace
		q, t int64
	}{{linuxRuleSpace("rules", 22, 2), 211, 53}, {linuxStructSpace(), 7, 2}} {
		for i := int64(1); i < sp.s.n; i += stride(sp.q, sp.t) {
			a, b := sp.s.gen(i)
			add(fmt.Sprintf("linux-%s:%d", sp.s.name, i), "Linux", core.Files{Main: a}, b)
		}
	}
	for _, sp := range []struct {
		s    *panSpace
		q, t int64
	}{{panRuleSpace("rules", 6, 2), 7, 2}, {panSvcSpace(), 5, 1}, {panVsysSpace(), 1, 1}} {
		for i := int64(1); i < sp.s.n; i += stride(sp.q, sp.t) {
			a, b := sp.s.gen(i)
			add(fmt.Sprintf("panos-%s:%d", sp.s.name, i), "PAN-OS", core.Files{Main: a}, b)
		}
	}
	for _, sp := range []struct {
		s    *nsxSpace
		q, t int64
	}{{nsxRuleSpace("rules", 8), 257, 61}, {nsxServiceSpace(), 1, 1}, {nsxPolicySpace(), 1, 1}} {
		for i := int64(1); i < sp.s.n; i += stride(sp.q, sp.t) {
			a, b := sp.s.gen(i)
			add(fmt.Sprintf("nsx-%s:%d", sp.s.name, i), "NSX", core.Files{Main: a}, b)
		}
	}
	return l
}

func c16Worker(ctx *core.Ctx) *core.Result {
	res := core.NewResult()
	scr := core.NewScratch("C16")
	defer scr.Close()
	inputs := c16Inputs(ctx.Thorough())
	sitesHit := map[string]bool{}
	for ii, in := range inputs {
		if !ctx.Mine(int64(ii)) {
			continue
		}
		if ctx.Expired() {
			res.Incomplete = append(res.Incomplete, fmt.Sprintf("deadline at input %d of %d", ii, len(inputs)))
			break
		}
		run := func(perm func(idx int, site string, n int) []int) core.Outcome {
			verifmap.Reset()
			verifmap.Perm = perm
			return scr.Compare(in.model, in.a, in.b)
		}
		base := run(nil)
		trace := append([]verifmap.Occurrence(nil), verifmap.Trace...)
		res.Evaluations++
		res.Count("inputs", 1)
		res.Count("dynamic_occurrences", int64(len(trace)))
		if len(res.Samples) < 2 && len(trace) > 20 {
			res.Sample(map[string]any{"input": in.name, "occurrences": len(trace), "first_sites": trace[:5]})
		}
		reported := map[string]bool{}
		for j, occ := range trace {
			if occ.N < 2 {
				continue
			}
			sitesHit[occ.Site] = true
			for _, p := range perms(occ.N) {
				pp := p
				out := run(func(idx int, site string, n int) []int {
					if idx == j && n == len(pp) {
						return pp
					}
					return nil
				})
				res.Evaluations++
				res.Nontrivial++
				if out.Stdout != base.Stdout || out.Stderr != base.Stderr || out.Status != base.Status {
					res.Outcome("differs:" + occ.Site)
					if reported[occ.Site] {
						continue
					}
					reported[occ.Site] = true
					what := "script"
					if out.Stdout == base.Stdout {
						what = "messages"
					}
					if out.Status != base.Status {
						what = "exit-status"
					}
					res.AddViolation(core.Violation{Property: "C16", Engine: "mapx/" + strings.ToLower(in.model), Space: strings.SplitN(in.name, ":", 2)[0],
						Inputs: inputsOf(in.a, in.b), Events: []string{"input=" + in.name, fmt.Sprintf("occurrence=%d site=%s n=%d order=%v", j, occ.Site, occ.N, pp)},
						Oracle: "same-output-for-every-order", Signature: "order-dependent:" + siteFunc(occ.Site) + ":" + what,
						Message: fmt.Sprintf("iteration order %v at %s changes the %s\n--- canonical order\n%s%s\n--- permuted\n%s%s",
							pp, occ.Site, what, short(base.Stdout, 1200), short(base.Stderr, 400), short(out.Stdout, 1200), short(out.Stderr, 400))})
				} else {
					res.Outcome("same")
				}
			}
		}
		if ctx.Thorough() && !strings.HasPrefix(in.name, "corpus:") {
			// bound 2: pairs of occurrences, rotations only
			for j, oj := range trace {
				if oj.N < 2 {
					continue
				}
				for k := j + 1; k < len(trace); k++ {
					ok := trace[k]
					if ok.N < 2 {
						continue
					}
					pj, pk := perms(oj.N)[0], perms(ok.N)[0]
					out := run(func(idx int, site string, n int) []int {
						if idx == j && n == len(pj) {
							return pj
						}
						if idx == k && n == len(pk) {
							return pk
						}
						return nil
					})
					res.Evaluations++
					res.Count("pair_runs", 1)
					if out.Stdout != base.Stdout || out.Stderr != base.Stderr || out.Status != base.Status {
						key := oj.Site + "+" + ok.Site
						if reported[key] || reported[oj.Site] || reported[ok.Site] {
							continue
						}
						reported[key] = true
						res.AddViolation(core.Violation{Property: "C16", Engine: "mapx/" + strings.ToLower(in.model), Space: strings.SplitN(in.name, ":", 2)[0],
							Inputs: inputsOf(in.a, in.b), Events: []string{"input=" + in.name, fmt.Sprintf("occurrences %d,%d", j, k)},
							Oracle: "same-output-for-every-order", Signature: "order-dependent-pair:" + siteFunc(oj.Site) + "+" + siteFunc(ok.Site),
							Message: "two permuted occurrences change the output"})
					}
				}
			}
		}
	}
	verifmap.Perm = nil
	for s := range sitesHit {
		res.Count("site_exercised:"+s, 1)
	}
	return res
}

// siteFunc drops the line number of a site (stable across edits).
func siteFunc(site string) string {
	w := strings.Split(site, ":")
	if len(w) >= 2 {
		return w[0] + ":" + w[1]
	}
	return site
}

func init() { Workers["C16"] = c16Worker }
