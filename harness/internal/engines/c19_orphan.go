package engines

import (
	"fmt"
	"os"
	"os/exec"
	"path/filepath"
	"strconv"
	"syscall"
	"time"

	"verif/harness/internal/core"
	"verif/harness/internal/corpus"
)

// C19, kill of newpolicy.sh alone: a SIGKILL that hits only the script
// (kill <pid>, a lost terminal) while the command 'netspoc' runs leaves
// the compiler alive; it goes on writing into policies/next.  The events
// of the BFS kill the whole process group; here the compiler stub kills
// its parent shell itself, then waits (a compile takes minutes), and the
// explorer places the next invocation - after one more good commit - at
// every position relative to the rest of the orphaned compile.

const c19OrphanNetspoc = `#!/bin/bash
# stub of the Netspoc compiler: netspoc SRC CODE (reads its input first)
SRC=$1
CODE=$2
if [ -e "$SRC/BAD" ]; then
  echo "Error: syntax error in $SRC/BAD"
  exit 1
fi
V=$(cat "$SRC/data")
mkdir -p "$CODE"
wait_for() { while [ ! -e "$VERIF_CTRL/$1" ]; do sleep 0.01; done; }
if mkdir "$VERIF_CTRL/orphan-role" 2>/dev/null; then
  # first compile of the scenario: its shell is killed, the compile goes on
  if [ "$VERIF_ORPHAN_AFTER" = 0 ]; then kill -KILL $PPID; : > "$VERIF_CTRL/orphan-paused"; wait_for orphan-resume; fi
  echo "$V" > "$CODE/router"
  echo '{"model":"Linux"}' > "$CODE/router.info"
  if [ "$VERIF_ORPHAN_AFTER" = 1 ]; then kill -KILL $PPID; : > "$VERIF_CTRL/orphan-paused"; wait_for orphan-resume; fi
  echo "$V" > "$CODE/.compiled"
  : > "$VERIF_CTRL/orphan-done"
  exit 0
fi
echo "$V" > "$CODE/router"
echo '{"model":"Linux"}' > "$CODE/router.info"
echo "$V" > "$CODE/.compiled"
: > "$VERIF_CTRL/second-paused"
wait_for second-resume
exit 0
`

func c19WaitFile(p string, d time.Duration) bool {
	for end := time.Now().Add(d); time.Now().Before(end); time.Sleep(5 * time.Millisecond) {
		if exists(p) {
			return true
		}
	}
	return false
}

// startNewpolicy starts newpolicy.sh without hook and returns at once.
func (b *c19Box) startNewpolicy(extraEnv ...string) (*exec.Cmd, chan int) {
	cmd := exec.Command(corpus.RepoDir + "/bin/newpolicy.sh")
	cmd.Dir = b.dir
	cmd.Env = append(append([]string{}, b.env...), "VERIF_CTRL="+filepath.Join(b.dir, "ctrl"))
	cmd.Env = append(cmd.Env, extraEnv...)
	cmd.SysProcAttr = &syscall.SysProcAttr{Setpgid: true}
	done := make(chan int, 1)
	if err := cmd.Start(); err != nil {
		done <- -1
		return cmd, done
	}
	go func() {
		err := cmd.Wait()
		if ee, ok := err.(*exec.ExitError); ok {
			if ws, ok := ee.Sys().(syscall.WaitStatus); ok && ws.Signaled() {
				done <- -9
				return
			}
			done <- ee.ExitCode()
			return
		}
		done <- 0
	}()
	return cmd, done
}

func c19Orphan(ctx *core.Ctx, res *core.Result) {
	base, _ := os.MkdirTemp("/dev/shm", "verif-c19orph-")
	defer os.RemoveAll(base)
	n := 0
	for _, init := range [][]string{{}, {"run"}} {
		for after := 0; after <= 1; after++ {
			n++
			hist := append(append([]string{}, init...), "commit-good", fmt.Sprintf("run: shell killed alone inside 'netspoc' (compiler has written %d of its 2 parts)", after),
				"commit-good", "run while the orphaned compiler is alive")
			box, err := newC19Box(filepath.Join(base, "b"+strconv.Itoa(n)))
			if err == nil {
				err = box.replay(init)
			}
			if err != nil {
				res.Broken = append(res.Broken, "orphan scenario: "+err.Error())
				return
			}
			ctrl := filepath.Join(box.dir, "ctrl")
			box.commit("commit-good")
			os.WriteFile(filepath.Join(box.dir, "bin", "netspoc"), []byte(c19OrphanNetspoc), 0755)
			before := box.observe()
			maxBefore := box.maxN
			run1, done1 := box.startNewpolicy("VERIF_ORPHAN_AFTER=" + strconv.Itoa(after))
			cleanup := func(cmds ...*exec.Cmd) {
				for _, c := range cmds {
					if c != nil && c.Process != nil {
						syscall.Kill(-c.Process.Pid, syscall.SIGKILL)
					}
				}
			}
			if !c19WaitFile(filepath.Join(ctrl, "orphan-paused"), 60*time.Second) {
				cleanup(run1)
				res.Broken = append(res.Broken, "orphan scenario: the compiler stub was never started")
				return
			}
			if e := <-done1; e != -9 {
				cleanup(run1)
				res.Broken = append(res.Broken, fmt.Sprintf("orphan scenario: the first run was not killed (exit %d)", e))
				return
			}
			box.commit("commit-good")
			run2, done2 := box.startNewpolicy()
			res.Transitions += 2
			res.Evaluations++
			res.Nontrivial++
			var exit2 int
			ended := false
			for end := time.Now().Add(120 * time.Second); time.Now().Before(end); time.Sleep(5 * time.Millisecond) {
				select {
				case exit2 = <-done2:
					ended = true
				default:
				}
				if ended || exists(filepath.Join(ctrl, "second-paused")) {
					break
				}
			}
			switch {
			case ended && exit2 == 1:
				// refused: the orphaned compiler still holds the lock
				res.Outcome("run beside an orphaned compiler: refused")
				if sig, msg := box.invariants(box.observe(), before, maxBefore); sig != "" {
					c19Violation(res, hist, sig+":orphan", msg)
				}
			case ended:
				c19Violation(res, hist, "run-beside-orphaned-compiler:exit="+strconv.Itoa(exit2),
					fmt.Sprintf("a run started while the compiler of the killed run is still working on policies/next ended with exit status %d (1 = lock held expected)", exit2))
			case exists(filepath.Join(ctrl, "second-paused")):
				// both compile into policies/next: let the old compile finish
				// last, then the new run
				os.WriteFile(filepath.Join(ctrl, "orphan-resume"), nil, 0644)
				c19WaitFile(filepath.Join(ctrl, "orphan-done"), 60*time.Second)
				os.WriteFile(filepath.Join(ctrl, "second-resume"), nil, 0644)
				select {
				case exit2 = <-done2:
				case <-time.After(120 * time.Second):
					exit2 = -2
				}
				st := box.observe()
				sig, msg := box.invariants(st, before, maxBefore)
				c19Violation(res, append(hist, "the old compile finishes, then the new run"), "two-runs-work-on-the-database:orphaned-compiler",
					fmt.Sprintf("the second run got the lock and compiled into policies/next while the compiler of the killed run was still writing there (second run exit=%d); afterwards: %s %s %s", exit2, st.canon(), sig, msg))
				cleanup(run1, run2)
				continue
			default:
				cleanup(run1, run2)
				res.Broken = append(res.Broken, "orphan scenario: second run neither ended nor reached its compile")
				return
			}
			// the old compile ends; the next undisturbed run must catch up
			os.WriteFile(filepath.Join(ctrl, "orphan-resume"), nil, 0644)
			if !c19WaitFile(filepath.Join(ctrl, "orphan-done"), 60*time.Second) {
				cleanup(run1, run2)
				res.Broken = append(res.Broken, "orphan scenario: the orphaned compiler did not finish")
				return
			}
			// (its process has to be gone before the lock is free)
			for i := 0; i < 400 && syscall.Kill(-run1.Process.Pid, 0) == nil; i++ {
				time.Sleep(5 * time.Millisecond)
			}
			os.WriteFile(filepath.Join(ctrl, "second-resume"), nil, 0644)
			_, done3 := box.startNewpolicy()
			exit3 := <-done3
			res.Transitions++
			st := box.observe()
			full := append(hist, "the orphaned compile ends", "run")
			if sig, msg := box.invariants(st, before, maxBefore); sig != "" {
				c19Violation(res, full, sig+":orphan", msg)
			} else if cur := readTrim(filepath.Join(box.dir, "base", "policies", st.Current, "src", "data")); exit3 != 0 || st.Current == "" || cur != st.RemoteData {
				c19Violation(res, full, "next-run-does-not-catch-up:orphan", fmt.Sprintf("exit=%d state=%s", exit3, st.canon()))
			} else {
				res.Outcome("after the orphaned compile: next run makes the newest revision current")
			}
			cleanup(run1, run2)
		}
	}
	res.Count("orphaned_compiler_scenarios", int64(n))
}
