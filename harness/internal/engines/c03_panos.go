package engines

import (
	"fmt"
	"sort"
	"strings"
	"time"

	"verif/harness/internal/core"
	"verif/harness/internal/corpus"
	"verif/harness/internal/panmodel"
)

// ---------------------------------------------------------------------
// generator

type panRuleT struct {
	action, from, to string
	src, dst, srv    []string
	extra            string
}

var panRules = []panRuleT{
	{"allow", "z1", "z2", []string{"a1"}, []string{"a3"}, []string{"tcp 80"}, ""},
	{"allow", "z1", "z2", []string{"g1"}, []string{"a3"}, []string{"tcp 80"}, ""},
	{"deny", "z1", "z2", []string{"a1"}, []string{"a3"}, []string{"tcp 80"}, ""},
	{"allow", "z2", "z1", []string{"a1", "a2"}, []string{"g2"}, []string{"tcp 80", "udp 53"}, ""},
	{"allow", "z1", "z2", []string{"any"}, []string{"a4"}, []string{"any"}, ""},
	{"allow", "z1", "z2", []string{"a1"}, []string{"a3"}, []string{"tcp 80"}, "<description>x</description>"},
	{"allow", "z1", "z2", []string{"a2"}, []string{"g1"}, []string{"sg1"}, ""},
}

var panAddr = map[string]string{"a1": "10.1.1.1/32", "a2": "10.1.1.2/32", "a3": "10.1.3.0/24",
	"a4": "10.1.4.0/24", "a5": "10.1.5.0/24"}

type panVsysT struct {
	name   string
	rules  []panRuleT
	names  []string            // rule names
	groups map[string][]string // address-groups
	addrs  map[string]string   // overrides / extra addresses
	sgroup map[string][]string
	extra  string // extra XML inside vsys
	svcIn  map[string]string // service name -> extra XML inside its <tcp>/<udp> element
	svcOut map[string]string // service name -> extra XML beside <protocol>
	svcDef map[string]string // service name -> "proto port" when the name does not say it
}

func defaultGroups() map[string][]string {
	return map[string][]string{"g1": {"a1", "a2"}, "g2": {"a2", "a3"}}
}

func sortedKeys[T any](m map[string]T) []string {
	var l []string
	for k := range m {
		l = append(l, k)
	}
	// small maps: insertion sort
	for i := 1; i < len(l); i++ {
		for j := i; j > 0 && l[j] < l[j-1]; j-- {
			l[j], l[j-1] = l[j-1], l[j]
		}
	}
	return l
}

func members(l []string) string {
	var b strings.Builder
	for _, m := range l {
		b.WriteString("<member>" + m + "</member>")
	}
	return b.String()
}

// panVsysXML renders a vsys; only objects that are used (or listed in
// v.groups / v.addrs explicitly) are defined.
func panVsysXML(v panVsysT) string {
	usedAddr := map[string]bool{}
	usedGrp := map[string]bool{}
	usedSvc := map[string]bool{}
	usedSG := map[string]bool{}
	groups := v.groups
	if groups == nil {
		groups = defaultGroups()
	}
	sgroups := v.sgroup
	if sgroups == nil {
		sgroups = map[string][]string{"sg1": {"tcp 80", "udp 53"}}
	}
	var markA func(n string)
	markA = func(n string) {
		if n == "any" {
			return
		}
		if ms, ok := groups[n]; ok {
			usedGrp[n] = true
			for _, m := range ms {
				markA(m)
			}
			return
		}
		usedAddr[n] = true
	}
	markS := func(n string) {
		if n == "any" || n == "application-default" {
			return
		}
		if ms, ok := sgroups[n]; ok {
			usedSG[n] = true
			for _, m := range ms {
				usedSvc[m] = true
			}
			return
		}
		usedSvc[n] = true
	}
	var b strings.Builder
	fmt.Fprintf(&b, `<entry name="%s">`, v.name)
	b.WriteString(v.extra)
	b.WriteString("<rulebase><security><rules>")
	for i, r := range v.rules {
		name := fmt.Sprintf("r%d", i+1)
		if v.names != nil {
			name = v.names[i]
		}
		for _, n := range r.src {
			markA(n)
		}
		for _, n := range r.dst {
			markA(n)
		}
		for _, n := range r.srv {
			markS(n)
		}
		fmt.Fprintf(&b, `<entry name="%s"><action>%s</action><from><member>%s</member></from><to><member>%s</member></to>`+
			`<source>%s</source><destination>%s</destination><service>%s</service>`+
			`<application><member>any</member></application><rule-type>interzone</rule-type><log-start>yes</log-start><log-end>yes</log-end>%s</entry>`,
			name, r.action, r.from, r.to, members(r.src), members(r.dst), members(r.srv), r.extra)
	}
	b.WriteString("</rules></security></rulebase>")
	// explicit extras
	for n := range v.addrs {
		usedAddr[n] = true
	}
	if v.groups != nil {
		for n, ms := range v.groups {
			usedGrp[n] = true
			for _, m := range ms {
				markA(m)
			}
		}
	}
	if len(usedGrp) > 0 {
		b.WriteString("<address-group>")
		for _, n := range sortedKeys(usedGrp) {
			fmt.Fprintf(&b, `<entry name="%s"><static>%s</static></entry>`, n, members(groups[n]))
		}
		b.WriteString("</address-group>")
	}
	if len(usedAddr) > 0 {
		b.WriteString("<address>")
		for _, n := range sortedKeys(usedAddr) {
			ip := panAddr[n]
			if o, ok := v.addrs[n]; ok {
				ip = o
			}
			if strings.HasPrefix(ip, "<") {
				fmt.Fprintf(&b, `<entry name="%s">%s</entry>`, n, ip)
			} else {
				fmt.Fprintf(&b, `<entry name="%s"><ip-netmask>%s</ip-netmask></entry>`, n, ip)
			}
		}
		b.WriteString("</address>")
	}
	if len(usedSG) > 0 {
		b.WriteString("<service-group>")
		for _, n := range sortedKeys(usedSG) {
			fmt.Fprintf(&b, `<entry name="%s"><members>%s</members></entry>`, n, members(sgroups[n]))
		}
		b.WriteString("</service-group>")
	}
	if len(usedSvc) > 0 {
		b.WriteString("<service>")
		for _, n := range sortedKeys(usedSvc) {
			proto, port, _ := strings.Cut(n, " ")
			if d, ok := v.svcDef[n]; ok {
				proto, port, _ = strings.Cut(d, " ")
			}
			fmt.Fprintf(&b, `<entry name="%s"><protocol><%s><port>%s</port>%s</%s></protocol>%s</entry>`, n, proto, port, v.svcIn[n], proto, v.svcOut[n])
		}
		b.WriteString("</service>")
	}
	b.WriteString("</entry>")
	return b.String()
}

func panConfig(vs ...panVsysT) string {
	var b strings.Builder
	b.WriteString(`<config><devices><entry name="localhost.localdomain"><deviceconfig><system><hostname>router</hostname></system></deviceconfig><vsys>`)
	for _, v := range vs {
		b.WriteString(panVsysXML(v))
	}
	b.WriteString("</vsys></entry></devices></config>\n")
	return b.String()
}

type panSpace struct {
	name string
	n    int64
	gen  func(i int64) (a string, b core.Files)
}

func panRuleSpace(name string, nRules, maxLen int) *panSpace {
	sq := seqs(nRules, 0, maxLen)
	nb := int64(len(sq))
	mk := func(s []int) []panRuleT {
		var l []panRuleT
		for _, i := range s {
			l = append(l, panRules[i])
		}
		return l
	}
	return &panSpace{name: name, n: nb * nb, gen: func(i int64) (string, core.Files) {
		return panConfig(panVsysT{name: "vsys1", rules: mk(sq[i/nb])}),
			core.Files{Main: panConfig(panVsysT{name: "vsys1", rules: mk(sq[i%nb])})}
	}}
}

// objects: one or two rules referencing a group; member sets over 5
// addresses on both sides; naming and value variants.
func panObjSpace(name string, universe int) *panSpace {
	nsub := int64(1<<uint(universe)) - 1
	const variants = 6
	all := []string{"a1", "a2", "a3", "a4", "a5"}
	set := func(mask int) []string {
		var l []string
		for i := 0; i < universe; i++ {
			if mask&(1<<uint(i)) != 0 {
				l = append(l, all[i])
			}
		}
		return l
	}
	return &panSpace{name: name, n: nsub * nsub * variants, gen: func(i int64) (string, core.Files) {
		dm := int(i%nsub) + 1
		i /= nsub
		tm := int(i%nsub) + 1
		i /= nsub
		variant := int(i)
		r := panRuleT{"allow", "z1", "z2", []string{"gx"}, []string{"a3"}, []string{"tcp 80"}, ""}
		r2 := panRuleT{"allow", "z2", "z1", []string{"a3"}, []string{"gx"}, []string{"tcp 80"}, ""}
		dev := panVsysT{name: "vsys1", rules: []panRuleT{r}, groups: map[string][]string{"gx": set(dm)}}
		tgt := panVsysT{name: "vsys1", rules: []panRuleT{r}, groups: map[string][]string{"gx": set(tm)}}
		switch variant {
		case 1: // renamed on device
			rd := r
			rd.src = []string{"gdev"}
			dev = panVsysT{name: "vsys1", rules: []panRuleT{rd}, groups: map[string][]string{"gdev": set(dm)}}
		case 2: // device group shared by two rules, target uses two groups
			dev.rules = []panRuleT{r, r2}
			r2t := r2
			r2t.dst = []string{"gy"}
			tgt.rules = []panRuleT{r, r2t}
			tgt.groups = map[string][]string{"gx": set(tm), "gy": set(dm)}
		case 3: // address with equal name, other value
			dev.addrs = map[string]string{"a1": "10.9.9.9/32"}
		case 4: // address differing in an unknown child element only
			dev.addrs = map[string]string{"a1": "<ip-netmask>10.1.1.1/32</ip-netmask><description>old</description>"}
		case 5: // left-over group with the name the target uses, other content
			rd := r
			rd.src = []string{"gdev"}
			dev = panVsysT{name: "vsys1", rules: []panRuleT{rd},
				groups: map[string][]string{"gdev": set(dm), "gx": {"a5"}}}
		}
		return panConfig(dev), core.Files{Main: panConfig(tgt)}
	}}
}

// shared: two device rules with their own address-groups (all member sets
// over 5 addresses); the target uses one group in both rules.  Whether
// each device group is edited incrementally, replaced, or the new group
// is transferred depends on the distance of each device group.
func panSharedSpace() *panSpace { return panSharedSpaceN(5) }

func panSharedSpaceN(universe int) *panSpace {
	nsub := int64(1<<uint(universe)) - 1
	all := []string{"a1", "a2", "a3", "a4", "a5"}
	set := func(mask int) []string {
		var l []string
		for i := 0; i < universe; i++ {
			if mask&(1<<uint(i)) != 0 {
				l = append(l, all[i])
			}
		}
		return l
	}
	return &panSpace{name: "shared", n: nsub * nsub * nsub * 2, gen: func(i int64) (string, core.Files) {
		order := int(i % 2)
		i /= 2
		d1 := int(i%nsub) + 1
		i /= nsub
		d2 := int(i%nsub) + 1
		i /= nsub
		tm := int(i) + 1
		r1 := panRuleT{"allow", "z1", "z2", []string{"gd1"}, []string{"a3"}, []string{"tcp 80"}, ""}
		r2 := panRuleT{"allow", "z2", "z1", []string{"a3"}, []string{"gd2"}, []string{"tcp 80"}, ""}
		t1, t2 := r1, r2
		t1.src, t2.dst = []string{"gx"}, []string{"gx"}
		dev := panVsysT{name: "vsys1", rules: []panRuleT{r1, r2}, groups: map[string][]string{"gd1": set(d1), "gd2": set(d2)}}
		tgt := panVsysT{name: "vsys1", rules: []panRuleT{t1, t2}, groups: map[string][]string{"gx": set(tm)}}
		if order == 1 {
			dev.rules = []panRuleT{r2, r1}
			tgt.rules = []panRuleT{t2, t1}
		}
		return panConfig(dev), core.Files{Main: panConfig(tgt)}
	}}
}

// two-groups: two rules that each use an address-group as source and as
// destination; device references over {gA,gB}, target references over
// {gA,gB,gC} with changed or unchanged contents.
func panTwoGroupSpace() *panSpace {
	names := []string{"gA", "gB", "gC"}
	contA := [][]string{{"a1", "a2"}, {"a1", "a2", "a3"}}
	contB := [][]string{{"a3", "a4"}, {"a3"}}
	contC := [][]string{{"a1", "a2"}, {"a5"}}
	const nd, nt = 16, 81
	used := func(rs []panRuleT, all map[string][]string) map[string][]string {
		m := map[string][]string{}
		for _, r := range rs {
			for _, n := range append(append([]string{}, r.src...), r.dst...) {
				if c, ok := all[n]; ok {
					m[n] = c
				}
			}
		}
		return m
	}
	return &panSpace{name: "two-groups", n: nd * nt * 8, gen: func(i int64) (string, core.Files) {
		cv := int(i % 8)
		i /= 8
		t := int(i % nt)
		d := int(i / nt)
		mk := func(x1, y1, x2, y2 string) []panRuleT {
			return []panRuleT{{"allow", "z1", "z2", []string{x1}, []string{y1}, []string{"tcp 80"}, ""},
				{"allow", "z2", "z1", []string{x2}, []string{y2}, []string{"tcp 80"}, ""}}
		}
		dr := mk(names[d%2], names[d/2%2], names[d/4%2], names[d/8%2])
		tr := mk(names[t%3], names[t/3%3], names[t/9%3], names[t/27%3])
		dev := panVsysT{name: "vsys1", rules: dr, groups: used(dr, map[string][]string{"gA": contA[0], "gB": contB[0]})}
		tgt := panVsysT{name: "vsys1", rules: tr, groups: used(tr, map[string][]string{"gA": contA[cv%2], "gB": contB[cv/2%2], "gC": contC[cv/4%2]})}
		return panConfig(dev), core.Files{Main: panConfig(tgt)}
	}}
}

// services and service groups
func panSvcSpace() *panSpace {
	type sv struct {
		srv    []string
		sgroup map[string][]string
	}
	vars := []sv{
		{[]string{"tcp 80"}, nil},
		{[]string{"tcp 81"}, nil},
		{[]string{"tcp 80", "udp 53"}, nil},
		{[]string{"sg1"}, map[string][]string{"sg1": {"tcp 80", "udp 53"}}},
		{[]string{"sg1"}, map[string][]string{"sg1": {"tcp 80"}}},
		{[]string{"any"}, nil},
		{[]string{"application-default"}, nil},
		// the group's members carry other names for the same definitions
		{[]string{"sg1"}, map[string][]string{"sg1": {"TCP-80-HTTP", "udp 53"}}},
		{[]string{"sg1"}, map[string][]string{"sg1": {"TCP-80-HTTP", "UDP-53-DNS"}}},
		{[]string{"TCP-80-HTTP"}, nil},
	}
	// definition variants of the service 'tcp 80' itself
	// (the last two: the name 'tcp 80' defined with a protocol element the
	// tool does not know, with two different ports)
	type defT struct{ in, out, def string }
	defs := []defT{{"", "", ""}, {"<source-port>1024-65535</source-port>", "", ""}, {"<override><yes><timeout>30</timeout></yes></override>", "", ""},
		{"", "<description>web</description>", ""}, {"<source-port>1024-65535</source-port>", "<description>web</description>", ""},
		{"", "", "sctp 2905"}, {"", "", "sctp 2906"}}
	n := int64(len(vars))
	nd := int64(len(defs))
	return &panSpace{name: "svc", n: n * n * nd * nd, gen: func(i int64) (string, core.Files) {
		da, db := defs[i%nd], defs[i/nd%nd]
		i /= nd * nd
		mk := func(v sv, d defT) string {
			r := panRuleT{"allow", "z1", "z2", []string{"a1"}, []string{"a3"}, v.srv, ""}
			sd := map[string]string{"TCP-80-HTTP": "tcp 80", "UDP-53-DNS": "udp 53"}
			if d.def != "" {
				sd["tcp 80"] = d.def
			}
			return panConfig(panVsysT{name: "vsys1", rules: []panRuleT{r}, sgroup: v.sgroup,
				svcDef: sd,
				svcIn: map[string]string{"tcp 80": d.in}, svcOut: map[string]string{"tcp 80": d.out}})
		}
		return mk(vars[i/n], da), core.Files{Main: mk(vars[i%n], db)}
	}}
}

// service-group member order: the same member set in every order on both
// sides (a firewall keeps the order in which members were added)
func panSvcOrderSpace() *panSpace {
	all := []string{"tcp 80", "udp 53", "tcp 81"}
	var lists [][]string
	for _, sub := range subsets(3) {
		if len(sub) == 0 {
			continue
		}
		for _, p := range perms(len(sub)) {
			var l []string
			for _, i := range p {
				l = append(l, all[sub[i]])
			}
			lists = append(lists, l)
		}
		// perms() leaves out the identity
		var l []string
		for _, i := range sub {
			l = append(l, all[i])
		}
		lists = append(lists, l)
	}
	n := int64(len(lists))
	return &panSpace{name: "svc-order", n: n * n, gen: func(i int64) (string, core.Files) {
		mk := func(ms []string) string {
			r := panRuleT{"allow", "z1", "z2", []string{"a1"}, []string{"a3"}, []string{"sg1"}, ""}
			return panConfig(panVsysT{name: "vsys1", rules: []panRuleT{r}, sgroup: map[string][]string{"sg1": ms}})
		}
		a, b := lists[i/n], lists[i%n]
		if setOfStrings(a) != setOfStrings(b) {
			// other member sets: space "svc"
			b = a
		}
		return mk(a), core.Files{Main: mk(b)}
	}}
}

func setOfStrings(l []string) string {
	c := append([]string(nil), l...)
	sort.Strings(c)
	return strings.Join(c, ",")
}

// several vsys
func panVsysSpace() *panSpace {
	rs := [][]panRuleT{{}, {panRules[0]}, {panRules[1], panRules[2]}}
	// device: vsys1 x vsys2 rule sets (3x3); target: subset of {vsys1,vsys2,vsys3} each with rule set
	type tv struct{ v1, v2, v3 int } // -1 absent
	var tvs []tv
	for a := -1; a < 3; a++ {
		for b := -1; b < 3; b++ {
			tvs = append(tvs, tv{a, b, -1})
		}
	}
	tvs = append(tvs, tv{1, -1, 1})
	nb := int64(len(tvs))
	return &panSpace{name: "vsys", n: 9 * nb, gen: func(i int64) (string, core.Files) {
		d := int(i / nb)
		t := tvs[i%nb]
		dev := panConfig(panVsysT{name: "vsys1", rules: rs[d/3], extra: "<display-name>netspoc 1</display-name>"},
			panVsysT{name: "vsys2", rules: rs[d%3], extra: "<display-name>other</display-name>"})
		var l []panVsysT
		if t.v1 >= 0 {
			l = append(l, panVsysT{name: "vsys1", rules: rs[t.v1]})
		}
		if t.v2 >= 0 {
			l = append(l, panVsysT{name: "vsys2", rules: rs[t.v2]})
		}
		if t.v3 >= 0 {
			l = append(l, panVsysT{name: "vsys3", rules: rs[t.v3]})
		}
		return dev, core.Files{Main: panConfig(l...)}
	}}
}

func panCorpusSpace() *panSpace {
	sp := corpusSpace("PAN-OS")
	return &panSpace{name: "corpus", n: sp.n, gen: func(i int64) (string, core.Files) {
		a, b := sp.gen(i)
		return a.Main, b
	}}
}

// ---------------------------------------------------------------------

type panx struct {
	ctx   *core.Ctx
	res   *core.Result
	sc    *core.Scratch
	prop  string
	conv  bool
	exec  bool
	cuts  bool
	frame bool
	seen  map[string]struct{}
}

func (x *panx) visit(m *panmodel.Dev) {
	k := m.Devices.String()
	if _, ok := x.seen[k]; !ok {
		x.seen[k] = struct{}{}
		x.res.States++
	}
}

func (x *panx) violation(sp *panSpace, idx int64, a string, b core.Files, script []string, step int, oracle, sig, msg string) {
	x.res.AddViolation(core.Violation{Property: x.prop, Engine: "approvex/panos", Space: sp.name,
		Index: idx, Inputs: inputsOf(core.Files{Main: a}, b), Script: script, Step: step,
		Oracle: oracle, Signature: sig, Message: msg})
}

func targetVsysNames(tb *panmodel.Dev) map[string]bool {
	m := map[string]bool{}
	for _, v := range tb.Vsys() {
		m[v.Name] = true
	}
	return m
}

func (x *panx) runCase(sp *panSpace, idx int64, a string, b core.Files, tag string) *panmodel.Dev {
	res := x.res
	res.Evaluations++
	out := x.sc.Compare("PAN-OS", core.Files{Main: a}, b)
	switch out.Status {
	case 1:
		res.Count("rejected_by_tool", 1)
		res.Outcome("rejected:" + short(firstLine(out.Stderr), 50))
		if tag != "" {
			// a state with nested address-groups belongs to the mechanism of
			// F-C08-panos-nested-groups (the tool's own script can make a
			// group a member of itself, which the next run refuses to read)
			nested := ""
			if m, err := panmodel.Load(a); err == nil && m.HasNestedGroups() {
				nested = ":nested-groups"
			}
			x.violation(sp, idx, a, b, nil, 0, "resume-accepted", tag+"rejected"+nested, out.Stderr)
		}
		return nil
	case 2:
		res.Count("tool_panic", 1)
		if sp.name != "corpus" || tag != "" { // corpus inputs may be malformed on purpose: C20's matter
			x.violation(sp, idx, a, b, nil, 0, "no-panic", tag+"panic:"+out.Site, out.Panic)
		}
		return nil
	}
	res.Transitions++
	script := out.Script()
	if len(script) > 0 {
		res.Nontrivial++
	}
	res.Outcome(fmt.Sprintf("cmds=%d", len(script)))
	if len(res.Samples) < 3 && len(script) > 2 {
		res.Sample(map[string]any{"space": sp.name, "index": idx, "script": script})
	}
	m, err := panmodel.Load(a)
	if err != nil {
		res.Count("device_not_loadable_by_model", 1)
		return nil
	}
	x.visit(m)
	multipart := b.V6 != "" || b.Raw != ""
	tb, err := panmodel.Load(b.Main)
	if err != nil {
		res.Count("target_not_loadable_by_model", 1)
		return nil
	}
	managed := targetVsysNames(tb)
	// names the target references without defining them are <shared> objects
	for n := range panmodel.SharedNames(b.Main, b.V6, b.Raw) {
		m.Shared[n] = true
	}
	nestedTag := ""
	if m.HasNestedGroups() || tb.HasNestedGroups() || strings.Contains(b.Raw, "<address-group>") && func() bool {
		r, e := panmodel.Load(b.Raw)
		return e == nil && r.HasNestedGroups()
	}() {
		nestedTag = ":nested-groups"
	}
	outsideBefore := m.Outside(managed)
	if x.cuts && tag == "" {
		cm := m.Clone()
		for k := 0; k+1 < len(script); k++ {
			if err := cm.Exec(script[k]); err != nil {
				break
			}
			res.Count("cut_states", 1)
			x.visit(cm)
			x.cuts = false
			x.conv, x.exec = true, true
			x.runCase(sp, idx*1000+int64(k+1), cm.Print(), b, "cut:")
			x.cuts = true
			x.conv, x.exec = false, false
		}
		return nil
	}
	for i, cmd := range script {
		if err := m.Exec(cmd); err != nil {
			if x.exec || x.conv {
				x.violation(sp, idx, a, b, script, i, "exec-accept", tag+"exec:"+execSig(err)+nestedTag,
					fmt.Sprintf("command %q: %v", cmd, err))
			} else {
				res.Count("skipped_exec_error(see C08)", 1)
			}
			return nil
		}
		res.Count("commands_executed", 1)
		x.visit(m)
		if x.frame {
			if now := m.Outside(managed); now != outsideBefore {
				x.violation(sp, idx, a, b, script, i, "frame", "outside-vsys-changed",
					fmt.Sprintf("command %q changed configuration outside the targeted vsys", cmd))
				return nil
			}
		}
	}
	if x.conv {
		if multipart {
			res.Count("sem_skipped_parts", 1)
		} else {
			for name := range managed {
				got, want := m.SemVsys(name), tb.SemVsys(name)
				if strings.Join(got, "\n") != strings.Join(want, "\n") {
					nested := ""
					if m0, e := panmodel.Load(a); e == nil && (m0.HasNestedGroups() || tb.HasNestedGroups()) {
						nested = ":nested-groups"
					}
					x.violation(sp, idx, a, b, script, len(script), "sem-equal", tag+"sem-differs"+nested,
						fmt.Sprintf("rulebase of %s after script:\n%s\ntarget:\n%s", name,
							strings.Join(got, "\n"), strings.Join(want, "\n")))
					return nil
				}
			}
			if len(script) == 0 {
				m0, _ := panmodel.Load(a)
				for name := range managed {
					if strings.Join(m0.SemVsys(name), "\n") != strings.Join(tb.SemVsys(name), "\n") {
						x.violation(sp, idx, a, b, script, 0, "unchanged-only-if-equal", tag+"unchanged-but-different",
							fmt.Sprintf("no change reported but %s differs from target", name))
						return nil
					}
				}
			}
		}
		out2 := x.sc.Compare("PAN-OS", core.Files{Main: m.Print()}, b)
		res.Transitions++
		if out2.Status != 0 || len(out2.Script()) != 0 {
			x.violation(sp, idx, a, b, script, len(script), "second-compare-silent", tag+"second-compare",
				fmt.Sprintf("second compare not silent (status %d):\n%s%s", out2.Status, out2.Stdout, out2.Stderr))
			return nil
		}
	}
	return m
}

func (x *panx) run(spaces []*panSpace) {
	var base int64
	for _, sp := range spaces {
		var done int64
		for i := int64(0); i < sp.n; i++ {
			if !x.ctx.Mine(base + i) {
				continue
			}
			if done%128 == 0 && x.ctx.Expired() {
				x.res.Incomplete = append(x.res.Incomplete, fmt.Sprintf("deadline in panos space %s at %d/%d", sp.name, i, sp.n))
				return
			}
			a, b := sp.gen(i)
			x.runCase(sp, i, a, b, "")
			done++
		}
		x.res.Count("space:panos-"+sp.name, done)
		base += sp.n
	}
}

// chain of approves (shard 0)
func (x *panx) runChain() {
	if x.ctx.Shard != 0 {
		return
	}
	depth := 2
	if x.ctx.Thorough() {
		depth = 3
	}
	mk := func(s ...int) string {
		var l []panRuleT
		for _, i := range s {
			l = append(l, panRules[i])
		}
		return panConfig(panVsysT{name: "vsys1", rules: l})
	}
	inits := []string{mk(), mk(0, 1), mk(3, 6)}
	targets := []string{mk(1, 0), mk(0, 3, 4), mk(6, 1, 2), mk(5), mk(3, 1)}
	sp := &panSpace{name: "chain"}
	seen := map[string]bool{}
	frontier := inits
	for _, s := range inits {
		seen[s] = true
	}
	var serial int64
	for d := 1; d <= depth; d++ {
		var next []string
		for _, st := range frontier {
			for _, t := range targets {
				serial++
				after := x.runCase(sp, serial, st, core.Files{Main: t}, "")
				if after == nil {
					continue
				}
				p := after.Print()
				if !seen[p] {
					seen[p] = true
					next = append(next, p)
				}
			}
		}
		frontier = next
	}
	x.res.Count("chain_states_panos", int64(len(seen)))
}

func panSpaces(ctx *core.Ctx) []*panSpace {
	l := []*panSpace{panRuleSpace("rules", 6, 2), panObjSpace("objs", 4), panSharedSpace(), panTwoGroupSpace(), panSvcSpace(), panSvcOrderSpace(), panVsysSpace(), panCorpusSpace()}
	if ctx.Thorough() {
		l = append(l, panRuleSpace("rules-x", 7, 3), panObjSpace("objs-x", 5))
	}
	return l
}

func c03Worker(ctx *core.Ctx) *core.Result {
	x := &panx{ctx: ctx, res: core.NewResult(), sc: core.NewScratch("C03"), prop: "C03", conv: true, seen: map[string]struct{}{}}
	defer x.sc.Close()
	x.run(panSpaces(ctx))
	x.runChain()
	// targets made of IPv4 + IPv6 + raw parts for two vsys (shared with C18):
	// the device must reach the effective, merged target
	(&c18{ctx: ctx, res: x.res, sc: x.sc, prop: "C03"}).runPanosMulti()
	c03Wire(ctx, x.res)
	return x.res
}

// SelftestPanos: expected outputs of pan-os.t executed on the model.
func SelftestPanos() (ok, unsupported int, bad []string) {
	cases, err := corpus.Load()
	if err != nil {
		return 0, 0, []string{err.Error()}
	}
	for _, c := range cases {
		if c.Model != "PAN-OS" || c.Scenario != "" || c.Error != "" || c.Output == "" {
			continue
		}
		if c.Netspoc.V6 != "" || c.Netspoc.Raw != "" {
			unsupported++
			continue
		}
		m, err := panmodel.Load(c.Device)
		id := c.File + "/" + c.Title
		if err != nil {
			unsupported++
			continue
		}
		failed := false
		for i, cmd := range corpus.ExpectedScript(c.Output) {
			if err := m.Exec(cmd); err != nil {
				bad = append(bad, fmt.Sprintf("%s: model rejects expected command #%d %q: %v", id, i, short(cmd, 200), err))
				failed = true
				break
			}
		}
		if failed {
			continue
		}
		tb, err := panmodel.Load(c.Netspoc.Main)
		if err != nil {
			unsupported++
			continue
		}
		for name := range targetVsysNames(tb) {
			got, want := m.SemVsys(name), tb.SemVsys(name)
			if strings.Join(got, "\n") != strings.Join(want, "\n") {
				bad = append(bad, fmt.Sprintf("%s: vsys %s not Sem-equal after expected script:\n%s\n--target\n%s", id, name,
					strings.Join(got, "\n"), strings.Join(want, "\n")))
				failed = true
			}
		}
		if !failed {
			ok++
		}
	}
	return
}

func init() {
	registerSharded("C03", c03Worker, func(tier string) core.Meta {
		return core.Meta{ID: "C03", Level: "model_checking",
			Rule: "states = distinct candidate-configuration states of the PAN-OS model; enumerated: all pairs of rule sequences over a 6/7-rule alphabet (action, zones, source list, group, service, service-group, unknown attribute), all pairs of group member sets over 4/5 addresses x naming/value variants (renamed, shared, equal name other value, unknown child element, name clash with left-over), service variants, two-vsys structures, two-rule spaces shared and two-groups, targets of IPv4+IPv6+raw parts for two vsys (merged target, shared with C18), corpus product of pan-os.t, chain of approves; transition = real planner; each XML-API command (set/edit/delete/move) is executed on the model; oracle: ordered rules equal with addresses, groups, services expanded by value, second compare of the printed candidate config silent, empty script only for an equivalent vsys",
			Assumptions: []string{"PAN-OS model: set merges (members appended, new entries last), edit replaces the addressed node, delete fails on absent or referenced objects, move needs an existing destination",
				"commands are taken in the unescaped form the tool prints (names in the alphabets contain no '&' or '%')"},
			Bounds: map[string]any{"quick": "rules len<=2 over 6, groups over 4 addresses", "thorough": "rules len<=3 over 7, groups over 5 addresses"},
		}
	}, 170*time.Second, 30*time.Minute)
}

func init() {
	c08Extra = append(c08Extra, func(ctx *core.Ctx, res *core.Result) {
		x := &panx{ctx: ctx, res: res, sc: core.NewScratch("C08p"), prop: "C08", exec: true, seen: map[string]struct{}{}}
		defer x.sc.Close()
		x.run(panSpaces(ctx))
		x.runChain()
	})
	otherCutRunners = append(otherCutRunners, func(ax *approvex, ctx *core.Ctx) {
		x := &panx{ctx: ctx, res: ax.res, sc: ax.sc, prop: "C10", cuts: true, seen: map[string]struct{}{}}
		l := []*panSpace{panRuleSpace("rules", 5, 2), panObjSpace("objs", 3), panSvcSpace(), panSharedSpaceN(3)}
		if ctx.Thorough() {
			l = append(l, panRuleSpace("rules-x", 6, 2), panObjSpace("objs-x", 4), panCorpusSpace())
		}
		x.run(l)
	})
}
