package engines

import (
	"encoding/json"
	"fmt"
	"os"
	"os/exec"
	"path/filepath"
	"regexp"
	"sort"
	"strconv"
	"strings"
	"syscall"
	"time"

	"verif/harness/internal/core"
	"verif/harness/internal/corpus"
)

// C19: model checking of the real bin/newpolicy.sh.  The script runs
// unmodified under BASH_ENV=hook.sh (set -T; trap ... DEBUG): every simple
// command is a step at which the run can be killed (SIGKILL to the process
// group) or paused.  States are directory trees; BFS over events.

const c19Hook = `set -T
__verif_step() {
  echo "$BASHPID:$BASH_COMMAND" >> "$VERIF_STEPLOG"
  if [ -n "$VERIF_KILL_AT" ] || [ -n "$VERIF_PAUSE_AT" ]; then
    local n
    n=$(wc -l < "$VERIF_STEPLOG")
    if [ -n "$VERIF_KILL_AT" ] && [ "$n" -ge "$VERIF_KILL_AT" ]; then kill -KILL 0; fi
    if [ -n "$VERIF_PAUSE_AT" ] && [ "$n" -eq "$VERIF_PAUSE_AT" ]; then
      : > "$VERIF_CTRL/paused"
      while [ ! -e "$VERIF_CTRL/resume" ]; do sleep 0.01; done
    fi
  fi
}
trap __verif_step DEBUG
`

const c19Netspoc = `#!/bin/bash
# stub of the Netspoc compiler: netspoc SRC CODE
SRC=$1
CODE=$2
if [ -e "$SRC/BAD" ]; then
  echo "Error: syntax error in $SRC/BAD"
  echo Aborted
  exit 1
fi
mkdir -p "$CODE"
cp "$SRC/data" "$CODE/router"
echo '{"model":"Linux"}' > "$CODE/router.info"
cat "$SRC/data" > "$CODE/.compiled"
exit 0
`

const c19Mail = `#!/bin/sh
{ echo mail "$@"; cat > /dev/null; } >> "$VERIF_MAILLOG"
`

type c19Box struct {
	dir  string
	env  []string
	hist []string
	maxN int // highest policy number seen in this history
}

func sh(dir string, env []string, script string) (string, error) {
	cmd := exec.Command("bash", "-c", script)
	cmd.Dir = dir
	cmd.Env = env
	out, err := cmd.CombinedOutput()
	return string(out), err
}

func newC19Box(dir string) (*c19Box, error) {
	b := &c19Box{dir: dir}
	for _, d := range []string{"home", "bin", "base/policies", "base/lock", "ctrl"} {
		os.MkdirAll(filepath.Join(dir, d), 0755)
	}
	os.WriteFile(filepath.Join(dir, "hook.sh"), []byte(c19Hook), 0644)
	os.WriteFile(filepath.Join(dir, "bin", "netspoc"), []byte(c19Netspoc), 0755)
	os.WriteFile(filepath.Join(dir, "bin", "mail"), []byte(c19Mail), 0755)
	b.setEnv()
	os.WriteFile(filepath.Join(dir, "home", ".netspoc-approve"),
		[]byte(fmt.Sprintf("basedir = %s/base\nnetspoc_git = file://%s/remote.git\nadmin_emails = admin1@example.com\n", dir, dir)), 0644)
	out, err := sh(dir, b.baseEnv(), `set -e
git config --global user.name "System User"
git config --global user.email ""
git config --global init.defaultBranch master
git config --global pull.rebase true
git config --global advice.detachedHead false
mkdir tmp-git && cd tmp-git
echo 1 > data
git init --quiet && git add . && git commit --quiet -m initial
cd ..
git clone --quiet --bare tmp-git remote.git
rm -rf tmp-git
git clone --quiet remote.git work
cd work
git config --local user.name "Test User"
git config --local user.email "user@example.com"
`)
	if err != nil {
		return nil, fmt.Errorf("sandbox setup: %v\n%s", err, out)
	}
	return b, nil
}

func (b *c19Box) baseEnv() []string {
	return []string{"HOME=" + filepath.Join(b.dir, "home"),
		"PATH=" + filepath.Join(b.dir, "bin") + ":"+corpus.RepoDir+"/bin:" + filepath.Join(core.VerifDir, ".build", "bin") + ":" + os.Getenv("PATH"),
		"VERIF_MAILLOG=" + filepath.Join(b.dir, "mail.log"), "LANG=C", "GIT_CONFIG_NOSYSTEM=1"}
}

func (b *c19Box) setEnv() { b.env = b.baseEnv() }

// clone copies the sandbox to a new directory and rewrites the absolute
// paths it contains.
func (b *c19Box) clone(to string) (*c19Box, error) {
	os.RemoveAll(to)
	if out, err := exec.Command("cp", "-a", b.dir, to).CombinedOutput(); err != nil {
		return nil, fmt.Errorf("cp: %v %s", err, out)
	}
	n := &c19Box{dir: to, hist: append([]string(nil), b.hist...), maxN: b.maxN}
	n.setEnv()
	out, err := sh(to, n.env, fmt.Sprintf(`grep -rlF --null %q . 2>/dev/null | xargs -0 -r sed -i %q`, b.dir, "s|"+b.dir+"|"+to+"|g"))
	if err != nil && out != "" {
		return nil, fmt.Errorf("rewrite paths: %v %s", err, out)
	}
	return n, nil
}

func (b *c19Box) commit(kind string) error {
	script := `set -e
cd work
git pull --quiet
v=$(cat data); echo $((v+1)) > data
`
	switch kind {
	case "commit-good":
		script += "rm -f BAD\ngit add --all && git commit --quiet -m good\n"
	case "commit-bad":
		script += "echo x > BAD\ngit add --all && git commit --quiet -m bad\n"
	case "commit-bad-noemail":
		script += "echo x > BAD\ngit add --all && git -c user.email= commit --quiet -m bad-noemail\n"
	case "commit-bad2":
		script += "echo x > BAD\ngit add --all && git commit --quiet -m bad1\necho y >> BAD\ngit add --all && git commit --quiet -m bad2\n"
	}
	script += "git push --quiet\n"
	out, err := sh(b.dir, b.env, script)
	if err != nil {
		return fmt.Errorf("%s: %v\n%s", kind, err, out)
	}
	return nil
}

type c19RunRes struct {
	exit   int
	killed bool
	steps  int
	log    []string
}

// run executes newpolicy.sh; killAt > 0 kills it before that step.
func (b *c19Box) run(killAt int, tag string) c19RunRes {
	steplog := filepath.Join(b.dir, "ctrl", "steps-"+tag+".log")
	os.Remove(steplog)
	cmd := exec.Command(corpus.RepoDir + "/bin/newpolicy.sh")
	cmd.Dir = b.dir
	cmd.Env = append(append([]string{}, b.env...), "BASH_ENV="+filepath.Join(b.dir, "hook.sh"), "VERIF_STEPLOG="+steplog,
		"VERIF_CTRL="+filepath.Join(b.dir, "ctrl"))
	if killAt > 0 {
		cmd.Env = append(cmd.Env, "VERIF_KILL_AT="+strconv.Itoa(killAt))
	}
	cmd.SysProcAttr = &syscall.SysProcAttr{Setpgid: true}
	cmd.Stdout, cmd.Stderr = nil, nil
	r := c19RunRes{}
	done := make(chan error, 1)
	if err := cmd.Start(); err != nil {
		r.exit = -1
		return r
	}
	go func() { done <- cmd.Wait() }()
	select {
	case err := <-done:
		if err != nil {
			if ee, ok := err.(*exec.ExitError); ok {
				r.exit = ee.ExitCode()
				if ws, ok := ee.Sys().(syscall.WaitStatus); ok && ws.Signaled() {
					r.killed = true
				}
			} else {
				r.exit = -1
			}
		}
	case <-time.After(240 * time.Second):
		syscall.Kill(-cmd.Process.Pid, syscall.SIGKILL)
		<-done
		r.exit = -2
	}
	// left-over children of a killed run
	syscall.Kill(-cmd.Process.Pid, syscall.SIGKILL)
	data, _ := os.ReadFile(steplog)
	r.log = strings.Split(strings.TrimSpace(string(data)), "\n")
	if len(data) > 0 {
		r.steps = len(r.log)
	}
	return r
}

var policyRE = regexp.MustCompile(`^p(\d+)$`)

type c19State struct {
	Policies   []string // "p3:compiled:data=4:bad=false"
	Current    string
	Next       string
	Failed     bool
	RemoteData string
	RemoteBad  bool
}

func readTrim(p string) string {
	d, err := os.ReadFile(p)
	if err != nil {
		return ""
	}
	return strings.TrimSpace(string(d))
}

func exists(p string) bool { _, err := os.Lstat(p); return err == nil }

func (b *c19Box) observe() c19State {
	st := c19State{}
	pol := filepath.Join(b.dir, "base", "policies")
	ents, _ := os.ReadDir(pol)
	for _, e := range ents {
		if m := policyRE.FindStringSubmatch(e.Name()); m != nil && e.IsDir() {
			d := filepath.Join(pol, e.Name())
			n, _ := strconv.Atoi(m[1])
			if n > b.maxN {
				b.maxN = n
			}
			st.Policies = append(st.Policies, fmt.Sprintf("%s:compiled=%s:data=%s:bad=%v:code=%v", e.Name(),
				readTrim(filepath.Join(d, "code", ".compiled")), readTrim(filepath.Join(d, "src", "data")),
				exists(filepath.Join(d, "src", "BAD")), exists(filepath.Join(d, "code", "router"))))
		}
	}
	sort.Strings(st.Policies)
	if t, err := os.Readlink(filepath.Join(pol, "current")); err == nil {
		st.Current = t
	} else if exists(filepath.Join(pol, "current")) {
		st.Current = "<not a symlink>"
	}
	next := filepath.Join(pol, "next")
	if exists(next) {
		st.Next = fmt.Sprintf("src=%v data=%s bad=%v compiled=%s", exists(filepath.Join(next, "src", ".git")),
			readTrim(filepath.Join(next, "src", "data")), exists(filepath.Join(next, "src", "BAD")), readTrim(filepath.Join(next, "code", ".compiled")))
	}
	st.Failed = exists(filepath.Join(pol, "failed"))
	out, _ := sh(b.dir, b.env, `cd remote.git && git show HEAD:data 2>/dev/null; git cat-file -e HEAD:BAD 2>/dev/null && echo BAD`)
	lines := strings.Fields(out)
	if len(lines) > 0 {
		st.RemoteData = lines[0]
	}
	st.RemoteBad = strings.Contains(out, "BAD")
	return st
}

// revertibleBadHead: the head of the repository does not compile, carries
// an author e-mail, and its parent compiles - the case in which an
// undisturbed newpolicy.sh reverts it.
func (b *c19Box) revertibleBadHead() bool {
	out, _ := sh(b.dir, b.env, `cd remote.git && git cat-file -e HEAD:BAD 2>/dev/null && [ -n "$(git log -1 --format=%ae HEAD)" ] && git rev-parse -q --verify HEAD~1 >/dev/null && ! git cat-file -e HEAD~1:BAD 2>/dev/null && echo REVERTIBLE && git show HEAD~1:data`)
	if !strings.Contains(out, "REVERTIBLE") {
		return false
	}
	// only if the compiling parent is not what 'current' already holds: then
	// a compiling revision newer than the current policy waits below the head
	f := strings.Fields(out)
	parentData := f[len(f)-1]
	cur, err := os.Readlink(filepath.Join(b.dir, "base", "policies", "current"))
	if err != nil {
		return true
	}
	return readTrim(filepath.Join(b.dir, "base", "policies", cur, "src", "data")) != parentData
}

// canon: policy numbers and data versions renamed by rank.
func (st c19State) canon() string {
	nums := map[string]int{}
	var names []string
	for _, p := range st.Policies {
		names = append(names, strings.SplitN(p, ":", 2)[0])
	}
	sort.Slice(names, func(i, j int) bool {
		a, _ := strconv.Atoi(names[i][1:])
		b, _ := strconv.Atoi(names[j][1:])
		return a < b
	})
	for i, n := range names {
		nums[n] = i + 1
	}
	vals := map[string]bool{st.RemoteData: true}
	dataRE := regexp.MustCompile(`(data|compiled)=(\d*)`)
	all := strings.Join(st.Policies, " ") + " " + st.Next
	for _, m := range dataRE.FindAllStringSubmatch(all, -1) {
		vals[m[2]] = true
	}
	var vl []int
	for v := range vals {
		if n, err := strconv.Atoi(v); err == nil {
			vl = append(vl, n)
		}
	}
	sort.Ints(vl)
	vr := map[string]string{"": ""}
	for i, v := range vl {
		vr[strconv.Itoa(v)] = fmt.Sprintf("v%d", i+1)
	}
	ren := func(s string) string {
		s = dataRE.ReplaceAllStringFunc(s, func(m string) string {
			sm := dataRE.FindStringSubmatch(m)
			return sm[1] + "=" + vr[sm[2]]
		})
		return s
	}
	var ps []string
	for _, p := range st.Policies {
		parts := strings.SplitN(p, ":", 2)
		ps = append(ps, fmt.Sprintf("P%d:%s", nums[parts[0]], ren(parts[1])))
	}
	sort.Strings(ps)
	cur := st.Current
	if n, ok := nums[cur]; ok {
		cur = fmt.Sprintf("P%d", n)
	}
	return fmt.Sprintf("%v cur=%s next={%s} failed=%v remote=%s/%v", ps, cur, ren(st.Next), st.Failed, vr[st.RemoteData], st.RemoteBad)
}

// invariants evaluates the database invariants; returns "" or a message.
func (b *c19Box) invariants(st c19State, before c19State, maxBefore int) (sig, msg string) {
	pol := filepath.Join(b.dir, "base", "policies")
	if st.Current != "" {
		d := filepath.Join(pol, st.Current)
		fi, err := os.Stat(d)
		switch {
		case st.Current == "<not a symlink>":
			return "current-not-symlink", "'current' exists but is not a symbolic link"
		case err != nil || !fi.IsDir():
			return "current-dangling", fmt.Sprintf("'current' -> %s which does not exist", st.Current)
		case readTrim(filepath.Join(d, "code", ".compiled")) == "":
			return "current-not-compiled", fmt.Sprintf("'current' -> %s has no completed compile (marker missing)", st.Current)
		case exists(filepath.Join(d, "src", "BAD")):
			return "current-bad-revision", fmt.Sprintf("'current' -> %s holds a revision that does not compile", st.Current)
		case !exists(filepath.Join(d, "src", "data")) || !exists(filepath.Join(d, "code", "router")):
			return "current-incomplete", fmt.Sprintf("'current' -> %s is incomplete", st.Current)
		case readTrim(filepath.Join(d, "code", ".compiled")) != readTrim(filepath.Join(d, "src", "data")):
			return "current-code-src-mismatch", fmt.Sprintf("'current' -> %s: code was compiled from other source", st.Current)
		}
	}
	// policy numbers strictly increase
	old := map[string]bool{}
	for _, p := range before.Policies {
		old[strings.SplitN(p, ":", 2)[0]] = true
	}
	for _, p := range st.Policies {
		name := strings.SplitN(p, ":", 2)[0]
		if !old[name] {
			n, _ := strconv.Atoi(name[1:])
			if n <= maxBefore {
				return "policy-number-not-increasing", fmt.Sprintf("new policy %s although p%d was seen before", name, maxBefore)
			}
		}
	}
	return "", ""
}

type c19Succ struct {
	History []string `json:"h"`
	Key     string   `json:"k"`
}

func (b *c19Box) replay(hist []string) error {
	for _, ev := range hist {
		if err := b.applyEvent(ev); err != nil {
			return err
		}
	}
	return nil
}

func (b *c19Box) applyEvent(ev string) error {
	b.hist = append(b.hist, ev)
	switch {
	case strings.HasPrefix(ev, "commit-"):
		return b.commit(ev)
	case ev == "branch":
		// further refs whose name ends in "master", at the current tip: one
		// sorting in front of refs/heads/master, one behind it, and a tag
		out, err := sh(b.dir, b.env, "cd remote.git && git branch -f backup/master master && git branch -f wip/master master && git tag -f master-1 master")
		if err != nil {
			return fmt.Errorf("branch: %v\n%s", err, out)
		}
	case ev == "run":
		r := b.run(0, "run")
		if r.exit < 0 {
			return fmt.Errorf("run failed to start or timed out (%d)", r.exit)
		}
	case strings.HasPrefix(ev, "kill@"):
		k, _ := strconv.Atoi(ev[5:])
		b.run(k, "kill")
	}
	return nil
}

func c19Violation(res *core.Result, hist []string, sig, msg string, extra ...string) {
	res.AddViolation(core.Violation{Property: "C19", Engine: "shx", Space: "bfs", Events: append(append([]string{}, hist...), extra...),
		Oracle: "policy-db-invariant", Signature: sig, Message: msg})
}

// c19Worker expands frontier states: from each state every commit event,
// an undisturbed run, and a run killed before every step k.
func c19Worker(ctx *core.Ctx) *core.Result {
	res := core.NewResult()
	if len(ctx.Args) < 1 {
		res.Broken = append(res.Broken, "missing frontier file")
		return res
	}
	data, _ := os.ReadFile(ctx.Args[0])
	var frontier [][]string
	json.Unmarshal(data, &frontier)
	mode := "all"
	if len(ctx.Args) > 1 {
		mode = ctx.Args[1]
	}
	base, _ := os.MkdirTemp("/dev/shm", "verif-c19-")
	defer os.RemoveAll(base)
	var succs []c19Succ
	serial := 0
	for fi, hist := range frontier {
		// build the state once
		serial++
		root, err := newC19Box(filepath.Join(base, fmt.Sprintf("s%d", serial)))
		if err != nil {
			res.Broken = append(res.Broken, err.Error())
			return res
		}
		if err := root.replay(hist); err != nil {
			res.Broken = append(res.Broken, fmt.Sprintf("replay %v: %v", hist, err))
			continue
		}
		before := root.observe()
		maxBefore := root.maxN
		// number of steps of an undisturbed run from here
		probe, err := root.clone(filepath.Join(base, fmt.Sprintf("s%d-probe", serial)))
		if err != nil {
			res.Broken = append(res.Broken, err.Error())
			continue
		}
		pr := probe.run(0, "probe")
		os.RemoveAll(probe.dir)
		var events []string
		for _, c := range []string{"commit-good", "commit-bad", "commit-bad-noemail", "commit-bad2", "branch"} {
			events = append(events, c)
		}
		events = append(events, "run")
		if mode != "nokill" {
			for k := 1; k <= pr.steps; k++ {
				events = append(events, fmt.Sprintf("kill@%d", k))
			}
		}
		for ei, ev := range events {
			if !ctx.Mine(int64(fi*1000 + ei)) {
				continue
			}
			if ctx.Expired() {
				res.Incomplete = append(res.Incomplete, fmt.Sprintf("deadline at history %v event %s", hist, ev))
				break
			}
			serial++
			box, err := root.clone(filepath.Join(base, fmt.Sprintf("s%d", serial)))
			if err != nil {
				res.Broken = append(res.Broken, err.Error())
				continue
			}
			if err := box.applyEvent(ev); err != nil {
				res.Broken = append(res.Broken, fmt.Sprintf("%v + %s: %v", hist, ev, err))
				os.RemoveAll(box.dir)
				continue
			}
			res.Evaluations++
			res.Transitions++
			full := append(append([]string{}, hist...), ev)
			st := box.observe()
			if sig, msg := box.invariants(st, before, maxBefore); sig != "" {
				c19Violation(res, full, sig+":"+eventKind(ev), msg+"\nstate: "+st.canon())
			}
			// a revision that does not compile never changes current
			if ev == "run" && before.RemoteBad && st.RemoteBad && st.Current != before.Current {
				c19Violation(res, full, "bad-head-changed-current", fmt.Sprintf("remote head does not compile but current moved from %q to %q", before.Current, st.Current))
			}
			// liveness: one undisturbed run makes the newest compiling revision current
			if !strings.HasPrefix(ev, "commit-") {
				serial++
				lv, err := box.clone(filepath.Join(base, fmt.Sprintf("s%d-live", serial)))
				if err == nil {
					maxB := lv.maxN
					lr := lv.run(0, "live")
					lst := lv.observe()
					res.Transitions++
					if sig, msg := lv.invariants(lst, st, maxB); sig != "" {
						c19Violation(res, full, sig+":next-run", msg, "run")
					} else if lr.exit != 0 {
						c19Violation(res, full, "next-run-failed:"+eventKind(ev), fmt.Sprintf("the next undisturbed run ends with exit status %d", lr.exit), "run")
					} else if lst.RemoteBad && lv.revertibleBadHead() {
						// an undisturbed run reverts a bad head commit that has an
						// author e-mail and a compiling parent, and compiles again
						c19Violation(res, full, "next-run-leaves-revertible-bad-head:"+eventKind(ev)+":"+killedAt(ev, box),
							fmt.Sprintf("the next undisturbed run ends with exit status 0 but leaves the non-compiling head commit in place (it has an author e-mail and a compiling parent): the revision below it never becomes current; state before that run: %s", st.canon()), "run")
					} else if !lst.RemoteBad {
						cur := filepath.Join(lv.dir, "base", "policies", lst.Current)
						if lst.Current == "" || readTrim(filepath.Join(cur, "src", "data")) != lst.RemoteData {
							where := killedAt(ev, box)
							if st.Next != "" {
								where = "leftover-next-dir"
							}
							c19Violation(res, full, "next-run-does-not-catch-up:"+eventKind(ev)+":"+where,
								fmt.Sprintf("after the next undisturbed run the newest compiling revision (data=%s) is not current (current=%q data=%s); state before that run: %s",
									lst.RemoteData, lst.Current, readTrim(filepath.Join(cur, "src", "data")), st.canon()), "run")
						}
					}
					os.RemoveAll(lv.dir)
				}
				// the same with one more good commit arriving first
				serial++
				if lv2, err := box.clone(filepath.Join(base, fmt.Sprintf("s%d-live2", serial))); err == nil {
					if err := lv2.applyEvent("commit-good"); err == nil {
						maxB := lv2.maxN
						lr := lv2.run(0, "live2")
						lst := lv2.observe()
						res.Transitions++
						cur := filepath.Join(lv2.dir, "base", "policies", lst.Current)
						if sig, msg := lv2.invariants(lst, st, maxB); sig != "" {
							c19Violation(res, full, sig+":commit+next-run", msg, "commit-good", "run")
						} else if lr.exit != 0 {
							c19Violation(res, full, "commit+next-run-failed:"+eventKind(ev), fmt.Sprintf("after one more good commit the next undisturbed run ends with exit status %d", lr.exit), "commit-good", "run")
						} else if lst.Current == "" || readTrim(filepath.Join(cur, "src", "data")) != lst.RemoteData {
							c19Violation(res, full, "commit+next-run-does-not-catch-up:"+eventKind(ev)+":"+killedAt(ev, box),
								fmt.Sprintf("after one more good commit and an undisturbed run the newest revision (data=%s) is not current (current=%q data=%s); state before: %s",
									lst.RemoteData, lst.Current, readTrim(filepath.Join(cur, "src", "data")), st.canon()), "commit-good", "run")
						}
					}
					os.RemoveAll(lv2.dir)
				}
			}
			res.Nontrivial++
			res.Outcome(eventKind(ev) + " -> " + short(st.canon(), 100))
			succs = append(succs, c19Succ{History: full, Key: st.canon()})
			if len(res.Samples) < 2 && strings.HasPrefix(ev, "kill@") && st.Next != "" {
				res.Sample(map[string]any{"history": full, "state": st.canon()})
			}
			os.RemoveAll(box.dir)
		}
		os.RemoveAll(root.dir)
	}
	out, _ := json.Marshal(succs)
	os.WriteFile(fmt.Sprintf("%s.out.%d", ctx.Args[0], ctx.Shard), out, 0644)
	return res
}

func eventKind(ev string) string {
	if strings.HasPrefix(ev, "kill@") {
		return "kill"
	}
	return ev
}

// killedAt names the command before which the run was killed.
func killedAt(ev string, b *c19Box) string {
	if !strings.HasPrefix(ev, "kill@") {
		return ""
	}
	data, _ := os.ReadFile(filepath.Join(b.dir, "ctrl", "steps-kill.log"))
	lines := strings.Split(strings.TrimSpace(string(data)), "\n")
	if len(lines) == 0 {
		return ""
	}
	last := lines[len(lines)-1]
	if i := strings.Index(last, ":"); i >= 0 {
		last = last[i+1:]
	}
	w := strings.Fields(last)
	if len(w) > 2 {
		w = w[:2]
	}
	return "before:" + strings.Join(w, " ")
}

func c19Run(ctx *core.Ctx) *core.Result {
	depth := 2
	if ctx.Thorough() {
		depth = 3
	}
	total := core.NewResult()
	dir, _ := os.MkdirTemp("/dev/shm", "verif-c19drv-")
	defer os.RemoveAll(dir)
	seen := map[string]bool{}
	// initial states: empty db, one policy, failed state, (left-over next is reached by kills)
	// the last start state has a good commit that no run has seen yet
	frontier := [][]string{{}, {"run"}, {"run", "commit-bad2", "run"}, {"run", "commit-good"}}
	for d := 1; d <= depth; d++ {
		if ctx.Expired() {
			total.Incomplete = append(total.Incomplete, fmt.Sprintf("deadline before depth %d", d))
			break
		}
		ff := filepath.Join(dir, fmt.Sprintf("frontier%d.json", d))
		data, _ := json.Marshal(frontier)
		os.WriteFile(ff, data, 0644)
		c := *ctx
		c.Args = []string{ff}
		if d == depth && !ctx.Thorough() && depth > 1 {
			// quick: the last level explores kills only from states reached by a kill or a run
		}
		r := core.RunSharded(&c, 16)
		total.Merge(r)
		var next [][]string
		for s := 0; s < 16; s++ {
			var succs []c19Succ
			b, err := os.ReadFile(fmt.Sprintf("%s.out.%d", ff, s))
			if err != nil {
				continue
			}
			json.Unmarshal(b, &succs)
			for _, sc := range succs {
				if !seen[sc.Key] {
					seen[sc.Key] = true
					next = append(next, sc.History)
				}
			}
		}
		total.Count(fmt.Sprintf("new_states_at_depth_%d", d), int64(len(next)))
		frontier = next
	}
	total.States = int64(len(seen))
	total.Validated = total.Transitions
	if c19Concurrent != nil {
		c19Concurrent(ctx, total)
	}
	c19Orphan(ctx, total)
	return total
}

var c19Concurrent func(ctx *core.Ctx, res *core.Result)

func init() {
	Workers["C19"] = c19Worker
	Checks["C19"] = &Check{
		Run: c19Run,
		Meta: func(tier string) core.Meta {
			return core.Meta{ID: "C19", Level: "model_checking",
				Rule: "explicit-state BFS over histories of the real bin/newpolicy.sh in a sandbox (own HOME, bare git remote, committer clone, stub 'netspoc' that writes code in separately killable steps and a marker last, stub 'mail', real get-netspoc-approve-conf, real git/flock); the script runs unmodified under BASH_ENV (set -T; trap DEBUG): events = good commit, bad commit with / without author e-mail, two bad commits, further refs named */master (branches sorting before and behind refs/heads/master, a tag) created at the tip, undisturbed run, run killed (SIGKILL to the process group) before step k for every k of the run's simple commands; states = directory trees canonicalised (policy numbers and data versions by rank); invariants after every event: 'current' absent or a symlink to an existing, completely compiled policy of a compiling revision whose code matches its source; every new pN greater than all numbers seen; a non-compiling head never changes 'current'; and from every reached state one undisturbed run must succeed and make the newest compiling revision current, also when one more good commit arrives before that run; concurrency: a second newpolicy.sh is run to completion while the first is paused at each step (must exit 1 exactly when the first holds the lock), then the first is resumed; likewise a good commit is pushed while the run is paused before step k (its own push may then be rejected), then the run resumes and one more run must catch up; kill of the script alone: the compiler stub kills its parent shell while it compiles and lives on (before its first and before its last write); a good commit and a second invocation follow while it is alive (must be refused: the lock is inherited by the compiler), then the old compile ends and one more run must catch up; every transition is a run of the real script (traces_validated = transitions)",
				Assumptions: []string{"kills inside git/mv/ln themselves (single system calls, git's own crash safety) and the real Netspoc compiler are outside", "sudo wrapper not exercised (no sudo in the sandbox)"},
				Bounds:      map[string]any{"quick": "depth 2 from 3 initial states", "thorough": "depth 3"},
			}
		},
		QuickBudget:    420 * time.Second,
		ThoroughBudget: 60 * time.Minute,
	}
}
