//go:build verif

package engines

import (
	"encoding/json"
	"fmt"
	"os"
	"path/filepath"
	"sort"
	"strings"
	"syscall"

	"github.com/hknutzen/Netspoc-Approve/go/pkg/doapprove"
	"github.com/hknutzen/Netspoc-Approve/go/pkg/drc"
	expect "github.com/tailscale/goexpect"
	"verif/harness/internal/ciscomodel"
	"verif/harness/internal/core"
	"verif/harness/internal/linuxmodel"
	"verif/harness/internal/nsxmodel"
	"verif/harness/internal/panmodel"
	"verif/harness/internal/sim"
)

// A dialogue scenario: one invocation of a front end against a simulated
// device.
type dscenario struct {
	name        string
	devType     string // ASA IOS Linux PAN-OS NSX
	front       string // drc | drc-C | drc-C-nolog | do-approve | do-compare
	device      string // initial device configuration (model syntax)
	target      core.Files
	devName     string // name of the device in Netspoc ("" = router)
	hostname    string // what the device reports ("" = devName)
	banner      string // login banner / /etc/issue / vsys display-name
	checkbanner string // value in the config file, "" = not configured
	ha          string // PAN-OS HA answer
	needEnable  bool
	enableUnset bool // ASA: no enable password configured on the device
	hostKeyQ    bool
	pass        string
	key         string
	nsxExtra    bool     // NSX: foreign (non-Netspoc) objects on the manager
	addrs       []string // HTTPS: management addresses in ip_list, "SIM" = host:port of the simulator; the run has no SIMULATE_ROUTER
	procEnv     []string // production-stack runs: extra environment of the process
	procStdout  *os.File // production-stack runs: standard output of the process (nil: collected)
	panDirtyBy  string   // PAN-OS: candidate configuration carries uncommitted changes of this admin
	panRunning  string   // PAN-OS: running configuration if it differs from the candidate ("" = same)
	infoFor     string   // IOS: accepted commands with this prefix are answered with an INFO: line
	prepNoop    bool     // IOS: the preparation commands change nothing (settings already there), so 'reload in' does not ask to save
}

func (sc *dscenario) dn() string {
	if sc.devName == "" {
		return "router"
	}
	return sc.devName
}

type drun struct {
	panRunAfter                 string // PAN-OS: running configuration at the end
	hung                        int    // HTTPS: replies stalled inside the body on which the client never gave up
	exit                        int
	stdout                      string
	stderr                      string
	panicMsg                    string
	trans                       []sim.Rec
	files                       map[string]string
	before                      string
	after                       string
	saved                       int
	commits                     int
	reloadPending               bool
	reloadArmed                 int
	sessions                    int
	points                      int
	foreignBefore, foreignAfter string
}

func init() {
	var lim syscall.Rlimit
	if syscall.Getrlimit(syscall.RLIMIT_NOFILE, &lim) == nil {
		lim.Cur = lim.Max
		syscall.Setrlimit(syscall.RLIMIT_NOFILE, &lim)
	}
}

func (sc *dscenario) secretPass() string {
	if sc.pass != "" {
		return sc.pass
	}
	return "secret"
}

func (sc *dscenario) secretKey() string {
	if sc.key != "" {
		return sc.key
	}
	return "LUFRPT1IeWFT"
}

type runOpts struct {
	dev           map[int]string
	banners       map[int]sim.BannerSpec
	bannersByText map[string]sim.BannerSpec
	keepWork      bool   // do not recreate the base directory
	testTime      string // TEST_TIME of the run ("" = the fixed default)
}

// runDialogue executes the scenario once, with the given deviations.
func runDialogue(scr *core.Scratch, sc *dscenario, o runOpts) *drun {
	work := filepath.Join(scr.Dir, "dlg")
	var code string
	if o.keepWork {
		// a further run in the base directory of the previous one (status,
		// history and logs stay)
		code = filepath.Join(work, "policies", "p1", "code")
	} else {
		code = prepareWork(work, sc, 1)
	}
	os.Setenv("HOME", work)
	os.Setenv("TEST_TIME", "2024-Sep-29 16:19:50")
	if o.testTime != "" {
		os.Setenv("TEST_TIME", o.testTime)
	}
	os.Unsetenv("LANG")

	host := sc.hostname
	if host == "" {
		host = sc.dn()
	}
	r := &drun{files: map[string]string{}}
	var ssh *sim.SSH
	var web *sim.HTTPS
	switch sc.devType {
	case "ASA", "IOS":
		flavor := strings.ToLower(sc.devType)
		ssh = &sim.SSH{Flavor: flavor, Hostname: host, Banner: sc.banner, Pass: sc.secretPass(),
			Cisco: ciscomodel.Load(sc.device, sc.devType == "IOS"), Dev: o.dev, Banners: o.banners, BannersByText: o.bannersByText,
			NeedEnable: sc.needEnable, EnableUnset: sc.enableUnset, HostKeyQ: sc.hostKeyQ, PrepNoop: sc.prepNoop, InfoFor: sc.infoFor}
		r.before = ssh.Cisco.Print()
	case "Linux":
		lm, err := linuxmodel.Load(sc.device)
		if err != nil {
			panic(err)
		}
		ssh = &sim.SSH{Flavor: "linux", Hostname: host, Banner: sc.banner, Pass: sc.secretPass(), Linux: lm, Dev: o.dev,
			HostKeyQ: sc.hostKeyQ}
		r.before = lm.Print(false)
	case "PAN-OS":
		pm, err := panmodel.Load(sc.device)
		if err != nil {
			panic(err)
		}
		web = &sim.HTTPS{Flavor: "panos", Hostname: host, Key: sc.secretKey(), User: "admin", Pass: sc.secretPass(),
			Pan: pm, PanRun: pm.Clone(), HA: sc.ha, Dev: o.dev, DirtyBy: sc.panDirtyBy}
		if sc.panRunning != "" {
			// the running configuration is older than the candidate (an
			// earlier run was cut off before its commit)
			rm, err := panmodel.Load(sc.panRunning)
			if err != nil {
				panic(err)
			}
			web.PanRun = rm
		}
		r.before = pm.Devices.String()
	case "NSX":
		nm, err := nsxmodel.Load(sc.device)
		if err != nil {
			panic(err)
		}
		web = &sim.HTTPS{Flavor: "nsx", Hostname: host, Key: sc.secretKey(), User: "admin", Pass: sc.secretPass(),
			Nsx: nm, Dev: o.dev, PageSize: 2}
		if sc.nsxExtra {
			web.Extra = []nsxmodel.Obj{{"id": "manual-policy", "resource_type": "GatewayPolicy", "rules": []any{
				map[string]any{"id": "m1", "action": "ALLOW", "sequence_number": float64(5), "source_groups": []any{"/infra/domains/default/groups/manual-g"},
					"destination_groups": []any{"ANY"}, "services": []any{"/infra/services/manual-s"}, "scope": []any{"/infra/tier-0s/v1"}, "direction": "OUT"}}}}
			web.ExtraGroups = []nsxmodel.Obj{{"id": "manual-g", "expression": []any{map[string]any{"id": "x", "resource_type": "IPAddressExpression", "ip_addresses": []any{"10.7.7.7"}}}},
				{"id": "other-Netspoc-like", "expression": []any{map[string]any{"id": "x", "resource_type": "IPAddressExpression", "ip_addresses": []any{"10.7.7.8"}}}}}
			web.ExtraServices = []nsxmodel.Obj{{"id": "manual-s", "service_entries": []any{}}}
		}
		r.before = nm.Print()
		r.foreignBefore = fmt.Sprint(web.Extra, web.ExtraGroups, web.ExtraServices)
	}
	if ssh != nil {
		if ssh.Linux != nil {
			// the new packet filter is what the tool's script holds
			ssh.OnRestore = func() error { return nil }
		}
		expect.NewPeer = func(cmd []string) (expect.Peer, error) {
			ssh.Start()
			return ssh, nil
		}
		os.Setenv("SIMULATE_ROUTER", "simulated-device")
	} else {
		simURL := web.Start()
		os.Setenv("SIMULATE_ROUTER", simURL)
		defer web.Close()
		if sc.addrs != nil {
			// the tool builds its URLs from ip_list itself
			os.Unsetenv("SIMULATE_ROUTER")
			var names, ips []string
			for _, a := range sc.addrs {
				if a == "SIM" {
					a = strings.TrimPrefix(simURL, "https://")
				}
				names, ips = append(names, sc.dn()), append(ips, a)
			}
			info, _ := json.Marshal(map[string]any{"model": sc.devType, "name_list": names, "ip_list": ips})
			os.WriteFile(filepath.Join(code, sc.dn()+".info"), info, 0644)
		}
	}
	codeFile := filepath.Join(code, sc.dn())
	logDir := filepath.Join(work, "drclog")
	var mainFunc func() int
	switch sc.front {
	case "drc":
		mainFunc = drc.Main
		os.Args = []string{"drc", "-L", logDir, codeFile}
	case "drc-C":
		mainFunc = drc.Main
		os.Args = []string{"drc", "-C", "-L", logDir, codeFile}
	case "drc-q":
		mainFunc = drc.Main
		os.Args = []string{"drc", "-q", "-L", logDir, codeFile}
	case "drc-C-q":
		mainFunc = drc.Main
		os.Args = []string{"drc", "-C", "-q", "-L", logDir, codeFile}
	case "drc-logfile":
		mainFunc = drc.Main
		os.Args = []string{"drc", "-L", logDir, "--LOGFILE", filepath.Join(work, "drc.log"), codeFile}
	case "drc-C-nolog":
		mainFunc = drc.Main
		os.Args = []string{"drc", "-C", codeFile}
	case "do-approve":
		mainFunc = doapprove.Main
		os.Args = []string{"do-approve", "approve", sc.dn()}
	case "do-compare":
		mainFunc = doapprove.Main
		os.Args = []string{"do-approve", "compare", sc.dn()}
	case "do-approve-brief":
		mainFunc = doapprove.Main
		os.Args = []string{"do-approve", "--brief", "approve", sc.dn()}
	case "do-compare-brief":
		mainFunc = doapprove.Main
		os.Args = []string{"do-approve", "--brief", "compare", sc.dn()}
	default:
		panic("unknown front end " + sc.front)
	}
	if ssh != nil && ssh.Linux != nil {
		// Linux: load the restore file the tool would have copied: taken
		// from a compare of the same inputs when the file is "executed".
		lm := ssh.Linux
		tgt := sc.target
		ssh.OnRestore = func() error {
			// a second scratch: the outer capture of scr is active
			out := innerScratch(scr).Compare("Linux", core.Files{Main: lm.Print(true)}, tgt)
			_, _, restore := splitLinuxScript(out.Stdout)
			return lm.Restore(restore)
		}
	}
	out := scr.Capture(mainFunc)
	r.exit, r.stdout, r.stderr, r.panicMsg = out.Status, out.Stdout, out.Stderr, out.Panic
	if ssh != nil {
		r.trans = ssh.Trans
		r.saved = ssh.Saved
		r.reloadPending = ssh.ReloadPending
		r.reloadArmed = ssh.ReloadArmed
		r.sessions = ssh.Sessions
		if ssh.Cisco != nil {
			r.after = ssh.Cisco.Print()
			if ssh.EnablePassSet > 0 {
				r.after += "enable password ***** pbkdf2\n"
			}
		} else {
			r.after = ssh.Linux.Print(false)
		}
		for _, t := range ssh.Trans {
			if t.Point > r.points {
				r.points = t.Point
			}
		}
	} else {
		r.trans = web.Trans
		r.commits = web.Commits
		r.hung = web.Hung
		if web.Pan != nil {
			r.after = web.Pan.Devices.String()
			r.panRunAfter = web.PanRun.Devices.String()
		} else {
			r.after = web.Nsx.Print()
			r.foreignAfter = fmt.Sprint(web.Extra, web.ExtraGroups, web.ExtraServices)
		}
		for _, t := range web.Trans {
			if t.Point > r.points {
				r.points = t.Point
			}
		}
	}
	filepath.Walk(work, func(p string, fi os.FileInfo, err error) error {
		if err != nil || fi.IsDir() {
			return nil
		}
		rel, _ := filepath.Rel(work, p)
		if strings.HasPrefix(rel, "policies/p1/code/") || rel == "credentials" || rel == ".netspoc-approve" {
			return nil
		}
		data, _ := os.ReadFile(p)
		r.files[rel] = string(data)
		return nil
	})
	return r
}

func (r *drun) fileNames() []string {
	var l []string
	for k := range r.files {
		l = append(l, k)
	}
	sort.Strings(l)
	return l
}

func (r *drun) transcript() []string {
	var l []string
	for _, t := range r.trans {
		a := "rejected"
		if t.Accepted {
			a = "ok"
		}
		d := ""
		if t.Dev != "" {
			d = " !" + t.Dev
		}
		l = append(l, fmt.Sprintf("%d [%s/%s%s] %s", t.Point, t.Class, a, d, short(t.Text, 160)))
	}
	return l
}

var innerScratches = map[*core.Scratch]*core.Scratch{}

func innerScratch(scr *core.Scratch) *core.Scratch {
	if s, ok := innerScratches[scr]; ok {
		return s
	}
	s := core.NewScratch("inner")
	innerScratches[scr] = s
	return s
}

func closeInnerScratches() {
	for k, s := range innerScratches {
		s.Close()
		delete(innerScratches, k)
	}
}

// prepareWork creates the base directory of a run and returns the code
// directory.
func prepareWork(work string, sc *dscenario, timeout int) string {
	os.RemoveAll(work)
	code := filepath.Join(work, "policies", "p1", "code")
	os.MkdirAll(filepath.Join(code, "ipv6"), 0755)
	for _, d := range []string{"lock", "status", "history"} {
		os.MkdirAll(filepath.Join(work, d), 0755)
	}
	os.Symlink("p1", filepath.Join(work, "policies", "current"))
	os.WriteFile(filepath.Join(code, sc.dn()), []byte(sc.target.Main), 0644)
	if sc.target.V6 != "" {
		os.WriteFile(filepath.Join(code, "ipv6", sc.dn()), []byte(sc.target.V6), 0644)
	}
	if sc.target.Raw != "" {
		os.WriteFile(filepath.Join(code, sc.dn()+".raw"), []byte(sc.target.Raw), 0644)
	}
	info := sc.target.Info
	if info == "" {
		info = fmt.Sprintf(`{"model":"%s","name_list":["%s"],"ip_list":["10.1.13.33"]}`, sc.devType, sc.dn())
	}
	os.WriteFile(filepath.Join(code, sc.dn()+".info"), []byte(info), 0644)
	os.WriteFile(filepath.Join(work, "credentials"), []byte("* admin "+sc.secretPass()+"\n"), 0600)
	cfg := "basedir = " + work + "\nsystemuser = admin\ntimeout = " + fmt.Sprint(timeout) + "\nlogin_timeout = " + fmt.Sprint(timeout) + "\n"
	if sc.checkbanner != "" {
		cfg += "checkbanner = " + sc.checkbanner + "\n"
	}
	os.WriteFile(filepath.Join(work, ".netspoc-approve"), []byte(cfg), 0644)
	return code
}
