//go:build verif

package engines

import (
	"fmt"
	"strings"

	"verif/harness/internal/core"
	"verif/harness/internal/panmodel"
)

// C03 on the wire: the planner engine reads the change script in its
// printed (unescaped) form; here the same kind of change runs through the
// real HTTPS client against the simulated firewall, so that every command
// has to survive as an HTTP request.  Rule names on the device are names a
// firewall accepts (letters, digits, space, '-', '_', '.'); the new rules
// are inserted in front of / behind rules carrying such names.
var c03WireNames = [][]string{
	{"r1", "r2"},
	{"Allow DNS", "web access"},
	{"old.rule_1", "old-rule 2 x"},
}

func c03Wire(ctx *core.Ctx, res *core.Result) {
	if ctx.Shard != 0 {
		return
	}
	scr := core.NewScratch("C03w")
	defer scr.Close()
	defer closeInnerScratches()
	mk := func(s ...int) []panRuleT {
		var l []panRuleT
		for _, i := range s {
			l = append(l, panRules[i])
		}
		return l
	}
	targets := [][]int{{1, 0, 4}, {0, 1, 3}, {4, 3, 0}, {1}, {3, 0}}
	for _, front := range []string{"drc", "do-approve"} {
		for ni, names := range c03WireNames {
			for ti, t := range targets {
				sc := baseScenario("PAN-OS", front)
				sc.name = fmt.Sprintf("PAN-OS/%s/wire/names%d/target%d", front, ni, ti)
				sc.device = panConfig(panVsysT{name: "vsys1", rules: mk(0, 3), names: names, extra: "<display-name>" + sc.banner + "</display-name>"})
				sc.target.Main = panConfig(panVsysT{name: "vsys1", rules: mk(t...)})
				r := runDialogue(scr, sc, runOpts{})
				res.Evaluations++
				res.Nontrivial++
				res.Transitions++
				res.Count("wire_runs", 1)
				ev := append([]string{"scenario=" + sc.name, fmt.Sprintf("device rule names=%q", names), fmt.Sprintf("exit=%d", r.exit)}, r.transcript()...)
				viol := func(oracle, sig, msg string) {
					res.AddViolation(core.Violation{Property: "C03", Engine: "wire/panos", Space: "wire",
						Inputs: map[string]string{"device": sc.device, "code": sc.target.Main}, Events: ev,
						Oracle: oracle, Signature: sig, Message: msg})
				}
				if r.exit != 0 {
					viol("approve-accepted", "wire:approve-failed", "approve fails on the wire:\n"+short(r.stderr+r.stdout, 1500))
					continue
				}
				got, err1 := panmodel.Load("<config>" + r.after + "</config>")
				want, err2 := panmodel.Load(sc.target.Main)
				if err1 != nil || err2 != nil {
					res.Broken = append(res.Broken, fmt.Sprintf("c03 wire: cannot load result: %v %v", err1, err2))
					continue
				}
				g, w := strings.Join(got.SemVsys("vsys1"), "\n"), strings.Join(want.SemVsys("vsys1"), "\n")
				if g != w {
					viol("converges", "wire:result-differs", "after a successful approve the rulebase differs from the target:\n"+g+"\n--- target\n"+w)
					continue
				}
				res.Outcome("wire ok")
			}
		}
	}
}
