//go:build verif

package engines

// perms: all permutations of 0..n-1 without the identity for n <= 4;
// rotations, reversal and adjacent transpositions above.
func perms(n int) [][]int {
	var out [][]int
	if n <= 4 {
		var rec func(cur []int, used int)
		rec = func(cur []int, used int) {
			if len(cur) == n {
				out = append(out, append([]int(nil), cur...))
				return
			}
			for i := 0; i < n; i++ {
				if used&(1<<uint(i)) == 0 {
					rec(append(cur, i), used|1<<uint(i))
				}
			}
		}
		rec(nil, 0)
		return out[1:] // without the identity
	}
	id := make([]int, n)
	for i := range id {
		id[i] = i
	}
	for r := 1; r < n; r++ { // rotations (what Go's runtime produces for small maps)
		p := append(append([]int{}, id[r:]...), id[:r]...)
		out = append(out, p)
	}
	rev := make([]int, n)
	for i := range rev {
		rev[i] = n - 1 - i
	}
	out = append(out, rev)
	for i := 0; i+1 < n; i++ { // adjacent transpositions
		p := append([]int{}, id...)
		p[i], p[i+1] = p[i+1], p[i]
		out = append(out, p)
	}
	return out
}
