package engines

import (
	"encoding/json"
	"fmt"
	"os"

	"verif/harness/internal/core"
)

// Replayers re-run one recorded violation per engine prefix.
var Replayers = map[string]func(v *core.Violation) (stillFails bool, msg string){}

func Replay(args []string) int {
	if len(args) < 1 {
		fmt.Fprintln(os.Stderr, "usage: verif replay <file>")
		return 2
	}
	data, err := os.ReadFile(args[0])
	if err != nil {
		fmt.Fprintln(os.Stderr, err)
		return 2
	}
	var v core.Violation
	if err := json.Unmarshal(data, &v); err != nil {
		fmt.Fprintln(os.Stderr, err)
		return 2
	}
	f := Replayers[v.Property]
	if f == nil {
		fmt.Fprintf(os.Stderr, "no replayer for %s\n", v.Property)
		return 2
	}
	fails, msg := f(&v)
	fmt.Println(msg)
	if fails {
		fmt.Printf("VIOLATION property=%s replay=%s\n", v.Property, args[0])
		return 1
	}
	fmt.Println("replay: property holds on this case now")
	return 0
}
