package engines

import (
	"time"

	"verif/harness/internal/core"
)

func asaSpaces(ctx *core.Ctx) []*space {
	l := []*space{
		c01ACLSpace("acl", 6, 3),
		c01GroupSpace("grp", 3),
		routePairSpace("ASA"),
		asaBindSpace(),
		asaSpellSpace(),
		asaVPNSpace(),
		asaPeerSpace(),
		asaPeer6Space(),
		asaWebvpnSpace(),
		asaSharedGroupSpace(),
		asaEditSpace(),
		noiseSpace("ASA"),
		corpusSpace("ASA"),
	}
	if ctx.Thorough() {
		l = append(l, c01ACLSpace("acl-x", 8, 4), c01GroupSpace("grp-x", 4))
	}
	return l
}

func c01Worker(ctx *core.Ctx) *core.Result {
	x := newApprovex(ctx, "C01", oracles{conv: true})
	defer x.sc.Close()
	x.runSpaces(asaSpaces(ctx))
	x.runNoise("ASA", 0)
	x.runChain("ASA", ctx)
	return x.res
}

func init() {
	registerSharded("C01", c01Worker, func(tier string) core.Meta {
		return core.Meta{ID: "C01", Level: "model_checking",
			Rule: "states = distinct device-model states (per worker, summed); transitions = runs of the real planner; enumerated: all (device,target) pairs of the spaces acl, grp, rt, bind, spell, vpn, vpn-peers (crypto map entries sharing a peer on either side), vpn-webvpn (toplevel webvpn block added or removed together with edits of group-policy / username attributes), shared-group (one group used from the ACLs of two interfaces, duplicate group, left-over ACL), value-edit (the target with one argument token changed by a single-character edit, all tokens x all edits over 17 characters), noise (one unmodelled toplevel block with sub-commands inserted at every toplevel position of the device; additionally the script must equal the one emitted without the block), corpus (DEVICE_i/NETSPOC_i x NETSPOC_j of asa_*.t) and a breadth-first chain of approves over a target set; the emitted script is executed on the reference ASA model; oracle: managed view (anchors with references expanded by content) equal to the target's, second compare of the printed state silent, empty script only for equivalent device; non-trivial = script non-empty",
			Assumptions: []string{
				"reference ASA model (ciscomodel) validated against the repository's 172 DEVICE/NETSPOC/OUTPUT triples",
				"targets with IPv6/raw parts: Sem oracle uses the tool-independent merge only where C18 covers it; otherwise only the second-compare oracle applies (counted as sem_skipped_parts)",
			},
			Bounds: map[string]any{"quick": "acl len<=3 over 6 lines, groups over 3 members, chain depth 2", "thorough": "acl len<=4 over 8 lines, groups over 4 members, chain depth 3"},
		}
	}, 170*time.Second, 45*time.Minute)

	registerSharded("C08", c08Worker, func(tier string) core.Meta {
		return core.Meta{ID: "C08", Level: "model_checking",
			Rule:        "same spaces as C01..C04 (ASA, IOS; PAN-OS and NSX when built) plus the devices with unmanaged content of C07; every command of every emitted script is executed at its position on the reference device model, which rejects missing referents, deletion of referenced objects, duplicate ACL entries, line/sequence numbers outside the ACL, sub-commands outside their parent's mode and commands after leaving configuration mode; non-trivial = script non-empty",
			Assumptions: []string{"the reference models are at least as strict as the devices in the rules the statement lists"},
			Bounds:      map[string]any{"quick": "as C01/C02 quick", "thorough": "as C01/C02 thorough"},
		}
	}, 170*time.Second, 45*time.Minute)
}

func c08Worker(ctx *core.Ctx) *core.Result {
	x := newApprovex(ctx, "C08", oracles{exec: true})
	defer x.sc.Close()
	x.runSpaces(asaSpaces(ctx))
	x.runSpaces(iosSpaces(ctx))
	// devices with unmanaged content (the spaces of C07): no object that
	// is still referenced from there may be deleted
	fa, fi := frameSpaceASA("unmanaged", 2), frameSpaceIOS("unmanaged", 2)
	x.runSpaces([]*space{&fa.space, &fi.space})
	x.runChain("ASA", ctx)
	x.runChain("IOS", ctx)
	for _, f := range c08Extra {
		f(ctx, x.res)
	}
	return x.res
}

var c08Extra []func(ctx *core.Ctx, res *core.Result)
