//go:build verif

package engines

import (
	"fmt"
	"strconv"
	"strings"

	"verif/harness/internal/core"
	"verif/harness/internal/sim"
)

// Replayers: re-run one recorded violation on the current tree, without
// the explorer.

func filesFrom(in map[string]string) (a, b core.Files) {
	a = core.Files{Main: in["device"], V6: in["device6"], Raw: in["deviceraw"]}
	b = core.Files{Main: in["code"], V6: in["code6"], Raw: in["raw"], Info: in["info"]}
	return
}

func oraclesFor(prop string, tagged bool) oracles {
	switch prop {
	case "C01", "C02":
		return oracles{conv: true}
	case "C08":
		return oracles{exec: true}
	case "C10":
		return oracles{conv: true, exec: true}
	case "C14":
		return oracles{packets: true, routes: true}
	}
	return oracles{conv: true, exec: true}
}

func replayApprovex(v *core.Violation) (bool, string) {
	ctx := &core.Ctx{ID: v.Property, Tier: "quick", NShards: 1}
	a, b := filesFrom(v.Inputs)
	eng := strings.TrimPrefix(v.Engine, "approvex/")
	var res *core.Result
	switch eng {
	case "asa", "ios":
		model := strings.ToUpper(eng)
		x := newApprovex(ctx, v.Property, oraclesFor(v.Property, false))
		defer x.sc.Close()
		sp := &space{name: v.Space, model: model}
		if v.Property == "C10" && strings.HasPrefix(v.Signature, "cut:") {
			x.runCaseTag(sp, v.Index, a, b, "cut:")
		} else if v.Property == "C07" {
			return false, "C07 cases are replayed by ./run C07 quick (the unmanaged entries are part of the space definition)"
		} else {
			x.runCaseTag(sp, v.Index, a, b, "")
		}
		res = x.res
	case "linux":
		x := &linuxx{ctx: ctx, res: core.NewResult(), sc: core.NewScratch("rp"), prop: v.Property, seen: map[string]struct{}{}}
		defer x.sc.Close()
		x.routeSafety = v.Property == "C14"
		tag := ""
		if strings.HasPrefix(v.Signature, "cut:") {
			tag = "cut:"
		}
		x.runCase(&linSpace{name: v.Space}, v.Index, a.Main, b, tag)
		res = x.res
	case "panos":
		x := &panx{ctx: ctx, res: core.NewResult(), sc: core.NewScratch("rp"), prop: v.Property, conv: v.Property != "C08", exec: true,
			frame: v.Property == "C07", seen: map[string]struct{}{}}
		defer x.sc.Close()
		tag := ""
		if strings.HasPrefix(v.Signature, "cut:") {
			tag = "cut:"
		}
		x.runCase(&panSpace{name: v.Space}, v.Index, a.Main, b, tag)
		res = x.res
	case "nsx":
		x := &nsxx{ctx: ctx, res: core.NewResult(), sc: core.NewScratch("rp"), prop: v.Property, conv: v.Property != "C08", exec: true,
			seen: map[string]struct{}{}}
		defer x.sc.Close()
		tag := ""
		if strings.HasPrefix(v.Signature, "cut:") {
			tag = "cut:"
		}
		x.runCase(&nsxSpace{name: v.Space}, v.Index, a.Main, b, tag)
		res = x.res
	default:
		return false, "no single-case replayer for engine " + v.Engine + "; run ./run " + v.Property + " quick"
	}
	if len(res.Violations) > 0 {
		nv := res.Violations[0]
		return true, fmt.Sprintf("still fails: %s [%s]\n%s", nv.Oracle, nv.Signature, nv.Message)
	}
	return false, fmt.Sprintf("case re-run: %d evaluation(s), no violation", res.Evaluations)
}

func replayMut(v *core.Violation) (bool, string) {
	a, b := filesFrom(v.Inputs)
	model := map[string]string{"asa": "ASA", "ios": "IOS", "linux": "Linux", "pan-os": "PAN-OS", "nsx": "NSX"}[strings.TrimPrefix(v.Engine, "mutx/")]
	sc := core.NewScratch("rp")
	defer sc.Close()
	out := sc.Compare(model, a, b)
	if out.Status == 2 {
		return true, fmt.Sprintf("still panics at %s: %s", out.Site, out.Panic)
	}
	if out.Status == 1 && strings.TrimSpace(out.Stderr) == "" {
		return true, "still rejected without message"
	}
	return false, fmt.Sprintf("exit status %d, stderr %q", out.Status, short(out.Stderr, 200))
}

// replayDialogue re-runs a dialogue case from its recorded events
// ("scenario=<type>/<front>...", "deviation point=N kind=K").
func replayDialogue(v *core.Violation) (bool, string) {
	var devType, front string
	dev := map[int]string{}
	for _, e := range v.Events {
		if s, ok := strings.CutPrefix(e, "scenario="); ok {
			p := strings.Split(s, "/")
			if len(p) >= 2 {
				devType, front = p[0], p[1]
			}
		}
		if s, ok := strings.CutPrefix(e, "deviation point="); ok {
			f := strings.Fields(strings.Replace(s, "kind=", "", 1))
			if len(f) == 2 {
				n, _ := strconv.Atoi(f[0])
				dev[n] = f[1]
			}
		}
	}
	if devType == "" || !strings.Contains("drc drc-C drc-C-nolog do-approve do-compare", front) {
		return false, "scenario not reconstructible from the replay file; run ./run " + v.Property + " quick"
	}
	sc := baseScenario(devType, front)
	sc.device, sc.target.Main = v.Inputs["device"], v.Inputs["code"]
	scr := core.NewScratch("rp")
	defer scr.Close()
	defer closeInnerScratches()
	r := runDialogue(scr, sc, runOpts{dev: dev})
	msg := fmt.Sprintf("exit=%d\n%s\nstderr: %s", r.exit, strings.Join(r.transcript(), "\n"), short(r.stderr, 500))
	// re-evaluate with the property's oracle
	x := &dialogx{ctx: &core.Ctx{NShards: 1}, res: core.NewResult(), scr: scr, prop: v.Property}
	c := &dcase{sc: sc, dev: dev, desc: "replay"}
	switch v.Property {
	case "C09":
		c09Oracle(x)(c, r, r)
	case "C11":
		c11Oracle(x)(c, r, r)
	case "C17":
		sc.pass, sc.key = c17Pass, c17Key
		r = runDialogue(scr, sc, runOpts{dev: dev})
		c17Oracle(x)(c, r, r)
	default:
		return false, msg + "\n(no single-case oracle for " + v.Property + "; run ./run " + v.Property + " quick)"
	}
	if len(x.res.Violations) > 0 {
		return true, "still fails: " + x.res.Violations[0].Signature + "\n" + msg
	}
	return false, msg
}

var _ = sim.ClChange

func init() {
	for _, p := range []string{"C01", "C02", "C03", "C04", "C05", "C07", "C08", "C10", "C14"} {
		Replayers[p] = replayApprovex
	}
	Replayers["C20"] = replayMut
	for _, p := range []string{"C06", "C09", "C11", "C15", "C17"} {
		Replayers[p] = replayDialogue
	}
}
