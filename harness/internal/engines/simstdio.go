//go:build verif

package engines

import (
	"bufio"
	"encoding/json"
	"fmt"
	"os"
	"os/signal"
	"path/filepath"
	"syscall"
	"time"

	"verif/harness/internal/ciscomodel"
	"verif/harness/internal/linuxmodel"
	"verif/harness/internal/sim"
)

// simstdio runs an SSH device simulator on stdin/stdout, for the
// production stack: the repository's real binaries spawn it through
// SIMULATE_ROUTER with the real goexpect and a real pty.
//
//	verif simstdio <spec.json>
type stdioSpec struct {
	Flavor   string         `json:"flavor"`
	Device   string         `json:"device"`
	Hostname string         `json:"hostname"`
	Banner   string         `json:"banner"`
	Pass     string         `json:"pass"`
	Dev      map[int]string `json:"dev"`
	Ctrl     string         `json:"ctrl"`     // control directory
	PauseAt  int            `json:"pause_at"` // pause before answering this point (0 = never)
}

func appendLine(file, line string) {
	f, err := os.OpenFile(file, os.O_APPEND|os.O_CREATE|os.O_WRONLY, 0644)
	if err == nil {
		fmt.Fprintln(f, line)
		f.Close()
	}
}

func simStdio(args []string) int {
	if len(args) != 1 {
		fmt.Fprintln(os.Stderr, "usage: verif simstdio <spec.json>")
		return 2
	}
	data, err := os.ReadFile(args[0])
	if err != nil {
		fmt.Fprintln(os.Stderr, err)
		return 2
	}
	var sp stdioSpec
	if err := json.Unmarshal(data, &sp); err != nil {
		fmt.Fprintln(os.Stderr, err)
		return 2
	}
	s := &sim.SSH{Flavor: sp.Flavor, Hostname: sp.Hostname, Banner: sp.Banner, Pass: sp.Pass, Dev: sp.Dev}
	switch sp.Flavor {
	case "asa":
		s.Cisco = ciscomodel.Load(sp.Device, false)
	case "ios":
		s.Cisco = ciscomodel.Load(sp.Device, true)
	case "linux":
		lm, err := linuxmodel.Load(sp.Device)
		if err != nil {
			fmt.Fprintln(os.Stderr, err)
			return 2
		}
		s.Linux = lm
		s.OnRestore = func() error { return nil }
	}
	sess := filepath.Join(sp.Ctrl, "sessions.log")
	appendLine(sess, fmt.Sprintf("start %d", os.Getpid()))
	defer appendLine(sess, fmt.Sprintf("end %d", os.Getpid()))
	out := bufio.NewWriter(os.Stdout)
	flush := func() bool {
		for {
			c, ok, closed := s.Output()
			if ok {
				out.WriteString(c)
				continue
			}
			out.Flush()
			return !closed
		}
	}
	finish := func() {
		t, _ := json.Marshal(s.Trans)
		// atomic replace: readers never see a half written file
		tmp := filepath.Join(sp.Ctrl, "transcript.json.tmp")
		os.WriteFile(tmp, t, 0644)
		os.Rename(tmp, filepath.Join(sp.Ctrl, "transcript.json"))
		state := ""
		if s.Cisco != nil {
			state = s.Cisco.Print()
		} else if s.Linux != nil {
			state = s.Linux.Print(false)
		}
		os.WriteFile(filepath.Join(sp.Ctrl, "state.txt"), []byte(state), 0644)
		os.WriteFile(filepath.Join(sp.Ctrl, "counters.json"), []byte(fmt.Sprintf(`{"saved":%d,"reload_pending":%v,"reload_armed":%d}`, s.Saved, s.ReloadPending, s.ReloadArmed)), 0644)
	}
	signal.Ignore(syscall.SIGHUP)
	s.Start()
	if !flush() {
		finish()
		return 0
	}
	in := bufio.NewReader(os.Stdin)
	n := 0
	for {
		line, err := in.ReadString('\n')
		if err != nil {
			break
		}
		n++
		if sp.PauseAt > 0 && n == sp.PauseAt {
			os.WriteFile(filepath.Join(sp.Ctrl, "paused"), []byte(fmt.Sprint(n)), 0644)
			ppid := os.Getppid()
			for {
				if _, err := os.Stat(filepath.Join(sp.Ctrl, "resume")); err == nil {
					break
				}
				// the client was killed (the pty's SIGHUP is ignored) or the
				// work directory is gone: nobody will resume us
				if _, err := os.Stat(sp.Ctrl); err != nil || os.Getppid() != ppid {
					finish()
					return 0
				}
				time.Sleep(5 * time.Millisecond)
			}
		}
		s.Input(line)
		ok := flush()
		finish() // the pty may go away (SIGHUP) any time after the last answer
		if !ok {
			break
		}
	}
	finish()
	return 0
}

func init() { Debug["simstdio"] = simStdio }
