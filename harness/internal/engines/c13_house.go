//go:build verif

package engines

import (
	"fmt"
	"os"
	"os/exec"
	"path/filepath"
	"strings"
	"time"

	"verif/harness/internal/core"
	"verif/harness/internal/corpus"
)

// C13, housekeeping by the repository's own cron scripts: the events
// "bzip2 of old policy" and "removal of old policy" of the history search
// are bound to what bin/compress-policies and bin/delete-old-policies
// really do to a policy tree.  After every short history the two scripts
// run on the tree (compress_at = 0: every policy directory of today is a
// candidate; all non-current policies are made older than keep_history);
// then the real missing-approve must still satisfy the reference.
var c13HouseHistories = [][]string{
	{},
	{"new:v4"},
	{"approve-ok"},
	{"new:v4", "approve-ok"},
	{"approve-ok", "new:same"},
	{"approve-ok", "new:v4"},
	{"compare", "new:raw", "new:same"},
	{"new:v6", "approve-ok", "new:same", "new:same"},
	{"approve-ok", "new:same", "drift", "compare"},
}

func c13Housekeeping(ctx *core.Ctx, res *core.Result) {
	scr := core.NewScratch("C13house")
	defer scr.Close()
	binPath := filepath.Join(core.VerifDir, ".build", "bin") + ":" + os.Getenv("PATH")
	for hi, h := range c13HouseHistories {
		for _, job := range []string{"compress-policies", "delete-old-policies", "both", "delete-old-policies-quiet"} {
			dir := filepath.Join(scr.Dir, fmt.Sprintf("h%d-%s", hi, job))
			os.MkdirAll(dir, 0755)
			w := newC13World(dir)
			ok := true
			for _, ev := range h {
				if !w.enabled(ev) {
					ok = false
					break
				}
				if err := w.apply(ev); err != nil {
					res.Broken = append(res.Broken, "house: "+err.Error())
					ok = false
					break
				}
			}
			if !ok {
				continue
			}
			os.WriteFile(filepath.Join(dir, ".netspoc-approve"),
				[]byte("basedir = "+dir+"\ncompress_at = 0\nkeep_history = 30\n"), 0644)
			os.MkdirAll(filepath.Join(dir, "history"), 0755)
			os.MkdirAll(filepath.Join(dir, "lock"), 0755)
			ev := append([]string{}, h...)
			run := func(script string) bool {
				c := exec.Command(filepath.Join(corpus.RepoDir, "bin", script))
				c.Env = []string{"HOME=" + dir, "PATH=" + binPath}
				if out, err := c.CombinedOutput(); err != nil {
					// the cron job itself fails on a tree that only normal use produced
					res.Evaluations++
					res.AddViolation(core.Violation{Property: "C13", Engine: "histx/house", Space: job, Events: append(append([]string{}, ev...), "cron: "+script),
						Oracle: "never-forgets", Signature: "house-script-failed:" + script,
						Message: fmt.Sprintf("%s fails: %v\n%s", script, err, strings.ReplaceAll(string(out), dir, "$BASE"))})
					return false
				}
				ev = append(ev, "cron: "+script)
				return true
			}
			if job == "delete-old-policies-quiet" {
				// nothing happened for 40 days: no new policy (so the current
				// one, the link to it and the directories themselves are that
				// old); the status files are younger (a compare ran meanwhile)
				old := []string{"-h", "-d", "40 days ago", filepath.Join(dir, "policies"), filepath.Join(dir, "policies", "current"),
					filepath.Join(dir, "status"), filepath.Join(dir, "history"), filepath.Join(dir, "lock")}
				for _, p := range w.policies {
					old = append(old, w.pdir(p.n))
				}
				if out, err := exec.Command("touch", old...).CombinedOutput(); err != nil {
					res.Broken = append(res.Broken, fmt.Sprintf("house: touch: %v %s", err, out))
					continue
				}
				if !run("delete-old-policies") {
					continue
				}
				// the job may remove the old policies, never the current one
				for _, p := range w.policies[:len(w.policies)-1] {
					p.disk = "gone"
				}
			} else if job != "compress-policies" {
				// every policy but the current one is older than keep_history
				old := time.Now().Add(-40 * 24 * time.Hour)
				for _, p := range w.policies[:len(w.policies)-1] {
					os.Chtimes(w.pdir(p.n), old, old)
				}
				if !run("delete-old-policies") {
					continue
				}
				for _, p := range w.policies[:len(w.policies)-1] {
					p.disk = "gone"
				}
			}
			if job != "delete-old-policies" && job != "delete-old-policies-quiet" {
				if !run("compress-policies") {
					continue
				}
				for _, p := range w.policies[:len(w.policies)-1] {
					if p.disk == "plain" {
						p.disk = "bz2"
					}
				}
			}
			res.Evaluations++
			res.Transitions++
			res.Count("housekeeping_runs", 1)
			listed, out, err := runMissingApprove(dir)
			if err != nil {
				res.AddViolation(core.Violation{Property: "C13", Engine: "histx/house", Space: job, Events: ev,
					Oracle: "never-forgets", Signature: "house-failed:" + job,
					Message: fmt.Sprintf("missing-approve fails after the cron job(s): %v %s", err, strings.TrimSpace(out))})
				continue
			}
			mustList, mustOmit := w.reference()
			res.Nontrivial++
			res.Outcome(fmt.Sprintf("house:%s:listed=%v", job, listed))
			if miss := c13OthersMissing(out, w.current().code[1] != 0); miss != "" {
				res.AddViolation(core.Violation{Property: "C13", Engine: "histx/house", Space: job, Events: ev,
					Oracle: "never-forgets", Signature: "house-forgotten-other:" + job,
					Message: fmt.Sprintf("after the cron job(s) the never-approved device %q is not listed; output %q", miss, strings.TrimSpace(out))})
				continue
			}
			if mustList && !listed {
				res.AddViolation(core.Violation{Property: "C13", Engine: "histx/house", Space: job, Events: ev,
					Oracle: "never-forgets", Signature: "house-forgotten:" + job,
					Message: fmt.Sprintf("after the cron job(s) the device is not listed; output %q", strings.TrimSpace(out))})
			}
			if mustOmit && listed {
				res.AddViolation(core.Violation{Property: "C13", Engine: "histx/house", Space: job, Events: ev,
					Oracle: "terminates", Signature: "house-overlisted:" + job,
					Message: "after the cron job(s) the device is listed although the observed policy is still on disk"})
			}
		}
	}
}
