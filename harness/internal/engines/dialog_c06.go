//go:build verif

package engines

import (
	"fmt"
	"strings"
	"time"

	"verif/harness/internal/core"
	"verif/harness/internal/sim"
)

// C06: approve never changes a wrong, unmanaged or passive device.

const (
	haDisabled    = ""
	haAPActive    = "<enabled>yes</enabled><group><mode>Active-Passive</mode><local-info><state>active</state></local-info></group>"
	haAPPassive   = "<enabled>yes</enabled><group><mode>Active-Passive</mode><local-info><state>passive</state></local-info></group>"
	haAAPrimary   = "<enabled>yes</enabled><group><mode>Active-Active</mode><local-info><state>active-primary</state></local-info></group>"
	haAASecondary = "<enabled>yes</enabled><group><mode>Active-Active</mode><local-info><state>active-secondary</state></local-info></group>"
	haMalformed   = "<enabled>yes</enabled><group><mode>Active-Passive</mode><local-info>"
	haUnknownMode = "<enabled>yes</enabled><group><mode>Cluster</mode><local-info><state>active</state></local-info></group>"
)

type c06case struct {
	sc        *dscenario
	mustBlock bool   // the interlock must refuse
	why       string // hostname | marker | ha
	like      *dscenario // not-configured: must behave like this run
}

func c06Cases() []c06case {
	var l []c06case
	for _, t := range []string{"ASA", "IOS", "Linux", "PAN-OS"} {
		for _, front := range []string{"drc", "do-approve"} {
			for _, pending := range []bool{true, false} {
				mk := func() *dscenario {
					if pending {
						return baseScenario(t, front)
					}
					return unchangedScenario(t, front)
				}
				for _, nh := range c06Hostnames() {
					dn, hi, host := nh.devName, nh.idx, nh.host
					if (hi > 2 || dn != "router") && !pending {
						continue // near-miss names: with pending changes only
					}
					for mi, marker := range []string{"present", "absent", "not-configured"} {
						if (hi > 2 || dn != "router") && mi != 0 {
							continue
						}
						sc := mk()
						sc.name = fmt.Sprintf("%s/%s/pending=%v/name=%s/host=%s/marker=%s", t, front, pending, dn, host, marker)
						sc.devName = dn
						sc.hostname = host
						if t == "PAN-OS" {
							sc.device = strings.Replace(sc.device, "<hostname>router</hostname>", "<hostname>"+host+"</hostname>", 1)
						}
						switch marker {
						case "absent":
							sc.banner = "Welcome to this device"
							if t == "Linux" {
								sc.banner = "Debian GNU/Linux 12\n"
							}
							if t == "PAN-OS" {
								sc.device = strings.Replace(sc.device, netspocBanner, "manually configured", 1)
							}
						case "not-configured":
							sc.checkbanner = ""
							sc.banner = "Welcome to this device"
							if t == "Linux" {
								sc.banner = "Debian GNU/Linux 12\n"
							}
							// PAN-OS has no configurable marker: the display-name rule always applies
						}
						c := c06case{sc: sc}
						if hi != 0 {
							c.mustBlock, c.why = true, "hostname"
						} else if mi == 1 {
							c.mustBlock, c.why = true, "marker"
						} else if mi == 2 && t != "PAN-OS" {
							like := mk()
							like.devName = dn
							like.hostname = host
							c.like = like
						}
						if t == "PAN-OS" && mi == 2 {
							continue
						}
						l = append(l, c)
					}
				}
			}
		}
	}
	// marker texts as administrators write them: the configured regular
	// expression starts with or contains a '#' (the comment character of
	// the configuration file when it is the first character of a line)
	for _, t := range []string{"ASA", "IOS"} {
		for _, front := range []string{"drc", "do-approve"} {
			for _, value := range []string{"#.managed.by.NetSPoC", "NetSPoC.#1", "###"} {
				for _, present := range []bool{true, false} {
					sc := baseScenario(t, front)
					sc.checkbanner = value
					sc.banner = "Welcome to this device"
					if present {
						sc.banner = "### managed by NetSPoC #1 ###"
					}
					sc.name = fmt.Sprintf("%s/%s/checkbanner=%s/marker-present=%v", t, front, value, present)
					c := c06case{sc: sc}
					if !present {
						c.mustBlock, c.why = true, "marker"
					}
					l = append(l, c)
				}
			}
		}
	}
	// PAN-OS with two vsys that Netspoc manages: the marker of each one counts
	for _, front := range []string{"drc", "do-approve"} {
		for _, pending := range []bool{true, false} {
			for mk := 0; mk < 4; mk++ {
				sc := baseScenario("PAN-OS", front)
				m1, m2 := mk&1 == 0, mk&2 == 0 // marker present in vsys1 / vsys2
				dn := func(present bool) string {
					if present {
						return "<display-name>" + netspocBanner + "</display-name>"
					}
					return "<display-name>manually configured</display-name>"
				}
				rs := func(s ...int) []panRuleT {
					var l []panRuleT
					for _, i := range s {
						l = append(l, panRules[i])
					}
					return l
				}
				t1, t2 := rs(1, 0, 4), rs(0, 2)
				d1, d2 := rs(0, 3), rs(2)
				if !pending {
					d1, d2 = t1, t2
				}
				sc.device = panConfig(panVsysT{name: "vsys1", rules: d1, extra: dn(m1)}, panVsysT{name: "vsys2", rules: d2, extra: dn(m2)})
				sc.target.Main = panConfig(panVsysT{name: "vsys1", rules: t1}, panVsysT{name: "vsys2", rules: t2})
				sc.name = fmt.Sprintf("PAN-OS/%s/pending=%v/two-vsys/marker1=%v/marker2=%v", front, pending, m1, m2)
				l = append(l, c06case{sc: sc, mustBlock: !(m1 && m2), why: "marker"})
			}
		}
	}
	// PAN-OS high availability
	for _, front := range []string{"drc", "do-approve"} {
		for _, pending := range []bool{true, false} {
			for _, ha := range []struct {
				name, xml string
				block     bool
			}{{"disabled", haDisabled, false}, {"ap-active", haAPActive, false}, {"ap-passive", haAPPassive, true},
				{"aa-primary", haAAPrimary, false}, {"aa-secondary", haAASecondary, true}, {"malformed", haMalformed, true},
				{"unknown-mode", haUnknownMode, true}} {
				var sc *dscenario
				if pending {
					sc = baseScenario("PAN-OS", front)
				} else {
					sc = unchangedScenario("PAN-OS", front)
				}
				sc.name = fmt.Sprintf("PAN-OS/%s/pending=%v/ha=%s", front, pending, ha.name)
				sc.ha = ha.xml
				if ha.xml == "" {
					sc.ha = ""
				}
				l = append(l, c06case{sc: sc, mustBlock: ha.block, why: "ha"})
			}
		}
	}
	return l
}

// c06Hostnames: expected device name x hostname the device reports.
// idx 0 is the matching hostname; 1, 2 are the plain other / domain
// suffix variants; the rest are near misses (prefix, suffix, case, one
// character replaced where the expected name has a regexp or glob
// metacharacter) that only an exact comparison tells apart.
type c06nh struct {
	devName string
	idx     int
	host    string
}

func c06Hostnames() []c06nh {
	var l []c06nh
	// The last name is longer than the 31 characters some devices
	// show of a hostname; the device reporting exactly its first 31
	// characters is another device.
	for _, dn := range []string{"router", "fw.dmz", "fw-[1]", "paloalto-cluster-hamburg-dmz-fw-node-a"} {
		hosts := []string{dn, "other", dn + ".example.com", "x" + dn, dn + "2", strings.ToUpper(dn), dn[:len(dn)-1]}
		if len(dn) > 31 {
			hosts = append(hosts, dn[:31], dn[:32])
		}
		for i, c := range dn {
			if strings.ContainsRune(".[]*?+", c) {
				hosts = append(hosts, dn[:i]+"-"+dn[i+1:], dn[:i]+"x"+dn[i+1:])
			}
		}
		if dn == "fw-[1]" {
			hosts = append(hosts, "fw-1")
		}
		seen := map[string]bool{}
		for i, h := range hosts {
			if i > 0 && (h == dn || seen[h]) {
				continue
			}
			seen[h] = true
			l = append(l, c06nh{dn, i, h})
		}
	}
	return l
}

func c06Worker(ctx *core.Ctx) *core.Result {
	x := newDialogx(ctx, "C06")
	defer x.close()
	for i, c := range c06Cases() {
		if !ctx.Mine(int64(i)) {
			continue
		}
		sc := c.sc
		r := runDialogue(x.scr, sc, runOpts{})
		x.res.Evaluations++
		dc := &dcase{sc: sc, dev: map[int]string{}, desc: "interlock"}
		x.res.Outcome(fmt.Sprintf("%s block=%v exit=%d", sc.devType, c.mustBlock, r.exit))
		if r.panicMsg != "" {
			x.violation(dc, r, "no-panic", "panic:"+sc.devType+":"+panicKey(r.panicMsg), "runtime panic: "+r.panicMsg)
			continue
		}
		if c.mustBlock {
			x.res.Nontrivial++
			bad := ""
			for _, t := range r.trans {
				switch t.Class {
				case sim.ClChange, sim.ClSave, sim.ClReload:
					bad = fmt.Sprintf("%q [%s]", t.Text, t.Class)
				}
				if bad != "" {
					break
				}
			}
			log := r.stderr + r.stdout
			for name, data := range r.files {
				if strings.HasSuffix(name, ".drc") {
					log += data
				}
			}
			sessConf := ""
			for _, t := range r.trans {
				if t.Class == sim.ClSessionConf && strings.HasPrefix(t.Text, "terminal width") {
					sessConf = t.Text
				}
			}
			switch {
			case bad != "":
				x.violation(dc, r, "interlock-blocks", "changed-despite:"+sc.devType+":"+c.why, "interlock ("+c.why+") did not stop the run: sent "+bad)
			case sessConf != "":
				x.violation(dc, r, "interlock-blocks", "session-config-despite:"+sc.devType+":"+c.why, "before the interlock ("+c.why+") stopped the run it sent "+sessConf+" in configuration mode")
			case r.before != r.after:
				x.violation(dc, r, "interlock-blocks", "state-changed-despite:"+sc.devType+":"+c.why, "device state changed")
			case r.exit == 0:
				x.violation(dc, r, "interlock-reports", "exit0-despite:"+sc.devType+":"+c.why, "interlock ("+c.why+") not reported: exit status 0")
			case !strings.Contains(log, "ERROR>>>") && !strings.Contains(log, "Error:"):
				x.violation(dc, r, "interlock-reports", "no-diagnostic:"+sc.devType+":"+c.why, "no diagnostic printed")
			}
			continue
		}
		if c.like != nil {
			x.res.Nontrivial++
			ref := runDialogue(x.scr, c.like, runOpts{})
			x.res.Evaluations++
			if r.exit != ref.exit || r.after != ref.after {
				x.violation(dc, r, "not-configured-like-present", "not-configured-differs:"+sc.devType,
					fmt.Sprintf("without a configured banner text the run must behave like the marker-present run: exit %d vs %d, final state equal: %v",
						r.exit, ref.exit, r.after == ref.after))
			}
			continue
		}
		// positive controls: a correct, managed, active device is approved
		if r.exit != 0 {
			x.violation(dc, r, "managed-device-approved", "refused-good-device:"+sc.devType, "approve of a correct, managed, active device failed")
		}
	}
	return x.res
}

func panicKey(msg string) string {
	if strings.Contains(msg, "nil pointer") {
		return "nil-deref"
	}
	if strings.Contains(msg, "index out of range") {
		return "index"
	}
	return "other"
}

func init() {
	registerSharded("C06", c06Worker, func(tier string) core.Meta {
		return core.Meta{ID: "C06", Level: "fault_enumeration",
			Rule: "full product, no sampling: device type {ASA, IOS, Linux, PAN-OS} x front end {drc, do-approve approve} x pending changes {some, none} x reported hostname {expected, other, expected with domain suffix} x marker; for expected names {router, fw.dmz, fw-[1], a name of 38 characters} additionally near-miss hostnames (prefix, suffix, upper case, last character dropped, the first 31 / 32 characters of the long name, each regexp/glob metacharacter of the name replaced by another character) with pending changes and marker present; {present, absent, banner text not configured}; ASA / IOS with marker expressions that start with or contain '#' x marker present / absent; plus PAN-OS devices with two managed vsys x marker present/absent in each; plus PAN-OS high-availability answers {disabled, A/P active, A/P passive, A/A primary, A/A secondary, malformed, unknown mode}; each combination is one real approve run against the simulator; oracle: where the interlock applies the transcript has no config-changing, save/commit or reload-control line, the device state is unchanged, exit status != 0 and a diagnostic is printed; with no banner text configured the run must end like the marker-present run (same exit status and final device state); good devices must be approved (positive control); non-trivial = combinations where an interlock or the not-configured rule applies",
			Assumptions: []string{"NSX has no hostname, marker or HA notion in the statement and is left out"},
			Bounds:      map[string]any{"runs": "about 330 combinations, same in both tiers"},
		}
	}, 120*time.Second, 10*time.Minute)
}
