package engines

import (
	"fmt"
	"hash/fnv"
	"os"
	"strings"
	"sync/atomic"
	"time"

	"verif/harness/internal/core"
	"verif/harness/internal/corpus"
)

// C20: the statement's finite mutation family, enumerated completely.

type mutOp struct {
	name  string
	quick bool
	apply func(line string, words []string, emit func(string))
}

func isSeqNum(s string) bool {
	if s == "" {
		return false
	}
	for _, c := range s {
		if c < '0' || c > '9' {
			return false
		}
	}
	return true
}

func indentOf(line string) string {
	return line[:len(line)-len(strings.TrimLeft(line, " \t"))]
}

var mutOps = []mutOp{
	{"truncate", true, func(line string, w []string, emit func(string)) {
		ind := indentOf(line)
		for k := 1; k < len(w); k++ {
			emit(ind + strings.Join(w[:k], " "))
		}
	}},
	{"delete-token", true, func(line string, w []string, emit func(string)) {
		ind := indentOf(line)
		for j := range w {
			n := append(append([]string{}, w[:j]...), w[j+1:]...)
			emit(ind + strings.Join(n, " "))
		}
	}},
	{"duplicate-token", false, func(line string, w []string, emit func(string)) {
		ind := indentOf(line)
		for j := range w {
			n := append(append(append([]string{}, w[:j+1]...), w[j]), w[j+1:]...)
			emit(ind + strings.Join(n, " "))
		}
	}},
	{"swap-tokens", false, func(line string, w []string, emit func(string)) {
		ind := indentOf(line)
		for j := 0; j+1 < len(w); j++ {
			n := append([]string{}, w...)
			n[j], n[j+1] = n[j+1], n[j]
			emit(ind + strings.Join(n, " "))
		}
	}},
	{"indent", false, func(line string, w []string, emit func(string)) {
		emit(" " + line)
		if strings.HasPrefix(line, " ") {
			emit(line[1:])
			emit(strings.TrimLeft(line, " "))
		}
	}},
	{"empty-line", true, func(line string, w []string, emit func(string)) {
		emit("")
	}},
	// a second blank between two tokens
	{"double-space", true, func(line string, w []string, emit func(string)) {
		ind := indentOf(line)
		for j := 1; j < len(w); j++ {
			emit(ind + strings.Join(w[:j], " ") + "  " + strings.Join(w[j:], " "))
		}
	}},
	// an object-group reference at every position of an ACL entry (real
	// devices of either Cisco type accept object-groups in ACLs)
	{"insert-object-group", true, func(line string, w []string, emit func(string)) {
		if len(w) == 0 || !(w[0] == "permit" || w[0] == "deny" || w[0] == "access-list" || isSeqNum(w[0])) {
			return
		}
		ind := indentOf(line)
		for j := 1; j <= len(w); j++ {
			n := append(append(append([]string{}, w[:j]...), "object-group", "g1"), w[j:]...)
			emit(ind + strings.Join(n, " "))
		}
	}},
	// the last token twelve more times (a long list of names or values)
	{"repeat-last-token", true, func(line string, w []string, emit func(string)) {
		if len(w) > 0 {
			emit(strings.TrimRight(line, " ") + strings.Repeat(" "+w[len(w)-1], 12))
		}
	}},
}

var wholeFile = []struct{ name, text string }{
	{"empty", ""},
	{"nul-bytes", "\x00\x00\x00\x00\n"},
	{"long-token", strings.Repeat("x", 65536) + "\n"},
	{"unterminated-quote", "ldap attribute-map X\n map-value memberOf \"abc def\n"},
	{"only-append", "[APPEND]\n"},
	{"only-space", "   \n \n"},
	{"binary", "\xff\xfe\x00\x01<\n{[\"\n"},
}

type c20 struct {
	ctx     *core.Ctx
	res     *core.Result
	sc      *core.Scratch
	seen    map[uint64]struct{}
	viaBinary bool       // run the mutant through the drc binary
	current atomic.Value // string: case being run (for the watchdog)
	started atomic.Int64
}

func (x *c20) runOne(model string, a, b core.Files, slot, op string, id string) {
	h := fnv.New64a()
	for _, s := range []string{model, a.Main, "\x00", b.Main, "\x00", b.V6, "\x00", b.Raw, "\x00", b.Info} {
		h.Write([]byte(s))
	}
	k := h.Sum64()
	if _, dup := x.seen[k]; dup {
		x.res.Count("duplicate_mutants_skipped", 1)
		return
	}
	x.seen[k] = struct{}{}
	x.current.Store(id)
	x.started.Store(time.Now().UnixNano())
	var out core.Outcome
	if x.viaBinary {
		// inputs that may end in a fatal error (stack overflow) which cannot
		// be recovered in-process: the built drc binary, 20 s limit
		x.started.Store(0)
		out = x.sc.CompareBinary(model, a, b, 20*time.Second)
		if out.Status == 3 {
			x.res.Evaluations++
			x.res.Nontrivial++
			x.violation(model, a, b, slot, op, "terminates", "hang:drc", "drc did not end within 20 s")
			return
		}
	} else {
		out = x.sc.Compare(model, a, b)
	}
	x.started.Store(0)
	x.res.Evaluations++
	x.res.Count("op:"+op, 1)
	switch out.Status {
	case 0:
		x.res.Outcome("accepted")
	case 1:
		x.res.Nontrivial++
		msg := firstLine(out.Stderr)
		x.res.Outcome("rejected:" + short(execSig(fmt.Errorf("%s", msg)), 40))
		if strings.TrimSpace(out.Stderr) == "" {
			x.violation(model, a, b, slot, op, "rejected-without-message", "reject:no-message", "exit status 1 but nothing on stderr")
		}
	default:
		x.res.Nontrivial++
		x.res.Outcome("panic:" + out.Site)
		// a deliberate panic(err) and a runtime error (nil dereference, index
		// out of range, fatal error) at the same site are different findings
		sig := "panic:" + out.Site
		if strings.Contains(out.Panic, "runtime error") || strings.Contains(out.Panic, "fatal error") {
			sig += ":runtime-error"
		}
		x.violation(model, a, b, slot, op, "no-panic", sig,
			fmt.Sprintf("runtime panic at %s: %s", out.Site, short(out.Panic, 200)))
	}
}

func (x *c20) violation(model string, a, b core.Files, slot, op, oracle, sig, msg string) {
	x.res.AddViolation(core.Violation{Property: "C20", Engine: "mutx/" + strings.ToLower(model),
		Space: slot + "/" + op, Inputs: inputsOf(a, b), Oracle: oracle, Signature: sig, Message: msg})
}

func (x *c20) mutateText(text string, thorough bool, f func(op, mutated string)) {
	lines := strings.Split(text, "\n")
	for li, line := range lines {
		if strings.TrimSpace(line) == "" {
			continue
		}
		w := strings.Fields(line)
		for _, op := range mutOps {
			if !op.quick && !thorough {
				continue
			}
			op.apply(line, w, func(nl string) {
				if nl == line {
					return
				}
				n := append(append(append([]string{}, lines[:li]...), nl), lines[li+1:]...)
				f(op.name, strings.Join(n, "\n"))
			})
		}
	}
	// truncation of the file at every line boundary
	if thorough {
		for li := 1; li < len(lines); li++ {
			f("file-truncate", strings.Join(lines[:li], "\n"))
		}
	}
}

func c20Worker(ctx *core.Ctx) *core.Result {
	x := &c20{ctx: ctx, res: core.NewResult(), sc: core.NewScratch("C20"), seen: map[uint64]struct{}{}}
	defer x.sc.Close()
	x.current.Store("")
	// watchdog: a single case must not take longer than 20 s
	go func() {
		for {
			time.Sleep(time.Second)
			if s := x.started.Load(); s != 0 && time.Since(time.Unix(0, s)) > 20*time.Second {
				fmt.Fprintf(os.Stderr, "HANG in case %v\n", x.current.Load())
				os.Exit(5)
			}
		}
	}()
	cases, err := corpus.Load()
	if err != nil {
		x.res.Broken = append(x.res.Broken, err.Error())
		return x.res
	}
	thorough := ctx.Thorough()
	var serial int64
	for ci, c := range cases {
		if c.Scenario != "" {
			continue
		}
		if strings.Count(c.Device, "\n") > 400 || strings.Count(c.Netspoc.Main, "\n") > 400 {
			continue // generated 10 000 line ACLs: same lines over and over
		}
		if !ctx.Mine(int64(ci)) {
			continue
		}
		if ctx.Expired() {
			x.res.Incomplete = append(x.res.Incomplete, fmt.Sprintf("deadline at corpus case %d of %d (shard %d)", ci, len(cases), ctx.Shard))
			break
		}
		a := core.Files{Main: c.Device}
		b := c.Netspoc
		id := func(slot, op string) string {
			serial++
			return fmt.Sprintf("%s/%s %s %s #%d", c.File, c.Title, slot, op, serial)
		}
		// position: device
		x.mutateText(c.Device, thorough, func(op, t string) {
			x.runOne(c.Model, core.Files{Main: t}, b, "device", op, id("device", op))
		})
		// position: target parts
		x.mutateText(b.Main, thorough, func(op, t string) {
			nb := b
			nb.Main = t
			x.runOne(c.Model, a, nb, "code", op, id("code", op))
		})
		x.mutateText(b.V6, thorough, func(op, t string) {
			nb := b
			nb.V6 = t
			x.runOne(c.Model, a, nb, "code6", op, id("code6", op))
		})
		x.mutateText(b.Raw, thorough, func(op, t string) {
			nb := b
			nb.Raw = t
			x.runOne(c.Model, a, nb, "raw", op, id("raw", op))
		})
		// structural operators: JSON (NSX), XML (PAN-OS)
		type slotT struct {
			name string
			text string
			run  func(op, t string)
		}
		slots := []slotT{
			{"device", c.Device, func(op, t string) { x.runOne(c.Model, core.Files{Main: t}, b, "device", op, id("device", op)) }},
			{"code", b.Main, func(op, t string) { nb := b; nb.Main = t; x.runOne(c.Model, a, nb, "code", op, id("code", op)) }},
			{"code6", b.V6, func(op, t string) { nb := b; nb.V6 = t; x.runOne(c.Model, a, nb, "code6", op, id("code6", op)) }},
			{"raw", b.Raw, func(op, t string) { nb := b; nb.Raw = t; x.runOne(c.Model, a, nb, "raw", op, id("raw", op)) }},
		}
		for _, sl := range slots {
			if strings.TrimSpace(sl.text) == "" {
				continue
			}
			switch c.Model {
			case "NSX":
				jsonMutants(sl.text, thorough, sl.run)
			case "PAN-OS":
				xmlMutants(sl.text, false, sl.run)
				x.viaBinary = true
				xmlMutants(sl.text, true, sl.run)
				x.viaBinary = false
			}
		}
		if c.Model == "PAN-OS" && b.Main != "" {
			// a group cycle that only the merged target holds
			x.viaBinary = true
			xmlCrossCycles(b.Main, func(mainText, other string) {
				nb := b
				nb.Main, nb.Raw = mainText, other
				x.runOne(c.Model, a, nb, "raw", "xml-cross-cycle", id("raw", "xml-cross-cycle"))
				nb = b
				nb.Main, nb.V6 = mainText, other
				x.runOne(c.Model, a, nb, "code6", "xml-cross-cycle", id("code6", "xml-cross-cycle"))
			})
			x.viaBinary = false
		}
		// role changes of whole files: the IPv4 code also given as raw file
		// or as IPv6 code, the raw file given as code
		if b.Main != "" {
			nb := b
			nb.Raw = b.Main
			x.runOne(c.Model, a, nb, "raw", "role:main-as-raw", id("raw", "main-as-raw"))
			nb = b
			nb.V6 = b.Main
			x.runOne(c.Model, a, nb, "code6", "role:main-as-v6", id("code6", "main-as-v6"))
			nb = core.Files{Raw: b.Main, Info: b.Info}
			x.runOne(c.Model, a, nb, "raw", "role:only-raw", id("raw", "only-raw"))
			x.runOne(c.Model, a, core.Files{Main: b.Main, Raw: c.Device, Info: b.Info}, "raw", "role:device-as-raw", id("raw", "device-as-raw"))
		}
		if b.Raw != "" {
			nb := b
			nb.Main = b.Raw
			x.runOne(c.Model, a, nb, "code", "role:raw-as-main", id("code", "raw-as-main"))
		}
		if ci%8 == 0 || thorough {
			for _, wf := range wholeFile {
				x.runOne(c.Model, core.Files{Main: wf.text}, b, "device", "whole:"+wf.name, id("device", wf.name))
				nb := b
				nb.Main = wf.text
				x.runOne(c.Model, a, nb, "code", "whole:"+wf.name, id("code", wf.name))
				nb = b
				nb.Raw = wf.text
				if wf.text != "" {
					x.runOne(c.Model, a, nb, "raw", "whole:"+wf.name, id("raw", wf.name))
				}
				nb = b
				nb.V6 = wf.text
				if wf.text != "" {
					x.runOne(c.Model, a, nb, "code6", "whole:"+wf.name, id("code6", wf.name))
				}
			}
		}
	}
	// the part-shape combinations of C18 (targets made of IPv4, IPv6 and raw
	// parts, with and without [APPEND], chains without permitting rules,
	// several vsys / policies): legal inputs that must not crash the merge
	{
		m := &c18{ctx: ctx, res: x.res, sc: x.sc, prop: "C20"}
		n0 := x.res.Evaluations
		m.runASA()
		m.runIOS()
		m.runLinux()
		m.runPanos()
		m.runNSX()
		m.runPanosMulti()
		m.runNSXMulti()
		x.res.Count("merge_shape_inputs", x.res.Evaluations-n0)
	}
	// info files: every prefix truncation and type confusion of each field
	if ctx.Shard == 0 {
		base := `{"generated_by":"x","model":"ASA","ip_list":["10.1.13.33"],"name_list":["router"],"policy_distribution_point":"10.1.1.1"}`
		dev := "interface Ethernet0/0\n nameif inside\n"
		tgt := "access-list inside_in extended permit ip any4 any4\naccess-group inside_in in interface inside\n"
		var infos []string
		for k := 0; k < len(base); k++ {
			infos = append(infos, base[:k])
		}
		for _, v := range []string{`{"model":17}`, `{"model":["ASA"]}`, `{"model":null}`, `{"model":"ASA","ip_list":"10.1.1.1"}`,
			`{"model":"ASA","ip_list":[1]}`, `{"model":"ASA","name_list":{}}`, `[]`, `null`, `"ASA"`, `{"model":"asa"}`, `{"MODEL":"ASA"}`,
			`{"model":"ASA"}{"model":"IOS"}`, "{\"model\":\"ASA\"}\n\x00"} {
			infos = append(infos, v)
		}
		for i, inf := range infos {
			if inf == "" {
				continue // absent info file is the "default" of the harness
			}
			x.runOne("ASA", core.Files{Main: dev}, core.Files{Main: tgt, Info: inf}, "info", "info", fmt.Sprintf("info #%d", i))
		}
	}
	c20InfoLogin(ctx, x.res)
	return x.res
}

func init() {
	registerSharded("C20", c20Worker, func(tier string) core.Meta {
		return core.Meta{ID: "C20", Level: "exploration",
			Rule: "the statement's finite family, enumerated completely: for every configuration line of every DEVICE and NETSPOC block (main, ipv6, raw) of go/testdata/*.t, in the context of its own test: every word-prefix truncation, single-token deletion, line emptied (quick) plus token duplication, adjacent swap, indentation +1/-1/0, truncation of the file at every line (thorough); a second blank between two tokens, the last token repeated 12 times, an object-group reference inserted at every position of an ACL entry; structural operators for JSON inputs (NSX: every value replaced by null; thorough: by an empty array, object or string, a number, every key deleted) and XML inputs (PAN-OS: every element emptied / deleted; every <member> of an entry replaced by the entry's own name - these through the drc binary, since a stack overflow cannot be recovered in-process); role changes of whole files (IPv4 code also as raw / as IPv6 code / only as raw, device configuration as raw, raw as code); whole-file cases (empty, NUL, 64 KiB token, unterminated quote, only [APPEND], binary); both argument positions; the part-shape combinations of C18 as further legal inputs (crash oracle only); info files: every prefix truncation and type confusion, and name_list x ip_list of 0..3 entries each in dialogue runs of all five device types with every single deviation of C09 (the loop over the lists is reached only when earlier logins fail); each mutant goes through the real device.CompareFiles in-process; verdict: exit status 0 or 1, message on stderr when 1, no runtime panic, no case longer than 20 s; identical mutants are run once; non-trivial = mutants the tool rejected or crashed on; status files and do-approve/missing-approve inputs: see C13 (damaged status files)",
			Assumptions: []string{"a runtime panic recovered in-process is what the binaries turn into exit status 2 plus a Go trace (confirmed on the real binary for each call site listed in known-findings.json)"},
			Bounds:      map[string]any{"quick": "truncate, delete-token, empty-line operators", "thorough": "all operators + file truncations"},
		}
	}, 170*time.Second, 40*time.Minute)
}
