//go:build verif

package engines

import (
	"fmt"
	"net/url"
	"strings"
	"time"

	"verif/harness/internal/core"
	"verif/harness/internal/sim"
)

var allDevTypes = []string{"ASA", "IOS", "Linux", "PAN-OS", "NSX"}

func isHTTPS(t string) bool { return t == "PAN-OS" || t == "NSX" }

// deviationsAt lists the non-default answers the explorer may give at the
// point where rec was received in the baseline run.
func deviationsAt(sc *dscenario, rec sim.Rec) []string {
	if isHTTPS(sc.devType) {
		l := []string{sim.DevHTTP500, sim.DevHTTP403, sim.DevHTTP502E, sim.DevHTTP400J, sim.DevMalformed, sim.DevClose, sim.DevStall, sim.DevStallBody, sim.DevAPIError,
			sim.DevRedirClose, sim.DevRedirLoop, sim.DevTruncated, sim.DevHTTP404Echo}
		if rec.Class == sim.ClSave {
			l = append(l, sim.DevCommitMsg, sim.DevJobFail, sim.DevJobPend, sim.DevJobPendLong)
		}
		return l
	}
	l := []string{sim.DevError, sim.DevGarbage, sim.DevStall, sim.DevClose}
	if rec.Class == sim.ClChange {
		l = append(l, sim.DevError1)
	}
	if rec.Class == sim.ClSave {
		l = append(l, sim.DevNoOK)
		if sc.devType == "IOS" {
			l = append(l, sim.DevSaveAbort, sim.DevNvramQ, sim.DevNvramQAbort)
		}
	}
	if (sc.devType == "ASA" || sc.devType == "IOS") && (rec.Class == sim.ClRead || rec.Class == sim.ClChange) && rec.Text != "" {
		l = append(l, sim.DevAuthz)
	}
	if rec.Class == sim.ClRead && (rec.Text == "sh run" || rec.Text == "write term" || rec.Text == "iptables-save") {
		l = append(l, sim.DevBadConf)
	}
	if sc.devType == "ASA" && rec.Class == sim.ClChange && !strings.HasPrefix(rec.Text, "configure terminal") {
		l = append(l, sim.DevWarnErr, sim.DevInfoErr)
	}
	if sc.devType == "Linux" && rec.Class == sim.ClChange {
		l = append(l, sim.DevExit1)
	}
	if rec.Class == sim.ClLogin {
		// password: wrong-password answer, silence, close
		l = []string{sim.DevError, sim.DevStall, sim.DevClose}
		if rec.Text != "<password>" {
			l = []string{sim.DevStall, sim.DevClose}
		}
		if rec.Text == "enable" {
			l = []string{sim.DevError, sim.DevStall, sim.DevClose}
		}
	}
	return l
}

type dcase struct {
	sc   *dscenario
	dev  map[int]string
	desc string
}

type dialogx struct {
	ctx  *core.Ctx
	res  *core.Result
	scr  *core.Scratch
	prop string
}

func newDialogx(ctx *core.Ctx, prop string) *dialogx {
	return &dialogx{ctx: ctx, res: core.NewResult(), scr: core.NewScratch(prop), prop: prop}
}

func (x *dialogx) close() {
	closeInnerScratches()
	x.scr.Close()
}

func (x *dialogx) violation(c *dcase, r *drun, oracle, sig, msg string) {
	ev := []string{"scenario=" + c.sc.name}
	for p, k := range c.dev {
		ev = append(ev, fmt.Sprintf("deviation point=%d kind=%s", p, k))
	}
	ev = append(ev, r.transcript()...)
	x.res.AddViolation(core.Violation{Property: x.prop, Engine: "dialogx/" + strings.ToLower(c.sc.devType),
		Space: c.sc.front, Inputs: map[string]string{"device": c.sc.device, "code": c.sc.target.Main, "scenario": c.sc.name + " " + c.desc},
		Events: ev, Oracle: oracle, Signature: sig,
		Message: fmt.Sprintf("%s\nexit=%d\nstdout: %s\nstderr: %s", msg, r.exit, short(r.stdout, 600), short(r.stderr, 600))})
}

// enumerate runs f for the baseline of every scenario and for every single
// deviation at every point (bound 1); with pairs=true also for every pair
// whose second deviation lies behind the first (bound 2).
func (x *dialogx) enumerate(scs []*dscenario, pairs bool, f func(c *dcase, r *drun, base *drun)) {
	var serial int64
	for _, sc := range scs {
		base := runDialogue(x.scr, sc, runOpts{})
		x.res.Evaluations++
		x.res.Count("baseline_runs", 1)
		x.res.Count("points_in_baselines", int64(base.points))
		if x.ctx.Shard == 0 {
			f(&dcase{sc: sc, dev: map[int]string{}, desc: "baseline"}, base, base)
		}
		if len(x.res.Samples) < 2 {
			x.res.Sample(map[string]any{"scenario": sc.name, "baseline_transcript": base.transcript()})
		}
		for ri, rec := range base.trans {
			if rec.Point < 1 {
				continue
			}
			if ri == len(base.trans)-1 && rec.Text == "exit" {
				continue // the session is over; the answer to the final exit is never awaited
			}
			for _, kind := range deviationsAt(sc, rec) {
				serial++
				if !x.ctx.Mine(serial) {
					continue
				}
				if x.ctx.Expired() {
					x.res.Incomplete = append(x.res.Incomplete, "deadline in scenario "+sc.name)
					return
				}
				c := &dcase{sc: sc, dev: map[int]string{rec.Point: kind}, desc: fmt.Sprintf("%s@%d(%s)", kind, rec.Point, short(rec.Text, 40))}
				r := runDialogue(x.scr, sc, runOpts{dev: c.dev})
				x.res.Evaluations++
				x.res.Nontrivial++
				x.res.Count("deviation:"+kind, 1)
				f(c, r, base)
				if !pairs {
					continue
				}
				// second deviation at any later point of this run
				for ri2, rec2 := range r.trans {
					if rec2.Point <= rec.Point || rec2.Dev != "" {
						continue
					}
					if ri2 == len(r.trans)-1 && rec2.Text == "exit" {
						continue // as above: the answer to the final exit is never awaited
					}
					for _, kind2 := range deviationsAt(sc, rec2) {
						c2 := &dcase{sc: sc, dev: map[int]string{rec.Point: kind, rec2.Point: kind2},
							desc: fmt.Sprintf("%s@%d+%s@%d", kind, rec.Point, kind2, rec2.Point)}
						r2 := runDialogue(x.scr, sc, runOpts{dev: c2.dev})
						x.res.Evaluations++
						x.res.Nontrivial++
						x.res.Count("deviation-pairs", 1)
						f(c2, r2, base)
					}
				}
			}
		}
	}
}

// ---------------------------------------------------------------------
// C09

func cmdKey(t string) string {
	w := strings.Fields(t)
	if len(w) == 0 {
		return "<empty line>"
	}
	if strings.HasPrefix(t, "GET ") || strings.HasPrefix(t, "POST ") || strings.HasPrefix(t, "PUT ") ||
		strings.HasPrefix(t, "PATCH ") || strings.HasPrefix(t, "DELETE ") {
		// request kind
		u, _ := url.Parse(w[1])
		if u != nil {
			q := u.Query()
			if q.Get("type") != "" {
				k := "type=" + q.Get("type")
				if q.Get("action") != "" {
					k += "&action=" + q.Get("action")
				}
				if strings.Contains(q.Get("cmd"), "high-availability") {
					k += "(ha)"
				}
				if strings.Contains(q.Get("cmd"), "<jobs>") {
					k += "(jobs)"
				}
				return k
			}
			p := u.Path
			for _, s := range []string{"/gateway-policies/", "/groups/", "/services/"} {
				if i := strings.Index(p, s); i >= 0 {
					p = p[:i+len(s)] + "*"
				}
			}
			return w[0] + " " + p
		}
	}
	if len(w) > 2 {
		w = w[:2]
	}
	return strings.Join(w, " ")
}

// failurePoint returns the index in trans of the first failed answer.
func failurePoint(r *drun) int {
	for i, t := range r.trans {
		if t.Dev == sim.DevJobPend || t.Dev == sim.DevNvramQ || (t.Dev == sim.DevNvramQAbort && t.Accepted) {
			// benign: the job result / the answer after the confirmation decides
			continue
		}
		// A dropped connection that the HTTP transport repairs by sending
		// the same request again is not a failure the tool can see.
		// (the repeated request may itself meet the second deviation of a
		// pair: then that one is the failure)
		if t.Dev == sim.DevClose && i+1 < len(r.trans) && r.trans[i+1].Text == t.Text {
			continue
		}
		if t.Dev != "" || !t.Accepted {
			return i
		}
	}
	return -1
}

func c09Oracle(x *dialogx) func(c *dcase, r *drun, base *drun) {
	return func(c *dcase, r *drun, base *drun) {
		sc := c.sc
		compare := strings.HasPrefix(sc.front, "drc-C") || strings.HasPrefix(sc.front, "do-compare")
		viaDo := strings.HasPrefix(sc.front, "do-")
		if r.panicMsg != "" {
			x.violation(c, r, "no-panic", "panic", "runtime panic: "+r.panicMsg)
			return
		}
		if r.hung > 0 {
			x.violation(c, r, "stop-after-failure", "waits-forever:"+sc.devType+":stall-body",
				fmt.Sprintf("the reply stalled inside its body and the client was still waiting after %v (configured time-out 1 s)", sim.StallBodyMax))
			return
		}
		fi := failurePoint(r)
		benign := fi < 0
		x.res.Outcome(fmt.Sprintf("%s exit=%d failed=%v", sc.devType, r.exit, !benign))
		status := r.files["status/router"]
		history := r.files["history/router"]
		if !benign {
			ft := r.trans[fi]
			where := ft.Class + ":" + cmdKey(ft.Text)
			// (b) nothing but clean-up after the failure (lines that arrived
			// in one packet with the failing line were sent before its answer)
			continued := ""
			for _, t := range r.trans[fi+1:] {
				if t.Batch == ft.Batch {
					continue
				}
				bad := false
				switch t.Class {
				case sim.ClChange, sim.ClSave:
					bad = true
				case sim.ClReload:
					bad = strings.HasPrefix(t.Text, "reload in") || strings.HasPrefix(t.Text, "do reload in")
				}
				if bad && continued == "" {
					continued = fmt.Sprintf("%q [%s]", t.Text, t.Class)
				}
			}
			kind := ft.Dev
			if strings.HasPrefix(kind, "model:") {
				kind = "model-reject"
			}
			if continued != "" || r.exit == 0 {
				x.violation(c, r, "stop-after-failure", "unnoticed:"+sc.devType+":"+kind+"@"+where,
					fmt.Sprintf("failure at point %d (%s, %q) went unnoticed: exit status %d, next change traffic: %s",
						ft.Point, ft.Dev, ft.Text, r.exit, continued))
				return
			}
			if viaDo {
				if compare {
					if !strings.Contains(status, `"compare":{"result":"DIFF"`) {
						x.violation(c, r, "status-truthful", "status:compare-not-DIFF:"+sc.devType+"@"+where, "status file after failed compare: "+status)
						return
					}
				} else if !strings.Contains(status, `"approve":{"result":"FAILED"`) {
					x.violation(c, r, "status-truthful", "status:approve-not-FAILED:"+sc.devType+"@"+where, "status file after failed approve: "+status)
					return
				}
				if !strings.HasSuffix(strings.TrimSpace(history), "END: FAILED") {
					x.violation(c, r, "history-truthful", "history:not-FAILED:"+sc.devType+"@"+where, "history: "+history)
					return
				}
			}
			return
		}
		// converse: success claims need a clean run
		if r.exit != 0 {
			x.violation(c, r, "benign-run-succeeds", "failed-without-failure:"+sc.devType, "no deviation and no rejected command, but exit status != 0")
			return
		}
		if viaDo && !compare {
			if !strings.Contains(status, `"approve":{"result":"OK"`) || !strings.HasSuffix(strings.TrimSpace(history), "END: OK") {
				x.violation(c, r, "status-truthful", "status:ok-run-not-OK:"+sc.devType, "status: "+status+" history: "+history)
				return
			}
		}
		if !compare {
			nchg := 0
			for _, t := range r.trans {
				if t.Class == sim.ClChange {
					nchg++
				}
			}
			switch sc.devType {
			case "ASA", "IOS":
				if nchg > 0 && r.saved == 0 && r.before != r.after {
					x.violation(c, r, "ok-needs-save", "ok-without-save:"+sc.devType, "run ended OK but the configuration was not saved")
				}
			case "PAN-OS":
				if r.before != r.after && r.commits == 0 {
					x.violation(c, r, "ok-needs-save", "ok-without-commit", "run ended OK but nothing was committed")
				}
			}
		}
	}
}

func c09Scenarios(devTypes []string) []*dscenario {
	var l []*dscenario
	for _, t := range devTypes {
		for _, f := range []string{"drc", "do-approve", "drc-C", "do-compare", "drc-q", "do-approve-brief", "do-compare-brief", "drc-logfile"} {
			l = append(l, baseScenario(t, f))
		}
		if t == "PAN-OS" {
			// several vsys with changes: a failure in the first must stop the rest
			l = append(l, panTwoVsysScenario("drc"), panTwoVsysScenario("do-approve"))
		}
	}
	return l
}

// panTwoVsysScenario: a PAN-OS device with two vsys that both need changes.
func panTwoVsysScenario(front string) *dscenario {
	sc := baseScenario("PAN-OS", front)
	rs := func(s ...int) []panRuleT {
		var l []panRuleT
		for _, i := range s {
			l = append(l, panRules[i])
		}
		return l
	}
	dn := "<display-name>" + netspocBanner + "</display-name>"
	sc.device = panConfig(panVsysT{name: "vsys1", rules: rs(0, 3), extra: dn}, panVsysT{name: "vsys2", rules: rs(2), extra: dn})
	sc.target.Main = panConfig(panVsysT{name: "vsys1", rules: rs(1, 0, 4)}, panVsysT{name: "vsys2", rules: rs(0, 2)})
	sc.name = "PAN-OS/" + front + "/two-vsys"
	return sc
}

func c09Worker(ctx *core.Ctx) *core.Result {
	x := newDialogx(ctx, "C09")
	defer x.close()
	x.enumerate(c09Scenarios(allDevTypes), false, c09Oracle(x))
	if ctx.Thorough() {
		// bound 2: all pairs (second deviation behind the first)
		var l []*dscenario
		for _, t := range allDevTypes {
			l = append(l, baseScenario(t, "do-approve"))
		}
		x.enumerate(l, true, c09Oracle(x))
	}
	// binding of the fake expect to the production stack: every baseline
	// and single-deviation run of one scenario per SSH device type is
	// repeated with the real binaries, the real goexpect and a real pty
	if ctx.Shard == 0 {
		types := []string{"ASA"}
		if ctx.Thorough() {
			types = []string{"ASA", "IOS", "Linux"}
		}
		stackCheck(ctx, x.res, types)
		c09ScpFaults(ctx, x.res)
	}
	return x.res
}

// ---------------------------------------------------------------------
// C11

func c11Oracle(x *dialogx) func(c *dcase, r *drun, base *drun) {
	return func(c *dcase, r *drun, base *drun) {
		sc := c.sc
		x.res.Outcome(fmt.Sprintf("%s/%s exit=%d", sc.devType, sc.front, r.exit))
		if r.panicMsg != "" {
			x.violation(c, r, "no-panic", "panic", r.panicMsg)
			return
		}
		for _, t := range r.trans {
			switch t.Class {
			case sim.ClChange, sim.ClSave, sim.ClReload:
				x.violation(c, r, "compare-read-only", "compare-sent:"+sc.devType+":"+t.Class+":"+cmdKey(t.Text),
					fmt.Sprintf("compare run sent %q [%s]", t.Text, t.Class))
				return
			}
		}
		for _, t := range r.trans {
			if t.Class == sim.ClSessionConf && strings.HasPrefix(t.Text, "terminal width") {
				x.violation(c, r, "compare-read-only", "compare-sent:"+sc.devType+":"+t.Class+":"+cmdKey(t.Text),
					fmt.Sprintf("compare run sent %q in configuration mode [%s]", t.Text, t.Class))
				break // known finding; the state checks below still apply
			}
		}
		if r.before != r.after {
			x.violation(c, r, "state-unchanged", "compare-changed-state:"+sc.devType, "device state differs after a compare run")
			return
		}
		if r.foreignBefore != r.foreignAfter {
			x.violation(c, r, "state-unchanged", "compare-changed-foreign:"+sc.devType, "foreign objects changed")
		}
	}
}

func c11Scenarios() []*dscenario {
	var l []*dscenario
	for _, t := range allDevTypes {
		for _, f := range []string{"drc-C", "drc-C-nolog", "do-compare", "drc-C-q", "do-compare-brief"} {
			// interlocks: ok, missing marker, wrong hostname
			sc := baseScenario(t, f)
			l = append(l, sc)
			nm := baseScenario(t, f)
			nm.name += "/no-marker"
			nm.banner = "Welcome"
			if t == "PAN-OS" {
				nm.device = strings.Replace(nm.device, netspocBanner, "manual", 1)
			}
			l = append(l, nm)
			wh := baseScenario(t, f)
			wh.name += "/wrong-hostname"
			wh.hostname = "other"
			if t == "PAN-OS" {
				wh.device = strings.Replace(wh.device, "<hostname>router</hostname>", "<hostname>other</hostname>", 1)
			}
			l = append(l, wh)
			if t == "PAN-OS" {
				// uncommitted candidate changes of the login user / of somebody else
				for _, who := range []string{"admin", "other-admin"} {
					dc := baseScenario(t, f)
					dc.name += "/dirty-candidate-of-" + who
					dc.panDirtyBy = who
					l = append(l, dc)
				}
			}
			if t == "NSX" {
				fx := baseScenario(t, f)
				fx.name += "/foreign-objects"
				fx.nsxExtra = true
				l = append(l, fx)
			}
			if t == "ASA" || t == "IOS" {
				// the login user lands in user mode; ASA: no enable
				// password is configured, 'enable' offers to set one
				um := baseScenario(t, f)
				um.name += "/user-mode"
				um.needEnable = true
				l = append(l, um)
				if t == "ASA" {
					eu := baseScenario(t, f)
					eu.name += "/enable-password-unset"
					eu.needEnable, eu.enableUnset = true, true
					l = append(l, eu)
				}
			}
			if t == "ASA" || t == "IOS" {
				ui := baseScenario(t, f)
				ui.name += "/unknown-interface"
				if t == "ASA" {
					ui.device += "interface Ethernet0/5\n nameif dmz\naccess-list dmz_in extended permit ip any4 any4\naccess-group dmz_in in interface dmz\n"
				} else {
					ui.device += "interface Ethernet5\n ip address 10.5.5.1 255.255.255.0\n"
				}
				l = append(l, ui)
			}
		}
	}
	return l
}

func c11Worker(ctx *core.Ctx) *core.Result {
	x := newDialogx(ctx, "C11")
	defer x.close()
	x.enumerate(c11Scenarios(), ctx.Thorough(), c11Oracle(x))
	return x.res
}

func init() {
	registerSharded("C09", c09Worker, func(tier string) core.Meta {
		return core.Meta{ID: "C09", Level: "fault_enumeration",
			Rule: "deviation-bounded exploration of the device side of the dialogue: for each of 5 device types x 4 front ends (drc approve, do-approve approve, drc -C, do-approve compare) the baseline dialogue is recorded; then every answer point gets every deviation of its alphabet (SSH: device error text, garbled/unexpected output, stall, connection close, write memory without [OK], IOS aborted save, IOS NVRAM overwrite question followed by a save or by an aborted save, command authorization failed, Linux silent non-zero exit status; HTTPS: 500, 403, malformed body, close, stall, API status=error, commit message, job FAIL, job PEND twice, job PEND 70 times then FAIL), one deviation per run (thorough: all pairs with the second deviation behind the first, do-approve approve); the real front end runs in-process against the simulator (fake expect in virtual time / TLS test server); oracle per run: after the first failed answer only clean-up/read-only traffic, no save/commit, exit != 0, do-approve status FAILED resp. DIFF and history END: FAILED; conversely success claims only in runs where every command was accepted and the save/commit was confirmed; non-trivial = runs with a deviation",
			Assumptions: []string{"one chunk per device answer; goexpect's own timer/goroutine races are outside (replaced by a synchronous stand-in); HTTPS stalls are real 1.5 s sleeps against a 1 s client time-out"},
			Bounds:      map[string]any{"quick": "all single deviations", "thorough": "+ all ordered pairs for do-approve approve"},
		}
	}, 170*time.Second, 40*time.Minute)
	registerSharded("C11", c11Worker, func(tier string) core.Meta {
		return core.Meta{ID: "C11", Level: "fault_enumeration",
			Rule: "compare dialogues: 5 device types x {drc -C -L dir, drc -C without log directory, do-approve compare} x interlock variants {ok, missing marker, wrong hostname, unknown interface (ASA/IOS), login ends in user mode (ASA/IOS; ASA also with no enable password configured, where 'enable' starts the dialogue that sets one), foreign non-Netspoc objects (NSX)}, all with non-empty differences; baseline plus every single deviation at every point (thorough: all ordered pairs); oracle: the transcript contains no config-changing, save/commit or reload-control line (ASA 'configure terminal / terminal width 511 / end' before 'write term' is reported as finding F-C11-asa-terminal-width), the device model state and the foreign objects are identical before and after; non-trivial = runs with a deviation",
			Assumptions: []string{"transcript classification is done by the simulator from device semantics (DESIGN appendix C)"},
			Bounds:      map[string]any{"quick": "single deviations", "thorough": "pairs"},
		}
	}, 170*time.Second, 40*time.Minute)
}
