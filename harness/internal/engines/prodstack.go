//go:build verif

package engines

import (
	"encoding/json"
	"fmt"
	"io"
	"os"
	"os/exec"
	"path/filepath"
	"sort"
	"strings"
	"syscall"
	"time"

	"verif/harness/internal/core"
	"verif/harness/internal/corpus"
	"verif/harness/internal/sim"
)

// Production stack: the repository's real binaries, real goexpect, a real
// pty, SIMULATE_ROUTER = stdio simulator.

type prodProc struct {
	cmd    *exec.Cmd
	stdout strings.Builder
	stderr strings.Builder
	work   string
	ctrl   string
	done    chan struct{} // closed when the process has ended
	waitErr error
}

func frontArgs(front, work string) (bin string, args []string) {
	code := filepath.Join(work, "policies", "p1", "code", "router")
	logDir := filepath.Join(work, "drclog")
	binDir := filepath.Join(core.VerifDir, ".build", "bin")
	switch front {
	case "drc":
		return filepath.Join(binDir, "drc"), []string{"-L", logDir, code}
	case "drc-C":
		return filepath.Join(binDir, "drc"), []string{"-C", "-L", logDir, code}
	case "drc-C-nolog":
		return filepath.Join(binDir, "drc"), []string{"-C", code}
	case "do-approve":
		return filepath.Join(binDir, "do-approve"), []string{"approve", "router"}
	case "do-compare":
		return filepath.Join(binDir, "do-approve"), []string{"compare", "router"}
	}
	panic("front " + front)
}

// startProd starts a front end against the stdio simulator.  spelling
// replaces the device argument of drc fronts ("" = absolute code path).
func startProd(work string, sc *dscenario, front string, dev map[int]string, pauseAt int, ctrlName, spelling string) *prodProc {
	ctrl := filepath.Join(work, ctrlName)
	os.MkdirAll(ctrl, 0755)
	host := sc.hostname
	if host == "" {
		host = "router"
	}
	spec := stdioSpec{Flavor: strings.ToLower(sc.devType), Device: sc.device, Hostname: host, Banner: sc.banner,
		Pass: sc.secretPass(), Dev: dev, Ctrl: ctrl, PauseAt: pauseAt}
	data, _ := json.Marshal(spec)
	specFile := filepath.Join(ctrl, "spec.json")
	os.WriteFile(specFile, data, 0644)
	bin, args := frontArgs(front, work)
	if spelling != "" && strings.HasPrefix(front, "drc") {
		args[len(args)-1] = spelling
	}
	p := &prodProc{work: work, ctrl: ctrl}
	p.cmd = exec.Command(bin, args...)
	p.cmd.Dir = filepath.Join(work, "policies", "p1")
	p.cmd.Env = []string{"HOME=" + work, "PATH=" + os.Getenv("PATH"), "TEST_TIME=2024-Sep-29 16:19:50",
		"SIMULATE_ROUTER=" + filepath.Join(core.VerifDir, ".build", "verif") + " simstdio " + specFile}
	p.cmd.Env = append(p.cmd.Env, sc.procEnv...)
	p.cmd.Stdout = &p.stdout
	if sc.procStdout != nil {
		p.cmd.Stdout = sc.procStdout
	}
	p.cmd.Stderr = &p.stderr
	p.cmd.SysProcAttr = &syscall.SysProcAttr{Setpgid: true}
	if err := p.cmd.Start(); err != nil {
		panic(err)
	}
	p.done = make(chan struct{})
	go func() {
		p.waitErr = p.cmd.Wait()
		close(p.done)
	}()
	return p
}

// finished tells whether the process has ended already.
func (p *prodProc) finished() bool {
	select {
	case <-p.done:
		return true
	default:
		return false
	}
}

func (p *prodProc) wait(timeout time.Duration) (exit int, timedOut bool) {
	select {
	case <-p.done:
		err := p.waitErr
		if err == nil {
			return 0, false
		}
		if ee, ok := err.(*exec.ExitError); ok {
			return ee.ExitCode(), false
		}
		return -1, false
	case <-time.After(timeout):
		syscall.Kill(-p.cmd.Process.Pid, syscall.SIGKILL)
		<-p.done
		return -1, true
	}
}

func (p *prodProc) kill9() {
	syscall.Kill(-p.cmd.Process.Pid, syscall.SIGKILL)
	<-p.done
}

// waitSimEnd waits until every simulator session started below ctrl has
// logged its end (sessions.log: "start <pid>" / "end <pid>").
func waitSimEnd(ctrl string, timeout time.Duration) bool {
	end := time.Now().Add(timeout)
	for time.Now().Before(end) {
		data, err := os.ReadFile(filepath.Join(ctrl, "sessions.log"))
		if err == nil {
			st, en := strings.Count(string(data), "start "), strings.Count(string(data), "end ")
			if st > 0 && st == en {
				return true
			}
		}
		time.Sleep(5 * time.Millisecond)
	}
	return false
}

func waitFile(path string, timeout time.Duration) bool {
	end := time.Now().Add(timeout)
	for time.Now().Before(end) {
		if _, err := os.Stat(path); err == nil {
			return true
		}
		time.Sleep(3 * time.Millisecond)
	}
	return false
}

func readTranscript(ctrl string) []sim.Rec {
	var t []sim.Rec
	data, err := os.ReadFile(filepath.Join(ctrl, "transcript.json"))
	if err == nil {
		json.Unmarshal(data, &t)
	}
	return t
}

// treeSnapshot renders status/, history/, policies/*/log and drclog.
func treeSnapshot(work string) string {
	var l []string
	for _, sub := range []string{"status", "history", "policies/p1/log", "drclog"} {
		filepath.Walk(filepath.Join(work, sub), func(p string, fi os.FileInfo, err error) error {
			if err != nil || fi.IsDir() {
				return nil
			}
			data, _ := os.ReadFile(p)
			rel, _ := filepath.Rel(work, p)
			l = append(l, fmt.Sprintf("%s:%d:%x", rel, len(data), fnvHash(data)))
			return nil
		})
	}
	sort.Strings(l)
	return strings.Join(l, "\n")
}

// quietSnapshot: the tree after it stayed the same for 10 consecutive looks
// (the paused holder may still be writing the log line of its last command).
func quietSnapshot(work string) string {
	snap := treeSnapshot(work)
	for same, tries := 0, 0; same < 10 && tries < 400; tries++ {
		time.Sleep(20 * time.Millisecond)
		if now := treeSnapshot(work); now == snap {
			same++
		} else {
			snap, same = now, 0
		}
	}
	return snap
}

// openFilesOfGroup: regular files below work that some process of the
// process group has open, relative to work.
func openFilesOfGroup(pgid int, work string) map[string]bool {
	open := map[string]bool{}
	procs, _ := filepath.Glob("/proc/[0-9]*")
	for _, pd := range procs {
		data, err := os.ReadFile(pd + "/stat")
		if err != nil {
			continue
		}
		// pid (comm) state ppid pgrp ...
		st := string(data)
		if i := strings.LastIndex(st, ")"); i >= 0 {
			f := strings.Fields(st[i+1:])
			if len(f) < 3 || f[2] != fmt.Sprint(pgid) {
				continue
			}
		}
		fds, _ := filepath.Glob(pd + "/fd/*")
		for _, fd := range fds {
			if t, err := os.Readlink(fd); err == nil {
				if rel, err := filepath.Rel(work, t); err == nil && !strings.HasPrefix(rel, "..") {
					open[rel] = true
				}
			}
		}
	}
	return open
}

// changedOnlyIn: every line that differs between the two snapshots names a
// file of the set, and the file exists in both snapshots.
func changedOnlyIn(before, after string, files map[string]bool) bool {
	idx := func(s string) map[string]string {
		m := map[string]string{}
		for _, l := range strings.Split(s, "\n") {
			if name, rest, ok := strings.Cut(l, ":"); ok {
				m[name] = rest
			}
		}
		return m
	}
	b, a := idx(before), idx(after)
	for name, v := range a {
		old, had := b[name]
		if had && old == v {
			continue
		}
		if !had || !files[name] {
			return false
		}
	}
	for name := range b {
		if _, still := a[name]; !still {
			return false
		}
	}
	return true
}

// fullPipe returns a pipe whose buffer is full: the first write of a
// process that has w as standard output blocks until somebody reads.
func fullPipe() (r, w *os.File, err error) {
	r, w, err = os.Pipe()
	if err != nil {
		return
	}
	fd := int(w.Fd())
	syscall.SetNonblock(fd, true)
	buf := make([]byte, 4096)
	for {
		if _, e := syscall.Write(fd, buf); e != nil {
			break
		}
	}
	for {
		if _, e := syscall.Write(fd, buf[:1]); e != nil {
			break
		}
	}
	syscall.SetNonblock(fd, false)
	return
}

func fnvHash(b []byte) uint64 {
	var h uint64 = 14695981039346656037
	for _, c := range b {
		h ^= uint64(c)
		h *= 1099511628211
	}
	return h
}

// ---------------------------------------------------------------------
// C12 part (b)

func c12Process(ctx *core.Ctx, res *core.Result) {
	base, _ := os.MkdirTemp("/dev/shm", "verif-c12b-")
	defer os.RemoveAll(base)
	type holderT struct{ devType, front string }
	holders := []holderT{{"ASA", "do-approve"}, {"ASA", "drc-C"}}
	if ctx.Thorough() {
		holders = append(holders, holderT{"IOS", "do-approve"}, holderT{"ASA", "drc"}, holderT{"Linux", "do-compare"})
	}
	type contT struct{ front, spelling string }
	var conts []contT
	for _, f := range []string{"drc", "drc-C", "do-approve", "do-compare"} {
		if strings.HasPrefix(f, "drc") {
			for _, sp := range []string{"code/router", "", "ipv6/../code/router"} {
				conts = append(conts, contT{f, sp})
			}
		} else {
			conts = append(conts, contT{f, ""})
		}
	}
	viol := func(sig, msg string, ev []string) {
		res.AddViolation(core.Violation{Property: "C12", Engine: "lockx/process", Space: "phases", Events: ev,
			Oracle: "one-session-per-device", Signature: sig, Message: msg})
	}
	type job struct {
		h     holderT
		phase int
		kill  bool
		gc    bool // holder runs with GOGC=1: collections (and finalizers) as early as possible
		house bool // the daily housekeeping job (bin/delete-old-policies) runs while the holder is active; the lock file is as old as the installation
	}
	var jobs []job
	for _, h := range holders {
		// number of phases = points of the holder's baseline dialogue
		sc := baseScenario(h.devType, h.front)
		scr := core.NewScratch("c12b")
		n := runDialogue(scr, sc, runOpts{}).points
		closeInnerScratches()
		scr.Close()
		var phases []int
		if ctx.Thorough() {
			for k := 1; k <= n; k++ {
				phases = append(phases, k)
			}
		} else {
			for _, k := range []int{1, 3, n / 3, n / 2, n - 3, n - 1} {
				if k >= 1 && k <= n {
					phases = append(phases, k)
				}
			}
		}
		for _, k := range phases {
			jobs = append(jobs, job{h, k, false, false, false}, job{h, k, true, false, false}, job{h, k, false, true, false}, job{h, k, false, false, true})
		}
	}
	// phase -1: the device session is over, the holder (do-approve compare
	// with differences to report) is blocked printing its result lines to
	// a standard output nobody reads (a pager, a stopped terminal); it
	// still has to write history and status.
	for _, dt := range []string{"ASA", "IOS"} {
		if dt == "ASA" || ctx.Thorough() {
			h := holderT{dt, "do-compare"}
			jobs = append(jobs, job{h, -1, false, false, false}, job{h, -1, true, false, false}, job{h, -1, false, false, true})
		}
	}
	sem := make(chan struct{}, 12)
	type jr struct {
		evals   int
		skipped int
		viols   []core.Violation
		// differences confined to the holder's open log files that a second
		// contender run did not reproduce
		lateWrites int
		blocked    int // holders of phase -1 that were still blocked after all contenders
	}
	results := make(chan jr, len(jobs))
	for ji, j := range jobs {
		sem <- struct{}{}
		go func(ji int, j job) {
			defer func() { <-sem }()
			var out jr
			add := func(sig, msg string, ev []string) {
				out.viols = append(out.viols, core.Violation{Property: "C12", Engine: "lockx/process", Space: "phases", Events: ev,
					Oracle: "one-session-per-device", Signature: sig, Message: msg})
			}
			work := filepath.Join(base, fmt.Sprintf("j%d", ji))
			sc := baseScenario(j.h.devType, j.h.front)
			prepareWork(work, sc, 2)
			hsc := *sc
			if j.gc {
				hsc.procEnv = []string{"GOGC=1"}
			}
			var pipeR, pipeW *os.File
			pauseAt := j.phase
			if j.phase == -1 {
				var err error
				if pipeR, pipeW, err = fullPipe(); err != nil {
					add("harness", "pipe: "+err.Error(), nil)
					results <- out
					return
				}
				defer pipeR.Close()
				hsc.procStdout = pipeW
				pauseAt = 0
			}
			holder := startProd(work, &hsc, j.h.front, nil, pauseAt, "ctrl-holder", "")
			if pipeW != nil {
				pipeW.Close()
			}
			ev := []string{fmt.Sprintf("holder=%s/%s paused at phase %d kill=%v GOGC=1:%v housekeeping:%v", j.h.devType, j.h.front, j.phase, j.kill, j.gc, j.house)}
			reached := false
			if j.phase == -1 {
				ev[0] += " (phase -1: session over, holder blocked on its standard output)"
				if waitSimEnd(holder.ctrl, 90*time.Second) {
					time.Sleep(300 * time.Millisecond)
					reached = !holder.finished()
				}
			}
			for end := time.Now().Add(90 * time.Second); j.phase != -1 && time.Now().Before(end) && !holder.finished(); time.Sleep(3 * time.Millisecond) {
				if _, err := os.Stat(filepath.Join(holder.ctrl, "paused")); err == nil {
					reached = true
					break
				}
			}
			if !reached {
				if holder.finished() {
					// the run needs fewer device lines than the reference dialogue
					// (it does not wait for an answer to its last line): no holder left
					out.skipped++
				} else {
					holder.kill9()
					add("holder-did-not-reach-phase", fmt.Sprintf("holder %v never reached phase %d", j.h, j.phase), ev)
				}
				results <- out
				return
			}
			if j.house {
				old := time.Now().Add(-400 * 24 * time.Hour)
				os.Chtimes(filepath.Join(work, "lock", "router"), old, old)
				// the lock directory is as old (no lock file was created or removed
				// for a long time)
				os.Chtimes(filepath.Join(work, "lock"), old, old)
				hk := exec.Command(filepath.Join(corpus.RepoDir, "bin", "delete-old-policies"))
				hk.Env = []string{"HOME=" + work, "PATH=" + filepath.Join(core.VerifDir, ".build", "bin") + ":" + os.Getenv("PATH")}
				if out, err := hk.CombinedOutput(); err != nil {
					add("housekeeping-failed", fmt.Sprintf("delete-old-policies: %v %s", err, out), ev)
				}
				ev = append(ev, "delete-old-policies ran (lock file 400 days old, keep_history default 365)")
			}
			snap := quietSnapshot(work)
			for ci, c := range conts {
				cp := startProd(work, sc, c.front, nil, 0, fmt.Sprintf("ctrl-cont%d", ci), c.spelling)
				exit, to := cp.wait(60 * time.Second)
				out.evals++
				e2 := append(append([]string{}, ev...), fmt.Sprintf("contender=%s spelling=%q exit=%d", c.front, c.spelling, exit))
				msg := cp.stderr.String() + cp.stdout.String()
				switch {
				case to:
					add("contender-blocked", "contender did not fail immediately (killed after 60 s)", e2)
				case exit != 1 || !strings.Contains(msg, "Approve in progress"):
					add("contender-not-refused:"+c.front, fmt.Sprintf("contender exit=%d output=%q", exit, short(msg, 300)), e2)
				}
				if _, err := os.Stat(filepath.Join(cp.ctrl, "sessions.log")); err == nil {
					add("second-session:"+c.front, "the contender opened a session to the device while the holder was active", e2)
				}
				if now := treeSnapshot(work); now != snap {
					// The paused holder is alive: its own log line for the command it
					// has just sent may reach the disk after the pause was noticed.
					// Such a write can only hit a file the holder has open.  A
					// difference confined to those files is attributed to the
					// contender only if a second run of the same contender changes
					// the tree again (a log line of the contender comes every time,
					// the holder is blocked and writes nothing further).
					if changedOnlyIn(snap, now, openFilesOfGroup(holder.cmd.Process.Pid, work)) {
						snap2 := quietSnapshot(work)
						cp2 := startProd(work, sc, c.front, nil, 0, fmt.Sprintf("ctrl-cont%d-again", ci), c.spelling)
						cp2.wait(60 * time.Second)
						if now2 := treeSnapshot(work); now2 == snap2 {
							out.lateWrites++
							snap = now2
							continue
						} else {
							now, snap = now2, snap2
						}
					}
					add("contender-left-trace:"+c.front, "status/history/log tree changed by the refused contender:\n"+now+"\n--- before\n"+snap, e2)
					snap = now
				}
			}
			if holder.finished() {
				// the holder did not wait for the paused answer and ended on its
				// own: the contenders ran against a free device
				out.viols, out.skipped = nil, out.skipped+1
				results <- out
				return
			}
			if j.phase == -1 {
				out.blocked++
			}
			if j.kill {
				holder.kill9()
			} else {
				if pipeR != nil {
					go io.Copy(io.Discard, pipeR)
				}
				os.WriteFile(filepath.Join(holder.ctrl, "resume"), []byte("go"), 0644)
				if exit, to := holder.wait(120 * time.Second); to || exit != 0 {
					add("holder-failed-after-release", fmt.Sprintf("holder exit=%d timeout=%v stderr=%s", exit, to, short(holder.stderr.String(), 300)), ev)
				}
			}
			// a fresh run must obtain the lock and complete
			fresh := startProd(work, sc, "do-compare", nil, 0, "ctrl-fresh", "")
			exit, to := fresh.wait(120 * time.Second)
			out.evals++
			if to || strings.Contains(fresh.stderr.String()+fresh.stdout.String(), "Approve in progress") {
				add("lock-not-released", fmt.Sprintf("after the holder was %s a fresh run got: exit=%d %s", map[bool]string{true: "killed", false: "released"}[j.kill], exit,
					short(fresh.stderr.String(), 300)), ev)
			}
			results <- out
		}(ji, j)
	}
	for range jobs {
		r := <-results
		res.Evaluations += int64(r.evals)
		res.Nontrivial += int64(r.evals)
		res.Count("process_level_contender_runs", int64(r.evals))
		res.Count("process_level_phases_without_holder(run ended by itself)", int64(r.skipped))
		res.Count("process_level_late_log_writes_of_the_paused_holder", int64(r.lateWrites))
		res.Count("process_level_holders_blocked_on_stdout_after_the_session", int64(r.blocked))
		for _, v := range r.viols {
			res.AddViolation(v)
		}
	}
	res.Count("process_level_holder_phases", int64(len(jobs)))
	_ = viol
}

func init() { c12ProcessLevel = c12Process }

// ---------------------------------------------------------------------
// Binding the fake expect to the real stack: the same scenario and
// deviation run through the production stack must give the same exit
// status, the same classified transcript and the same status file.

func stackCheck(ctx *core.Ctx, res *core.Result, devTypes []string) {
	base, _ := os.MkdirTemp("/dev/shm", "verif-stack-")
	defer os.RemoveAll(base)
	scr := core.NewScratch("stack")
	defer scr.Close()
	defer closeInnerScratches()
	type job struct {
		sc  *dscenario
		dev map[int]string
	}
	var jobs []job
	for _, t := range devTypes {
		sc := baseScenario(t, "do-approve")
		baseRun := runDialogue(scr, sc, runOpts{})
		jobs = append(jobs, job{sc, map[int]string{}})
		for ri, rec := range baseRun.trans {
			if rec.Point < 1 || (ri == len(baseRun.trans)-1 && rec.Text == "exit") {
				continue
			}
			for _, kind := range deviationsAt(sc, rec) {
				jobs = append(jobs, job{sc, map[int]string{rec.Point: kind}})
			}
		}
	}
	type fakeRes struct {
		exit   int
		trans  string
		status string
	}
	render := func(t []sim.Rec) string {
		var l []string
		for _, r := range t {
			d := r.Dev
			if d == "(after stall/close)" {
				continue // what a dead device no longer reads is not compared
			}
			if strings.HasPrefix(d, "model:") {
				d = "model"
			}
			l = append(l, fmt.Sprintf("%s|%s|%v|%s", r.Class, r.Text, r.Accepted, d))
		}
		// the final "exit" is written while the tool is already leaving:
		// whether the simulator still reads it is a race of the real stack
		for len(l) > 0 && strings.HasPrefix(l[len(l)-1], "clean-up|exit|") {
			l = l[:len(l)-1]
		}
		return strings.Join(l, "\n")
	}
	fakes := make([]fakeRes, len(jobs))
	for i, j := range jobs {
		r := runDialogue(scr, j.sc, runOpts{dev: j.dev})
		fakes[i] = fakeRes{r.exit, render(r.trans), r.files["status/router"]}
	}
	sem := make(chan struct{}, 14)
	type pr struct {
		i      int
		exit   int
		to     bool
		trans  string
		status string
	}
	out := make(chan pr, len(jobs))
	for i, j := range jobs {
		sem <- struct{}{}
		go func(i int, j job) {
			defer func() { <-sem }()
			work := filepath.Join(base, fmt.Sprintf("s%d", i))
			prepareWork(work, j.sc, 1)
			p := startProd(work, j.sc, "do-approve", j.dev, 0, "ctrl", "")
			exit, to := p.wait(40 * time.Second)
			// the simulator rewrites its transcript after every line and logs
			// "end <pid>" when its session is over: only then is the file final
			waitSimEnd(p.ctrl, 20*time.Second)
			st, _ := os.ReadFile(filepath.Join(work, "status", "router"))
			out <- pr{i, exit, to, render(readTranscript(p.ctrl)), string(st)}
			os.RemoveAll(work)
		}(i, j)
	}
	runProd := func(i int) pr {
		j := jobs[i]
		work := filepath.Join(base, fmt.Sprintf("r%d", i))
		prepareWork(work, j.sc, 1)
		p := startProd(work, j.sc, "do-approve", j.dev, 0, "ctrl", "")
		exit, to := p.wait(40 * time.Second)
		waitSimEnd(p.ctrl, 20*time.Second)
		st, _ := os.ReadFile(filepath.Join(work, "status", "router"))
		defer os.RemoveAll(work)
		return pr{i, exit, to, render(readTranscript(p.ctrl)), string(st)}
	}
	for range jobs {
		p := <-out
		f := fakes[p.i]
		res.Evaluations++
		res.Validated++
		res.Count("production_stack_runs", 1)
		differs := func(p pr) bool {
			return p.to || p.exit != f.exit || p.trans != f.trans || p.status != f.status
		}
		// the production stack has real timers: a disagreement must
		// reproduce before it is believed
		for try := 0; try < 2 && differs(p); try++ {
			res.Count("production_stack_retries", 1)
			p = runProd(p.i)
		}
		if differs(p) {
			res.Broken = append(res.Broken, fmt.Sprintf("fake expect and production stack disagree for %s deviation %v: exit %d vs %d (timeout=%v), status %q vs %q\n--- production transcript\n%s\n--- fake transcript\n%s",
				jobs[p.i].sc.name, jobs[p.i].dev, p.exit, f.exit, p.to, p.status, f.status, p.trans, f.trans))
		}
	}
}

func debugStack(args []string) int {
	res := core.NewResult()
	types := []string{"ASA"}
	if len(args) > 0 {
		types = args
	}
	start := time.Now()
	stackCheck(&core.Ctx{Tier: "thorough"}, res, types)
	fmt.Printf("production stack runs=%d disagreements=%d in %.1fs\n", res.Validated, len(res.Broken), time.Since(start).Seconds())
	for i, b := range res.Broken {
		if i < 3 {
			fmt.Println(b)
		}
	}
	return len(res.Broken)
}

func init() { Debug["stackcheck"] = debugStack }
