package engines

import (
	"encoding/json"
	"regexp"
	"strings"
)

// C20, structural operators: mutants of the same spirit as the token
// operators, for inputs whose structure is not the line (JSON of NSX, XML of
// PAN-OS), and role changes of whole files.

// jsonMutants: every value of the document replaced by null, by an empty
// array / object / string, and every object key deleted.
func jsonMutants(text string, thorough bool, f func(op, mutated string)) {
	var doc any
	if json.Unmarshal([]byte(text), &doc) != nil {
		return
	}
	// paths are enumerated first, then one mutant per (path, replacement)
	type step struct {
		key string
		idx int
	}
	var paths [][]step
	var walk func(v any, p []step)
	walk = func(v any, p []step) {
		paths = append(paths, append([]step(nil), p...))
		switch t := v.(type) {
		case map[string]any:
			for _, k := range sortedKeys(t) {
				walk(t[k], append(p, step{key: k, idx: -1}))
			}
		case []any:
			for i := range t {
				walk(t[i], append(p, step{idx: i}))
			}
		}
	}
	walk(doc, nil)
	clone := func() any {
		var c any
		json.Unmarshal([]byte(text), &c)
		return c
	}
	const del = "\x00delete"
	set := func(root any, p []step, val any) (any, bool) {
		if len(p) == 0 {
			if val == del {
				return nil, false
			}
			return val, true
		}
		cur := root
		for _, s := range p[:len(p)-1] {
			if s.idx < 0 {
				cur = cur.(map[string]any)[s.key]
			} else {
				cur = cur.([]any)[s.idx]
			}
		}
		last := p[len(p)-1]
		if last.idx < 0 {
			m := cur.(map[string]any)
			if val == del {
				delete(m, last.key)
			} else {
				m[last.key] = val
			}
		} else {
			if val == del {
				return nil, false // deletion of array elements: see below
			}
			cur.([]any)[last.idx] = val
		}
		return root, true
	}
	reps := []struct {
		op  string
		val any
	}{{"json-null", nil}}
	if thorough {
		reps = append(reps, []struct {
			op  string
			val any
		}{{"json-empty-array", []any{}}, {"json-empty-object", map[string]any{}}, {"json-empty-string", ""}, {"json-number", float64(7)}, {"json-delete-key", del}}...)
	}
	for _, p := range paths {
		for _, r := range reps {
			root, ok := set(clone(), p, r.val)
			if !ok {
				continue
			}
			b, err := json.Marshal(root)
			if err != nil {
				continue
			}
			f(r.op, string(b))
		}
	}
}

var xmlTagRE = regexp.MustCompile(`<(/?)([A-Za-z][-A-Za-z0-9_.]*)((?:\s+[^<>]*?)?)(/?)>`)

// xmlMutants: every element emptied (its content removed) and every element
// deleted; "self": every <member> of an <entry name="N"> replaced by N.
func xmlMutants(text string, self bool, f func(op, mutated string)) {
	type el struct {
		name                 string
		openStart, openEnd   int
		closeStart, closeEnd int
		entryName            string
	}
	var stack []int
	var els []el
	for _, m := range xmlTagRE.FindAllStringSubmatchIndex(text, -1) {
		closing := m[3] > m[2]
		name := text[m[4]:m[5]]
		selfClosing := m[9] > m[8]
		switch {
		case closing:
			for len(stack) > 0 {
				i := stack[len(stack)-1]
				stack = stack[:len(stack)-1]
				if els[i].name == name {
					els[i].closeStart, els[i].closeEnd = m[0], m[1]
					break
				}
			}
		case selfClosing:
			els = append(els, el{name: name, openStart: m[0], openEnd: m[1], closeStart: m[1], closeEnd: m[1]})
		default:
			e := el{name: name, openStart: m[0], openEnd: m[1], closeStart: -1}
			if name == "entry" {
				attrs := text[m[6]:m[7]]
				if i := strings.Index(attrs, `name="`); i >= 0 {
					rest := attrs[i+6:]
					if j := strings.Index(rest, `"`); j >= 0 {
						e.entryName = rest[:j]
					}
				}
			}
			els = append(els, e)
			stack = append(stack, len(els)-1)
		}
	}
	for i, e := range els {
		if e.closeStart < 0 {
			continue
		}
		if !self {
			if e.closeStart > e.openEnd {
				f("xml-empty-element", text[:e.openEnd]+text[e.closeStart:])
			}
			f("xml-delete-element", text[:e.openStart]+text[e.closeEnd:])
			continue
		}
		if e.name != "entry" || e.entryName == "" {
			continue
		}
		// members inside this entry
		for _, m := range els[i+1:] {
			if m.openStart > e.closeStart {
				break
			}
			if m.name == "member" && m.closeStart > m.openEnd {
				f("xml-self-member", text[:m.openEnd]+e.entryName+text[m.closeStart:])
			}
		}
	}
}

var (
	xmlDevRE   = regexp.MustCompile(`<devices>\s*<entry(?:\s+name="([^"]*)")?\s*>`)
	xmlVsysRE  = regexp.MustCompile(`<entry\s+name="(vsys[^"]*)"\s*>`)
	xmlGroupRE = regexp.MustCompile(`<entry\s+name="([^"]+)"\s*>\s*<static>`)
)

// xmlCrossCycles: a cycle of address-groups that no single file holds.  For
// every address-group G of the PAN-OS code file: G gets the further member
// "x-cycle", which the file does not define; a second file (raw or IPv6)
// defines the address-group "x-cycle" with the single member G.
func xmlCrossCycles(text string, f func(mainText, other string)) {
	dm := xmlDevRE.FindStringSubmatch(text)
	if dm == nil {
		return
	}
	devAttr := ""
	if dm[1] != "" {
		devAttr = ` name="` + dm[1] + `"`
	}
	vs := xmlVsysRE.FindAllStringSubmatchIndex(text, -1)
	for vi, v := range vs {
		end := len(text)
		if vi+1 < len(vs) {
			end = vs[vi+1][0]
		}
		vsys := text[v[2]:v[3]]
		part := text[v[1]:end]
		ag := strings.Index(part, "<address-group>")
		if ag < 0 {
			continue
		}
		agEnd := strings.Index(part[ag:], "</address-group>")
		if agEnd < 0 {
			continue
		}
		sec := part[ag : ag+agEnd]
		for _, g := range xmlGroupRE.FindAllStringSubmatchIndex(sec, -1) {
			name := sec[g[2]:g[3]]
			at := v[1] + ag + g[1] // behind "<static>"
			mainText := text[:at] + "<member>x-cycle</member>" + text[at:]
			other := `<config><devices><entry` + devAttr + `><vsys><entry name="` + vsys + `"><address-group><entry name="x-cycle"><static><member>` +
				name + `</member></static></entry></address-group></entry></vsys></entry></devices></config>`
			f(mainText, other)
		}
	}
}
