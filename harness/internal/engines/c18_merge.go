package engines

import (
	"fmt"
	"strings"
	"time"

	"verif/harness/internal/ciscomodel"
	"verif/harness/internal/core"
	"verif/harness/internal/linuxmodel"
	"verif/harness/internal/nsxmodel"
	"verif/harness/internal/panmodel"
)

// C18: the effective target (IPv4 + IPv6 + raw) is observed as the state an
// empty device reaches; an independent reference (list predicates only)
// says where every entry of every part must be.

type mergeParts struct {
	v4, v6, pre, app []string // entries of one ACL / chain / rulebase, canonical text
}

// checkMerge evaluates the documented order on the resulting list.
// isPermit tells whether an entry permits; appendAtEnd: PAN-OS rule.
func checkMerge(res []string, p mergeParts, isPermit func(string) bool, appendAtEnd bool) string {
	all := append(append(append(append([]string{}, p.v4...), p.v6...), p.pre...), p.app...)
	count := map[string]int{}
	for _, e := range all {
		count[e]++
	}
	got := map[string]int{}
	for _, e := range res {
		got[e]++
	}
	for e, n := range count {
		if got[e] != n {
			return fmt.Sprintf("entry %q appears %d times, expected %d", e, got[e], n)
		}
	}
	for e, n := range got {
		if count[e] != n {
			return fmt.Sprintf("unexpected entry %q (%d times)", e, n)
		}
	}
	pos := func(e string, from int) int {
		for i := from; i < len(res); i++ {
			if res[i] == e {
				return i
			}
		}
		return -1
	}
	// relative order inside each part
	// (the raw file is one part: its prepended entries followed by its
	// [APPEND] entries)
	rawAll := append(append([]string{}, p.pre...), p.app...)
	for name, part := range map[string][]string{"ipv4": p.v4, "ipv6": p.v6, "raw": rawAll} {
		at := 0
		for _, e := range part {
			i := pos(e, at)
			if i < 0 {
				return fmt.Sprintf("order inside part %s not preserved at %q", name, e)
			}
			at = i + 1
		}
	}
	netspoc := map[string]bool{}
	for _, e := range append(append([]string{}, p.v4...), p.v6...) {
		netspoc[e] = true
	}
	firstNetspoc, lastPermit := len(res), -1
	for i, e := range res {
		if netspoc[e] {
			if i < firstNetspoc {
				firstNetspoc = i
			}
			if isPermit(e) {
				lastPermit = i
			}
		}
	}
	for _, e := range p.pre {
		if i := pos(e, 0); i > firstNetspoc {
			return fmt.Sprintf("raw entry %q is behind a Netspoc entry", e)
		}
	}
	// trailing deny entries of Netspoc: Netspoc entries behind the last permit
	for _, e := range p.app {
		i := pos(e, 0)
		if appendAtEnd {
			for j := i + 1; j < len(res); j++ {
				if netspoc[res[j]] || contains(p.pre, res[j]) {
					return fmt.Sprintf("[APPEND] entry %q is not at the end", e)
				}
			}
			continue
		}
		if i < lastPermit {
			return fmt.Sprintf("[APPEND] entry %q is in front of the last permitting Netspoc entry", e)
		}
		for j := 0; j < i; j++ {
			if netspoc[res[j]] && !isPermit(res[j]) && j > lastPermit {
				return fmt.Sprintf("[APPEND] entry %q is behind the trailing deny entry %q", e, res[j])
			}
		}
	}
	return ""
}

func contains(l []string, s string) bool {
	for _, e := range l {
		if e == s {
			return true
		}
	}
	return false
}

type c18 struct {
	ctx  *core.Ctx
	res  *core.Result
	sc   *core.Scratch
	prop string // "" = C18; C03 / C04 run the several-container parts too
}

func (x *c18) violation(model, space string, idx int64, a string, b core.Files, script []string, oracle, sig, msg string) {
	prop := x.prop
	if prop == "" {
		prop = "C18"
	}
	if prop == "C20" && oracle != "no-panic" && !strings.HasPrefix(sig, "status2") {
		return // C20 only looks at crashes of the merge
	}
	x.res.AddViolation(core.Violation{Property: prop, Engine: "approvex/merge-" + strings.ToLower(model), Space: space,
		Index: idx, Inputs: inputsOf(core.Files{Main: a}, b), Script: script, Oracle: oracle, Signature: sig, Message: msg})
}

// part shapes: indices into an entry alphabet
var shapes4 = [][]string{{}, {"D"}, {"P1", "D"}, {"P1", "P2"}, {"P1", "P2", "D"}, {"D", "D2"}}
var rawPre = [][]string{{}, {"R1"}, {"R1", "R2"}}
var rawApp = [][]string{{}, {"A1"}, {"A1", "A2"}}

// ---- ASA ----

var asa4 = map[string]string{"P1": "extended permit ip host 10.1.1.1 any4", "P2": "extended permit tcp any4 host 10.9.9.1 eq 80",
	"D": "extended deny ip any4 any4", "D2": "extended deny ip host 10.6.6.6 any4"}
var asa6 = map[string]string{"P1": "extended permit ip host 1000::1 any6", "P2": "extended permit tcp any6 host 1000::9 eq 80",
	"D": "extended deny ip any6 any6", "D2": "extended deny ip host 1000::6 any6"}
var asaRaw = map[string]string{"R1": "extended permit ip host 10.7.7.1 any4", "R2": "extended deny ip host 10.7.7.2 any4",
	"A1": "extended deny ip host 10.8.8.1 any4 log", "A2": "extended permit ip host 10.8.8.2 any4"}

func asaPart(name string, keys []string, m map[string]string, app []string) (string, []string, []string) {
	var b strings.Builder
	var l, la []string
	for _, k := range keys {
		fmt.Fprintf(&b, "access-list %s %s\n", name, m[k])
		l = append(l, ciscomodel.NormACE(m[k]))
	}
	if len(app) > 0 {
		b.WriteString("[APPEND]\n")
		for _, k := range app {
			fmt.Fprintf(&b, "access-list %s %s\n", name, m[k])
			la = append(la, ciscomodel.NormACE(m[k]))
		}
	}
	if len(keys)+len(app) > 0 {
		fmt.Fprintf(&b, "access-group %s in interface inside\n", name)
	}
	return b.String(), l, la
}

func (x *c18) runASA() {
	var idx int64
	for _, s4 := range shapes4 {
		for _, s6 := range shapes4 {
			for _, pre := range rawPre {
				for _, app := range rawApp {
					for _, rawName := range []string{"inside_in", "rawacl"} {
						idx++
						if !x.ctx.Mine(idx) {
							continue
						}
						if len(s4)+len(s6)+len(pre)+len(app) == 0 {
							continue
						}
						t4, l4, _ := asaPart("inside_in", s4, asa4, nil)
						t6, l6, _ := asaPart("inside_in", s6, asa6, nil)
						traw, lpre, lapp := asaPart(rawName, pre, asaRaw, app)
						b := core.Files{Main: t4, V6: t6, Raw: traw}
						x.caseCisco("ASA", idx, asaIntf, b, mergeParts{l4, l6, lpre, lapp}, "inside")
					}
				}
			}
		}
	}
}

func (x *c18) caseCisco(model string, idx int64, dev string, b core.Files, p mergeParts, intf string) {
	res := x.res
	res.Evaluations++
	out := x.sc.Compare(model, core.Files{Main: dev}, b)
	space := "parts-" + strings.ToLower(model)
	if out.Status == 2 {
		x.violation(model, space, idx, dev, b, nil, "no-panic", "panic:"+out.Site, out.Panic)
		return
	}
	if out.Status == 1 {
		res.Count("rejected_by_tool", 1)
		res.Outcome("rejected:" + short(firstLine(out.Stderr), 60))
		// a well-formed combination must not be rejected
		x.violation(model, space, idx, dev, b, nil, "accepted", "rejected:"+rejectSig(out.Stderr), out.Stderr)
		return
	}
	res.Nontrivial++
	ios := model == "IOS"
	m := ciscomodel.Load(dev, ios)
	script := out.Script()
	if _, cmd, err := execScript(m, script, nil); err != nil {
		x.violation(model, space, idx, dev, b, script, "exec-accept", "exec:"+execSig(err), fmt.Sprintf("%q: %v", cmd, err))
		return
	}
	res.Transitions++
	name := boundACL(m, intf)
	var got []string
	for _, l := range aclOf(m, name) {
		got = append(got, ciscomodel.NormACE(l))
	}
	isPermit := func(e string) bool {
		return strings.HasPrefix(e, "extended permit") || strings.HasPrefix(e, "permit")
	}
	if msg := checkMerge(got, p, isPermit, false); msg != "" {
		x.violation(model, space, idx, dev, b, script, "merge-order", "merge:"+mergeSig(msg),
			msg+"\nresulting ACL:\n  "+strings.Join(got, "\n  "))
		return
	}
	res.Outcome(fmt.Sprintf("ok:len=%d", len(got)))
	if len(res.Samples) < 2 && len(p.app) > 0 && len(p.pre) > 0 && len(p.v4) > 1 {
		res.Sample(map[string]any{"model": model, "v4": b.Main, "v6": b.V6, "raw": b.Raw, "result": got})
	}
}

func mergeSig(msg string) string {
	switch {
	case strings.Contains(msg, "appears"):
		return "count"
	case strings.Contains(msg, "unexpected entry"):
		return "extra"
	case strings.Contains(msg, "order inside part"):
		return "intra-part-order"
	case strings.Contains(msg, "is behind a Netspoc entry"):
		return "raw-not-first"
	case strings.Contains(msg, "is behind the trailing deny entry"):
		return "append-behind-trailing-deny"
	case strings.Contains(msg, "[APPEND]"):
		return "append-position"
	}
	return "other"
}

// ---- IOS ----

func iosPartText(name string, keys []string, m map[string]string, app []string) (string, []string, []string) {
	conv := func(s string) string { return iosSpell(strings.TrimPrefix(s, "extended ")) }
	var b strings.Builder
	var l, la []string
	if len(keys)+len(app) == 0 {
		return "", nil, nil
	}
	fmt.Fprintf(&b, "ip access-list extended %s\n", name)
	for _, k := range keys {
		fmt.Fprintf(&b, " %s\n", conv(m[k]))
		l = append(l, ciscomodel.NormACE(conv(m[k])))
	}
	if len(app) > 0 {
		b.WriteString("[APPEND]\n")
		for _, k := range app {
			fmt.Fprintf(&b, " %s\n", conv(m[k]))
			la = append(la, ciscomodel.NormACE(conv(m[k])))
		}
	}
	fmt.Fprintf(&b, "interface Ethernet0\n ip access-group %s in\n", name)
	return b.String(), l, la
}

func (x *c18) runIOS() {
	var idx int64
	dev := iosIntf("Ethernet0", "10.0.0.1")
	for _, s4 := range shapes4 {
		for _, pre := range rawPre {
			for _, app := range rawApp {
				for _, rawName := range []string{"inside_in", "rawacl"} {
					idx++
					if !x.ctx.Mine(idx) {
						continue
					}
					if len(s4)+len(pre)+len(app) == 0 {
						continue
					}
					t4, l4, _ := iosPartText("inside_in", s4, asa4, nil)
					traw, lpre, lapp := iosPartText(rawName, pre, asaRaw, app)
					if t4 != "" {
						t4 = strings.Replace(t4, "interface Ethernet0\n", "interface Ethernet0\n ip address 10.0.0.1 255.255.255.0\n", 1)
					}
					b := core.Files{Main: t4, Raw: traw}
					x.caseCisco("IOS", idx, dev, b, mergeParts{l4, nil, lpre, lapp}, "Ethernet0")
				}
			}
		}
	}
}

// ---- Linux ----

var lin4 = map[string]string{"P1": "-j ACCEPT -s 10.1.1.1", "P2": "-j ACCEPT -d 10.9.9.1 -p tcp --dport 80",
	"D": "-j DROP", "D2": "-j DROP -s 10.6.6.6"}
var linRaw = map[string]string{"R1": "-j ACCEPT -s 10.7.7.1", "R2": "-j DROP -s 10.7.7.2",
	"A1": "-j DROP -s 10.8.8.1", "A2": "-j ACCEPT -s 10.8.8.2"}

func (x *c18) runLinux() {
	var idx int64
	// layout of the raw file: 0 = one table with COMMIT, 1 = without COMMIT
	// line, 2 = a mangle table with its own [APPEND] section in front
	// (with COMMIT), 3 = the same without COMMIT between the tables
	// layouts 4, 5: as 0, 1, but Netspoc's deny entries jump to the chain
	// droplog (LOG, then DROP) as Netspoc's own Linux code does
	for layout := 0; layout < 6; layout++ {
		droplog := layout >= 4
		for _, s4 := range shapes4 {
			for _, pre := range rawPre {
				for _, app := range rawApp {
					idx++
					if !x.ctx.Mine(idx) {
						continue
					}
					if len(pre)+len(app) == 0 {
						continue
					}
					var l4, lpre, lapp []string
					var b4, br strings.Builder
					if layout == 2 || layout == 3 {
						br.WriteString("*mangle\n:PREROUTING ACCEPT\n-A PREROUTING -j MARK --set-mark 1 -s 10.7.7.7\n[APPEND]\n-A PREROUTING -j MARK --set-mark 2 -s 10.7.7.8\n")
						if layout == 2 {
							br.WriteString("COMMIT\n")
						}
					}
					b4.WriteString("*filter\n:INPUT DROP\n:FORWARD DROP\n")
					if droplog {
						b4.WriteString(":droplog -\n-A droplog -j LOG --log-level debug\n-A droplog -j DROP\n")
					}
					for _, k := range s4 {
						r := lin4[k]
						if droplog {
							r = strings.Replace(r, "-j DROP", "-j droplog", 1)
						}
						b4.WriteString("-A FORWARD " + r + "\n")
						l4 = append(l4, linuxmodel.CanonRule(r))
					}
					b4.WriteString("COMMIT\n")
					br.WriteString("*filter\n:FORWARD DROP\n")
					for _, k := range pre {
						br.WriteString("-A FORWARD " + linRaw[k] + "\n")
						lpre = append(lpre, linuxmodel.CanonRule(linRaw[k]))
					}
					if len(app) > 0 {
						br.WriteString("[APPEND]\n")
						for _, k := range app {
							br.WriteString("-A FORWARD " + linRaw[k] + "\n")
							lapp = append(lapp, linuxmodel.CanonRule(linRaw[k]))
						}
					}
					if layout != 1 && layout != 5 {
						br.WriteString("COMMIT\n")
					}
					b := core.Files{Main: b4.String(), Raw: br.String()}
					x.caseLinux(idx, b, mergeParts{l4, nil, lpre, lapp})
				}
			}
		}
	}
}

func (x *c18) caseLinux(idx int64, b core.Files, p mergeParts) {
	res := x.res
	res.Evaluations++
	out := x.sc.Compare("Linux", core.Files{Main: ""}, b)
	if out.Status == 2 {
		x.violation("Linux", "parts-linux", idx, "", b, nil, "no-panic", "panic:"+out.Site, out.Panic)
		return
	}
	if out.Status == 1 {
		x.violation("Linux", "parts-linux", idx, "", b, nil, "accepted", "rejected:"+rejectSig(out.Stderr), out.Stderr)
		return
	}
	res.Nontrivial++
	_, _, restore := splitLinuxScript(out.Stdout)
	m := &linuxmodel.Dev{}
	if err := m.Restore(restore); err != nil {
		x.violation("Linux", "parts-linux", idx, "", b, out.Script(), "restore-accept", "restore:"+execSig(err), err.Error())
		return
	}
	res.Transitions++
	var got []string
	for _, t := range m.Tables {
		if t.Name == "filter" {
			for _, c := range t.Chains {
				if c.Name == "FORWARD" {
					for _, r := range c.Rules {
						got = append(got, linuxmodel.CanonRule(r))
					}
				}
			}
		}
	}
	// a jump to the chain droplog (LOG, DROP) is a drop entry
	isPermit := func(e string) bool { return !strings.Contains(e, "-j DROP") && !strings.Contains(e, "-j droplog") }
	if msg := checkMerge(got, p, isPermit, false); msg != "" {
		x.violation("Linux", "parts-linux", idx, "", b, out.Script(), "merge-order", "merge:"+mergeSig(msg),
			msg+"\nresulting chain:\n  "+strings.Join(got, "\n  "))
		return
	}
	res.Outcome(fmt.Sprintf("ok:len=%d", len(got)))
}

// ---- PAN-OS ----

func (x *c18) runPanos() {
	var idx int64
	rule := func(name, action, src string, appendTag bool) string {
		a := ""
		if appendTag {
			a = "<APPEND/>"
		}
		return fmt.Sprintf(`<entry name="%s"><action>%s</action><from><member>z1</member></from><to><member>z2</member></to>`+
			`<source><member>%s</member></source><destination><member>any</member></destination><service><member>any</member></service>`+
			`<application><member>any</member></application>%s</entry>`, name, action, src, a)
	}
	cfg := func(rules string, addrs ...string) string {
		if rules == "" {
			return ""
		}
		var ab strings.Builder
		for _, a := range addrs {
			fmt.Fprintf(&ab, `<entry name="%s"><ip-netmask>%s</ip-netmask></entry>`, a, strings.TrimPrefix(a, "IP_")+"/32")
		}
		return `<config><devices><entry name="localhost.localdomain"><vsys><entry name="vsys1"><rulebase><security><rules>` +
			rules + `</rules></security></rulebase><address>` + ab.String() + `</address></entry></vsys></entry></devices></config>` + "\n"
	}
	actions := map[string]string{"P1": "allow", "P2": "allow", "D": "deny", "D2": "deny", "R1": "allow", "R2": "deny", "A1": "deny", "A2": "allow"}
	for _, s4 := range shapes4 {
		for _, s6 := range [][]string{{}, {"P1", "D"}} {
			for _, pre := range rawPre {
				for _, app := range rawApp {
					idx++
					if !x.ctx.Mine(idx) {
						continue
					}
					if len(s4)+len(s6)+len(pre)+len(app) == 0 {
						continue
					}
					var r4, r6, rr strings.Builder
					var a4, a6, ar []string
					var p mergeParts
					for i, k := range s4 {
						ad := fmt.Sprintf("IP_10.4.0.%d", i+1)
						r4.WriteString(rule(fmt.Sprintf("r%d", i+1), actions[k], ad, false))
						a4 = append(a4, ad)
						p.v4 = append(p.v4, actions[k]+" "+ad)
					}
					for i, k := range s6 {
						ad := fmt.Sprintf("IP_10.6.0.%d", i+1)
						r6.WriteString(rule(fmt.Sprintf("v6r%d", i+1), actions[k], ad, false))
						a6 = append(a6, ad)
						p.v6 = append(p.v6, actions[k]+" "+ad)
					}
					for i, k := range pre {
						ad := fmt.Sprintf("IP_10.7.0.%d", i+1)
						rr.WriteString(rule(fmt.Sprintf("raw%d", i+1), actions[k], ad, false))
						ar = append(ar, ad)
						p.pre = append(p.pre, actions[k]+" "+ad)
					}
					for i, k := range app {
						ad := fmt.Sprintf("IP_10.8.0.%d", i+1)
						rr.WriteString(rule(fmt.Sprintf("rawapp%d", i+1), actions[k], ad, true))
						ar = append(ar, ad)
						p.app = append(p.app, actions[k]+" "+ad)
					}
					b := core.Files{Main: cfg(r4.String(), a4...), V6: cfg(r6.String(), a6...), Raw: cfg(rr.String(), ar...)}
					x.casePanos(idx, b, p)
				}
			}
		}
	}
}

func (x *c18) casePanos(idx int64, b core.Files, p mergeParts) {
	res := x.res
	res.Evaluations++
	dev := `<config><devices><entry name="localhost.localdomain"><vsys><entry name="vsys1"></entry></vsys></entry></devices></config>` + "\n"
	out := x.sc.Compare("PAN-OS", core.Files{Main: dev}, b)
	if out.Status == 2 {
		x.violation("PAN-OS", "parts-panos", idx, dev, b, nil, "no-panic", "panic:"+out.Site, out.Panic)
		return
	}
	if out.Status == 1 {
		x.violation("PAN-OS", "parts-panos", idx, dev, b, nil, "accepted", "rejected:"+rejectSig(out.Stderr), out.Stderr)
		return
	}
	res.Nontrivial++
	m, _ := panmodel.Load(dev)
	for i, cmd := range out.Script() {
		if err := m.Exec(cmd); err != nil {
			x.violation("PAN-OS", "parts-panos", idx, dev, b, out.Script(), "exec-accept", "exec:"+execSig(err), fmt.Sprintf("#%d: %v", i, err))
			return
		}
	}
	res.Transitions++
	var got []string
	for _, v := range m.Vsys() {
		for _, r := range v.Entries("rulebase", "security", "rules") {
			act := ""
			if a := r.Find("action"); a != nil {
				act = a.Text
			}
			src := strings.Join(r.Members("source"), ",")
			got = append(got, act+" "+src)
		}
	}
	isPermit := func(e string) bool { return strings.HasPrefix(e, "allow") }
	if msg := checkMerge(got, p, isPermit, false); msg != "" {
		x.violation("PAN-OS", "parts-panos", idx, dev, b, out.Script(), "merge-order", "merge:"+mergeSig(msg),
			msg+"\nresulting rulebase:\n  "+strings.Join(got, "\n  "))
		return
	}
	res.Outcome(fmt.Sprintf("ok:len=%d", len(got)))
}

// ---- NSX: completeness / exactly once ----

func (x *c18) runNSX() {
	var idx int64
	mk := func(prefix string, n int, seq0 int) (string, []string) {
		if n == 0 {
			return "", nil
		}
		c := nsxCfgT{policies: map[string][]nsxRuleT{}}
		var l []string
		var rules []nsxRuleT
		for i := 0; i < n; i++ {
			src := fmt.Sprintf("10.%d.0.%d", seq0, i+1)
			rules = append(rules, nsxRuleT{fmt.Sprintf("%s%d", prefix, i+1), "ALLOW", "OUT", seq0 + i, src, "10.9.9.9", "ANY", false, ""})
			l = append(l, src)
		}
		c.policies["v1"] = rules
		return nsxJSON(c), l
	}
	for n4 := 0; n4 <= 3; n4++ {
		for n6 := 0; n6 <= 2; n6++ {
			for nr := 0; nr <= 2; nr++ {
				idx++
				if !x.ctx.Mine(idx) || n4+n6+nr == 0 {
					continue
				}
				t4, l4 := mk("r", n4, 20)
				t6, l6 := mk("v6r", n6, 40)
				tr, lr := mk("raw", nr, 60)
				b := core.Files{Main: t4, V6: t6, Raw: tr}
				x.res.Evaluations++
				out := x.sc.Compare("NSX", core.Files{Main: ""}, b)
				if out.Status != 0 {
					x.violation("NSX", "parts-nsx", idx, "", b, nil, "accepted", fmt.Sprintf("status%d:%s", out.Status, out.Site), out.Stderr+out.Panic)
					continue
				}
				x.res.Nontrivial++
				m := &nsxmodel.Dev{}
				okAll := true
				for _, c := range parseNSXScript(out.Stdout) {
					if err := m.Exec(c.method, c.url, c.body); err != nil {
						x.violation("NSX", "parts-nsx", idx, "", b, nil, "exec-accept", "exec:"+execSig(err), err.Error())
						okAll = false
						break
					}
				}
				if !okAll {
					continue
				}
				x.res.Transitions++
				var got []string
				for _, s := range m.SemPolicy("Netspoc-v1") {
					for _, src := range append(append(append([]string{}, l4...), l6...), lr...) {
						if strings.Contains(s, `"src":"`+src+`"`) {
							got = append(got, src)
						}
					}
				}
				if msg := checkMerge(got, mergeParts{v4: l4, v6: l6, pre: lr}, func(string) bool { return true }, false); msg != "" &&
					(strings.Contains(msg, "appears") || strings.Contains(msg, "unexpected")) {
					x.violation("NSX", "parts-nsx", idx, "", b, nil, "merge-complete", "merge:"+mergeSig(msg), msg)
					continue
				}
				x.res.Outcome("ok")
			}
		}
	}
}

// ---- raw entries that cannot be merged must be reported ----

func (x *c18) runErrors() {
	if x.ctx.Shard != 0 {
		return
	}
	type ec struct {
		model, dev string
		b          core.Files
		what       string
	}
	asaBase := "access-list inside_in extended permit ip host 10.1.1.1 any4\naccess-group inside_in in interface inside\n"
	iosBase := "ip access-list extended inside_in\n permit ip host 10.1.1.1 any\ninterface Ethernet0\n ip address 10.0.0.1 255.255.255.0\n ip access-group inside_in in\n"
	cases := []ec{
		{"ASA", asaIntf, core.Files{Main: asaBase, Raw: "foo bar baz\n"}, "unknown command"},
		{"ASA", asaIntf, core.Files{Main: asaBase, Raw: "access-list unbound extended permit ip any4 any4\n"}, "object referenced by no anchor"},
		{"ASA", asaIntf, core.Files{Main: asaBase, Raw: "access-list x extended permit ip any4 any4\naccess-group x in interface inside\naccess-group x in interface outside\n"}, "object referenced twice"},
		{"ASA", asaIntf, core.Files{Main: "object-group network g1\n network-object host 10.1.1.1\naccess-list inside_in extended permit ip object-group g1 any4\naccess-group inside_in in interface inside\n",
			Raw: "object-group network g1\n network-object host 10.2.2.2\naccess-list inside_in extended permit ip object-group g1 any4\naccess-group inside_in in interface inside\n"}, "name clash"},
		{"ASA", asaIntf, core.Files{Main: asaBase, Raw: "object-group network unused\n network-object host 10.2.2.2\n"}, "unused object-group"},
		{"IOS", iosIntf("Ethernet0", "10.0.0.1"), core.Files{Main: iosBase, Raw: "foo bar\n"}, "unknown command"},
		{"IOS", iosIntf("Ethernet0", "10.0.0.1"), core.Files{Main: iosBase, Raw: "ip access-list extended unbound\n permit ip any any\n"}, "object referenced by no anchor"},
		{"IOS", iosIntf("Ethernet0", "10.0.0.1"), core.Files{Main: iosBase, Raw: "ip access-list extended inside_in\n permit ip any any\ninterface Ethernet0\n ip access-group inside_in out\n"}, "name clash"},
		{"IOS", iosIntf("Ethernet0", "10.0.0.1"), core.Files{Main: iosBase, Raw: "ip access-list extended rawacl\n pemit tcp any any eq 22\n permit ip any any\ninterface Ethernet0\n ip access-group rawacl out\n"}, "unknown (mistyped) sub-command"},
		{"IOS", iosIntf("Ethernet0", "10.0.0.1"), core.Files{Main: iosBase, Raw: "ip access-list extended rawacl\n permit tcp any any eq 22\n  permit tcp any any eq 23\ninterface Ethernet0\n ip access-group rawacl out\n"}, "sub-command indented one blank too deep"},
		{"ASA", asaIntf, core.Files{Main: asaBase, Raw: "object-group network rg\n netwrk-object host 10.2.2.2\n network-object host 10.2.2.3\naccess-list rawacl extended permit ip object-group rg any4\naccess-group rawacl out interface inside\n"}, "unknown (mistyped) sub-command"},
		{"Linux", "", core.Files{Main: "*filter\n:FORWARD DROP\nCOMMIT\n", Raw: "foo\n"}, "unknown command"},
		{"PAN-OS", `<config><devices><entry name="localhost.localdomain"><vsys><entry name="vsys1"></entry></vsys></entry></devices></config>`,
			core.Files{Main: "", Raw: `<config><devices><entry name="localhost.localdomain"><vsys><entry name="vsys1"><rulebase><security><rules><entry name="r1"><action>allow</action></entry></rules></security></rulebase></entry></vsys></entry></devices></config>`}, "forbidden rule name"},
		{"PAN-OS", `<config><devices><entry name="localhost.localdomain"><vsys><entry name="vsys1"></entry></vsys></entry></devices></config>`,
			core.Files{Main: `<config><devices><entry name="localhost.localdomain"><vsys><entry name="vsys1"></entry></vsys></entry></devices></config>`,
				Raw: `<config><devices><entry name="other-device"><vsys><entry name="vsys1"><rulebase><security><rules><entry name="raw1"><action>allow</action><from><member>z1</member></from><to><member>z2</member></to><source><member>any</member></source><destination><member>any</member></destination><service><member>any</member></service><application><member>any</member></application></entry></rules></security></rulebase></entry></vsys></entry></devices></config>`}, "raw file for another device entry"},
		{"PAN-OS", `<config><devices><entry name="localhost.localdomain"><vsys><entry name="vsys1"></entry></vsys></entry></devices></config>`,
			core.Files{Main: `<config><devices><entry name="localhost.localdomain"><vsys><entry name="vsys1"></entry></vsys></entry></devices></config>`,
				V6: `<config><devices><entry name="other-device"><vsys><entry name="vsys1"><rulebase><security><rules><entry name="v6r1"><action>allow</action><from><member>z1</member></from><to><member>z2</member></to><source><member>any</member></source><destination><member>any</member></destination><service><member>any</member></service><application><member>any</member></application></entry></rules></security></rulebase></entry></vsys></entry></devices></config>`}, "IPv6 file for another device entry"},
		{"PAN-OS", panEmptyCfg, core.Files{Main: panClashCfg("r1", "10.1.1.10/32", "80", "a1", "tcp 80"), Raw: panClashCfg("raw1", "10.9.9.9/32", "80", "a1", "tcp 80")}, "name clash: raw address with the name of a Netspoc address"},
		{"PAN-OS", panEmptyCfg, core.Files{Main: panClashCfg("r1", "10.1.1.10/32", "80", "a1", "tcp 80"), Raw: panClashCfg("raw1", "10.1.1.10/32", "81", "a1", "tcp 80")}, "name clash: raw service with the name of a Netspoc service"},
		{"PAN-OS", panEmptyCfg, core.Files{Main: panClashCfg("r1", "10.1.1.10/32", "80", "a1", "tcp 80"), Raw: panClashCfg("raw1", "10.1.1.10/32", "80", "a2", "tcp 80")}, "name clash: raw address-group with the name of a Netspoc address-group"},
		{"PAN-OS", panEmptyCfg, core.Files{Main: panClashCfg("r1", "10.1.1.10/32", "80", "a1", "tcp 80"), Raw: panClashCfg("raw1", "10.1.1.10/32", "80", "a1", "udp 53")}, "name clash: raw service-group with the name of a Netspoc service-group"},
		{"Linux", "", core.Files{Main: "*filter\n:FORWARD DROP\n-A FORWARD -j ACCEPT -s 10.1.1.1\nCOMMIT\n",
			Raw: "*filter\n:FORWARD DROP\n-A FORWARD -j ACCEPT -s 10.7.7.1\n*filter\n:FORWARD DROP\n-A FORWARD -j ACCEPT -s 10.7.7.2\n"}, "table defined twice in the raw file"},
		{"NSX", "", core.Files{Main: `{"policies":[{"id":"Netspoc-v1","resource_type":"GatewayPolicy","rules":[{"id":"r1","action":"ALLOW","sequence_number":20,"source_groups":["10.1.1.1"],"destination_groups":["ANY"],"services":["ANY"],"scope":["/infra/tier-0s/v1"],"direction":"OUT","ip_protocol":"IPV4"}]}]}`, V6: `{"policies":[{"id":"Netspoc-v1","resource_type":"GatewayPolicy","rules":[{"id":"v6r1","action":"ALLOW","sequence_number":20,"source_groups":["::a01:101"],"destination_groups":["ANY"],"services":["ANY"],"scope":["/infra/tier-0s/v1"],"direction":"OUT","ip_protocol":"IPV6"}]}]}`, Raw: `{"policies":[{"id":"Netspoc-v1","resource_type":"GatewayPolicy","rules":[{"id":"v6r1","action":"DROP","sequence_number":20,"source_groups":["::a01:102"],"destination_groups":["ANY"],"services":["ANY"],"scope":["/infra/tier-0s/v1"],"direction":"OUT","ip_protocol":"IPV6"}]}]}`}, "name clash: raw rule with the name of a Netspoc IPv6 rule"},
		{"NSX", "", core.Files{Main: `{"policies":[{"id":"Netspoc-v1","resource_type":"GatewayPolicy","rules":[{"id":"r1","action":"ALLOW","sequence_number":20,"source_groups":["10.1.1.1"],"destination_groups":["ANY"],"services":["ANY"],"scope":["/infra/tier-0s/v1"],"direction":"OUT","ip_protocol":"IPV4"}]}]}`, V6: `{"groups":[{"id":"Netspoc-v6g0","expression":[{"id":"id","resource_type":"IPAddressExpression","ip_addresses":["::a01:101","::a01:102"]}]}],"policies":[{"id":"Netspoc-v1","resource_type":"GatewayPolicy","rules":[{"id":"v6r1","action":"ALLOW","sequence_number":20,"source_groups":["/infra/domains/default/groups/Netspoc-v6g0"],"destination_groups":["ANY"],"services":["ANY"],"scope":["/infra/tier-0s/v1"],"direction":"OUT","ip_protocol":"IPV6"}]}]}`,
			Raw: `{"groups":[{"id":"Netspoc-v6g0","expression":[{"id":"id","resource_type":"IPAddressExpression","ip_addresses":["::a01:109"]}]}],"policies":[{"id":"Netspoc-v1","resource_type":"GatewayPolicy","rules":[{"id":"raw1","action":"DROP","sequence_number":20,"source_groups":["/infra/domains/default/groups/Netspoc-v6g0"],"destination_groups":["ANY"],"services":["ANY"],"scope":["/infra/tier-0s/v1"],"direction":"OUT","ip_protocol":"IPV6"}]}]}`}, "name clash: raw group with the name of a Netspoc IPv6 group"},
		{"PAN-OS", panEmptyCfg, core.Files{Main: panClashCfg("r1", "10.1.1.10/32", "80", "a1", "tcp 80"), V6: panClashCfg("v6r1", "10.1.1.10/32", "80", "a1", "tcp 80"), Raw: strings.Replace(panClashCfg("v6r1", "10.1.1.10/32", "80", "a1", "tcp 80"), "<action>allow", "<action>deny", 1)}, "name clash: raw rule with the name of a Netspoc IPv6 rule"},
		{"NSX", "", core.Files{Main: "", Raw: `{"groups":[{"id":"other-g1","expression":[{"id":"id","resource_type":"IPAddressExpression","ip_addresses":["10.1.1.1"]}]}]}`}, "forbidden group name"},
		{"NSX", "", core.Files{Main: "", Raw: `{"policies":[{"id":"Netspoc-v1","rules":[{"id":"r1","action":"ALLOW","sequence_number":1,"source_groups":["ANY"],"destination_groups":["ANY"],"services":["ANY"],"scope":["/infra/tier-0s/v1"],"direction":"OUT"}]}]}`}, "forbidden rule name"},
	}
	for i, c := range cases {
		x.res.Evaluations++
		out := x.sc.Compare(c.model, core.Files{Main: c.dev}, c.b)
		reported := out.Status == 1 || strings.Contains(out.Stderr, "WARNING>>>")
		x.res.Outcome(fmt.Sprintf("unmergeable:%s:status=%d", c.what, out.Status))
		if out.Status == 2 {
			x.violation(c.model, "errors", int64(i), c.dev, c.b, nil, "no-panic", "panic:"+out.Site, out.Panic)
		} else if !reported {
			x.violation(c.model, "errors", int64(i), c.dev, c.b, out.Script(), "unmergeable-reported", "silent:"+c.what,
				fmt.Sprintf("raw entry that cannot be merged (%s) gives neither error nor warning", c.what))
		} else {
			x.res.Nontrivial++
		}
	}
}

func c18Worker(ctx *core.Ctx) *core.Result {
	x := &c18{ctx: ctx, res: core.NewResult(), sc: core.NewScratch("C18")}
	defer x.sc.Close()
	x.runASA()
	x.runIOS()
	x.runLinux()
	x.runPanos()
	x.runNSX()
	x.runPanosMulti()
	x.runNSXMulti()
	x.runLegalRaw()
	x.runErrors()
	return x.res
}

func init() {
	registerSharded("C18", c18Worker, func(tier string) core.Meta {
		return core.Meta{ID: "C18", Level: "exploration",
			Rule:        "all combinations of part shapes: Netspoc IPv4 part {empty, only deny, permit+deny, only permits, 2 permits+deny, 2 denies} x IPv6 part (same shapes; ASA, PAN-OS, NSX) x raw prepend entries {0,1,2} x raw [APPEND] entries {0,1,2} x raw ACL name {equal to Netspoc's, own}; Linux additionally x raw file layout {one table with / without COMMIT line, a second table with its own [APPEND] section in front, with / without COMMIT between, Netspoc's deny entries as jumps to a chain 'droplog' (LOG, DROP)}; for ASA, IOS, Linux, PAN-OS, NSX; several containers: PAN-OS two vsys x each part holding 0..3 rules for either (144 combinations), NSX three gateway policies x each part holding any subset (511 combinations); the effective target is observed as the state an empty device model reaches after executing the script of the real planner; oracle = independent list predicates: every entry exactly once, order inside each part preserved, raw entries in front of all Netspoc entries, [APPEND] entries behind the last permitting Netspoc entry and in front of the trailing deny/drop entries (PAN-OS puts them at the very end: known finding F-C18-panos-append-at-end; NSX: only completeness); plus a list of legal raw constructs that must arrive completely (group referenced by two raw lines, raw / IPv6 service-groups, raw route equal to a Netspoc route) and a list of unmergeable raw entries (unknown command, unbound / doubly bound object, name clash, forbidden names) that must give an error or a warning; non-trivial = combinations the tool accepted and whose result was checked",
			Assumptions: []string{"relative order of IPv4 and IPv6 entries is not prescribed by the statement and not checked"},
			Bounds:      map[string]any{"entries per part": "<=3 Netspoc, <=2 raw, <=2 APPEND"},
		}
	}, 120*time.Second, 10*time.Minute)
}

// ---- several containers: PAN-OS vsys, NSX policies ----

// runPanosMulti: two vsys; every part (IPv4, IPv6, raw) may hold rules for
// either, both or none, with 0..3 rules each.  Per vsys the merged rulebase
// must hold every rule of every part exactly once in the documented order.
func (x *c18) runPanosMulti() {
	rule := func(name, action, src string) string {
		return fmt.Sprintf(`<entry name="%s"><action>%s</action><from><member>z1</member></from><to><member>z2</member></to>`+
			`<source><member>%s</member></source><destination><member>any</member></destination><service><member>any</member></service>`+
			`<application><member>any</member></application></entry>`, name, action, src)
	}
	type part struct{ n [2]int } // rules per vsys
	cfg := func(tag string, base int, p part) (string, [2][]string) {
		var lists [2][]string
		if p.n[0]+p.n[1] == 0 {
			return "", lists
		}
		var vs strings.Builder
		for v := 0; v < 2; v++ {
			if p.n[v] == 0 {
				continue
			}
			var rb, ab strings.Builder
			for i := 0; i < p.n[v]; i++ {
				ad := fmt.Sprintf("IP_10.%d.%d.%d", base, v+1, i+1)
				rb.WriteString(rule(fmt.Sprintf("%sv%dr%d", tag, v+1, i+1), "allow", ad))
				fmt.Fprintf(&ab, `<entry name="%s"><ip-netmask>%s/32</ip-netmask></entry>`, ad, strings.TrimPrefix(ad, "IP_"))
				lists[v] = append(lists[v], "allow "+ad)
			}
			fmt.Fprintf(&vs, `<entry name="vsys%d"><rulebase><security><rules>%s</rules></security></rulebase><address>%s</address></entry>`, v+1, rb.String(), ab.String())
		}
		return `<config><devices><entry name="localhost.localdomain"><vsys>` + vs.String() + `</vsys></entry></devices></config>` + "\n", lists
	}
	dev := `<config><devices><entry name="localhost.localdomain"><vsys><entry name="vsys1"></entry><entry name="vsys2"></entry></vsys></entry></devices></config>` + "\n"
	n4s, n6s, nrs := []int{0, 1}, []int{0, 1, 3}, []int{0, 2}
	var idx int64
	for _, a0 := range n4s {
		for _, a1 := range n4s {
			for _, b0 := range n6s {
				for _, b1 := range n6s {
					for _, c0 := range nrs {
						for _, c1 := range nrs {
							idx++
							if !x.ctx.Mine(idx) || a0+a1+b0+b1+c0+c1 == 0 {
								continue
							}
							t4, l4 := cfg("r", 4, part{[2]int{a0, a1}})
							t6, l6 := cfg("v6", 6, part{[2]int{b0, b1}})
							tr, lr := cfg("raw", 7, part{[2]int{c0, c1}})
							if t4 == "" {
								// the IPv4 part always exists (possibly without rules)
								t4 = dev
							}
							b := core.Files{Main: t4, V6: t6, Raw: tr}
							x.res.Evaluations++
							out := x.sc.Compare("PAN-OS", core.Files{Main: dev}, b)
							if out.Status != 0 {
								x.violation("PAN-OS", "parts-panos-vsys", idx, dev, b, nil, "accepted", fmt.Sprintf("status%d:%s%s", out.Status, out.Site, rejectSig(out.Stderr)), out.Stderr+out.Panic)
								continue
							}
							x.res.Nontrivial++
							m, _ := panmodel.Load(dev)
							bad := false
							for i, cmd := range out.Script() {
								if err := m.Exec(cmd); err != nil {
									x.violation("PAN-OS", "parts-panos-vsys", idx, dev, b, out.Script(), "exec-accept", "exec:"+execSig(err), fmt.Sprintf("#%d: %v", i, err))
									bad = true
									break
								}
							}
							if bad {
								continue
							}
							x.res.Transitions++
							for vi, v := range m.Vsys() {
								if vi > 1 {
									break
								}
								var got []string
								for _, r := range v.Entries("rulebase", "security", "rules") {
									act := ""
									if a := r.Find("action"); a != nil {
										act = a.Text
									}
									got = append(got, act+" "+strings.Join(r.Members("source"), ","))
								}
								p := mergeParts{v4: l4[vi], v6: l6[vi], pre: lr[vi]}
								if msg := checkMerge(got, p, func(e string) bool { return true }, false); msg != "" {
									x.violation("PAN-OS", "parts-panos-vsys", idx, dev, b, out.Script(), "merge-order", "merge:"+mergeSig(msg),
										fmt.Sprintf("vsys%d: %s\nresulting rulebase:\n  %s", vi+1, msg, strings.Join(got, "\n  ")))
									break
								}
							}
							x.res.Outcome("ok:vsys")
						}
					}
				}
			}
		}
	}
}

// runNSXMulti: three gateway policies; every part holds any subset of them
// (one rule each).  Every policy of every part must arrive with its rule
// exactly once, whatever ids the other parts share with it and in whatever
// position of the file it stands.
func (x *c18) runNSXMulti() {
	pols := []string{"v1", "v2", "v3"}
	mk := func(tag string, seq int, mask int) (string, map[string]string) {
		exp := map[string]string{}
		if mask == 0 {
			return "", exp
		}
		c := nsxCfgT{policies: map[string][]nsxRuleT{}}
		for i, p := range pols {
			if mask&(1<<uint(i)) == 0 {
				continue
			}
			src := fmt.Sprintf("10.%d.%d.1", seq, i+1)
			c.policies[p] = []nsxRuleT{{tag + p, "ALLOW", "OUT", seq + i, src, "10.9.9.9", "ANY", false, ""}}
			exp[p] = src
		}
		return nsxJSON(c), exp
	}
	var idx int64
	for m4 := 0; m4 < 8; m4++ {
		for m6 := 0; m6 < 8; m6++ {
			for mr := 0; mr < 8; mr++ {
				idx++
				if !x.ctx.Mine(idx) || m4+m6+mr == 0 {
					continue
				}
				t4, e4 := mk("r", 20, m4)
				t6, e6 := mk("v6r", 40, m6)
				tr, er := mk("raw", 60, mr)
				b := core.Files{Main: t4, V6: t6, Raw: tr}
				x.res.Evaluations++
				out := x.sc.Compare("NSX", core.Files{Main: ""}, b)
				if out.Status != 0 {
					x.violation("NSX", "parts-nsx-policies", idx, "", b, nil, "accepted", fmt.Sprintf("status%d:%s", out.Status, out.Site), out.Stderr+out.Panic)
					continue
				}
				x.res.Nontrivial++
				m := &nsxmodel.Dev{}
				bad := false
				for _, c := range parseNSXScript(out.Stdout) {
					if err := m.Exec(c.method, c.url, c.body); err != nil {
						x.violation("NSX", "parts-nsx-policies", idx, "", b, nil, "exec-accept", "exec:"+execSig(err), err.Error())
						bad = true
						break
					}
				}
				if bad {
					continue
				}
				x.res.Transitions++
				for _, p := range pols {
					var want []string
					for _, e := range []map[string]string{e4, e6, er} {
						if s, ok := e[p]; ok {
							want = append(want, s)
						}
					}
					sem := strings.Join(m.SemPolicy("Netspoc-"+p), "\n")
					msg := ""
					for _, s := range want {
						if n := strings.Count(sem, `"src":"`+s+`"`); n != 1 {
							msg = fmt.Sprintf("policy Netspoc-%s: rule with source %s appears %d times, expected 1", p, s, n)
						}
					}
					if len(want) == 0 && sem != "" {
						msg = fmt.Sprintf("policy Netspoc-%s exists although no part defines it", p)
					}
					if msg != "" {
						x.violation("NSX", "parts-nsx-policies", idx, "", b, nil, "merge-complete", "merge:policy-lost-or-duplicated", msg+"\nresulting policy:\n"+sem)
						break
					}
				}
				x.res.Outcome("ok:policies")
			}
		}
	}
}

// ---- legal raw constructs that must arrive completely ----

// runLegalRaw: each case is a target whose raw part uses a legal construct
// beyond plain rule lines; the script for an empty device must be accepted
// by the device model and must contain every listed needle exactly the
// given number of times.
func (x *c18) runLegalRaw() {
	if x.ctx.Shard != 0 {
		return
	}
	panEmpty := panEmptyCfg
	panRule := func(name, svc string) string {
		return `<entry name="` + name + `"><action>allow</action><from><member>z1</member></from><to><member>z2</member></to><source><member>any</member></source><destination><member>any</member></destination><service><member>` + svc + `</member></service><application><member>any</member></application></entry>`
	}
	panCfg := func(inner string) string {
		return `<config><devices><entry name="localhost.localdomain"><vsys><entry name="vsys1">` + inner + `</entry></vsys></entry></devices></config>` + "\n"
	}
	type lc struct {
		model, what, dev string
		b               core.Files
		needles         map[string]int
	}
	cases := []lc{
		{"ASA", "raw object-group referenced by two raw ACL lines", asaIntf,
			core.Files{Main: "access-list inside_in extended permit ip host 10.1.1.1 any4\naccess-group inside_in in interface inside\n",
				Raw: "object-group network og1\n network-object host 10.7.7.1\naccess-list rawacl extended permit ip object-group og1 any4\naccess-list rawacl extended permit tcp object-group og1 any4 eq 80\naccess-group rawacl in interface outside\n"},
			map[string]int{"network-object host 10.7.7.1": 1, "permit tcp object-group og1": 1, "permit ip object-group og1": 1}},
		{"ASA", "raw object-group referenced by a raw line and used by two lines of a merged ACL", asaIntf,
			core.Files{Main: "access-list inside_in extended permit ip host 10.1.1.1 any4\naccess-group inside_in in interface inside\n",
				Raw: "object-group network og1\n network-object host 10.7.7.1\naccess-list inside_in extended permit ip object-group og1 any4\naccess-list inside_in extended permit udp object-group og1 any4 eq 53\naccess-group inside_in in interface inside\n"},
			map[string]int{"network-object host 10.7.7.1": 1, "permit udp object-group og1": 1}},
		{"PAN-OS", "raw rule using a raw service-group", panEmpty,
			core.Files{Main: panCfg(`<rulebase><security><rules>` + panRule("r1", "any") + `</rules></security></rulebase>`),
				Raw: panCfg(`<rulebase><security><rules>` + panRule("raw1", "sgraw") + `</rules></security></rulebase><service-group><entry name="sgraw"><members><member>tcp 81</member></members></entry></service-group><service><entry name="tcp 81"><protocol><tcp><port>81</port></tcp></protocol></entry></service>`)},
			map[string]int{"service-group/entry[@name='sgraw']": 1, "service/entry[@name='tcp 81']": 1}},
		{"PAN-OS", "IPv6 rule using an IPv6 service-group", panEmpty,
			core.Files{Main: panCfg(`<rulebase><security><rules>` + panRule("r1", "any") + `</rules></security></rulebase>`),
				V6: panCfg(`<rulebase><security><rules>` + panRule("v6r1", "sg6") + `</rules></security></rulebase><service-group><entry name="sg6"><members><member>tcp 82</member></members></entry></service-group><service><entry name="tcp 82"><protocol><tcp><port>82</port></tcp></protocol></entry></service>`)},
			map[string]int{"service-group/entry[@name='sg6']": 1}},
		{"IOS", "IPv6 part of an IOS router", iosIntf("Ethernet0", "10.0.0.1"),
			core.Files{Main: "ip access-list extended inside_in\n permit ip host 10.1.1.1 any\ninterface Ethernet0\n ip address 10.0.0.1 255.255.255.0\n ip access-group inside_in in\n",
				V6: "ipv6 access-list inside6_in\n permit ipv6 host 1000::1 any\n deny ipv6 any any\ninterface Ethernet0\n ipv6 traffic-filter inside6_in in\nipv6 route 1000:2::/64 1000::2\n"},
			map[string]int{"permit ipv6 host 1000::1 any": 1, "ipv6 traffic-filter inside6_in in": 1, "ipv6 route 1000:2::/64 1000::2": 1}},
		{"Linux", "raw route identical to a Netspoc route", "",
			core.Files{Main: "ip route add 10.20.0.0/16 via 10.1.2.3\n", Raw: "ip route add 10.20.0.0/16 via 10.1.2.3\nip route add 10.30.0.0/16 via 10.1.2.3\n"},
			map[string]int{"ip route add 10.20.0.0/16 via 10.1.2.3": 1, "ip route add 10.30.0.0/16 via 10.1.2.3": 1}},
		{"Linux", "raw route equal to a Netspoc route in another spelling", "",
			core.Files{Main: "ip route add 10.20.0.0/16 via 10.1.2.3\nip route add 10.40.0.1/32 via 10.1.2.3\nip route add 0.0.0.0/0 via 10.1.2.9\n",
				Raw: "ip route add  10.20.0.0/16  via 10.1.2.3\nip route add 10.40.0.1 via 10.1.2.3\nip route add default via 10.1.2.9\nip route add 10.30.0.0/16 via 10.1.2.3\n"},
			map[string]int{"10.20.0.0/16": 1, "10.40.0.1": 1, "10.1.2.9": 1, "10.30.0.0/16": 1}},
	}
	for i, c := range cases {
		x.res.Evaluations++
		out := x.sc.Compare(c.model, core.Files{Main: c.dev}, c.b)
		x.res.Outcome(fmt.Sprintf("legal-raw:%s:status=%d", c.what, out.Status))
		if out.Status != 0 {
			x.violation(c.model, "legal-raw", int64(i), c.dev, c.b, nil, "accepted", "rejected-legal:"+c.what,
				fmt.Sprintf("legal raw construct (%s) is rejected: %s%s", c.what, out.Stderr, out.Panic))
			continue
		}
		x.res.Nontrivial++
		text := strings.Join(out.Script(), "\n")
		for n, want := range c.needles {
			if got := strings.Count(text, n); got != want {
				x.violation(c.model, "legal-raw", int64(i), c.dev, c.b, out.Script(), "merge-complete", "incomplete-legal:"+c.what,
					fmt.Sprintf("%s: %q appears %d times in the script, expected %d", c.what, n, got, want))
				break
			}
		}
	}
}

// panClashCfg: one rule using address-group g0 = {gm} and service-group
// sg0 = {sm}; addresses a1 = ip, a2 fixed; services "tcp 80" = tcp/port, "udp 53".
func panClashCfg(rule, ip, port, gm, sm string) string {
	return `<config><devices><entry name="localhost.localdomain"><vsys><entry name="vsys1"><rulebase><security><rules>` +
		`<entry name="` + rule + `"><action>allow</action><from><member>z1</member></from><to><member>z2</member></to><source><member>g0</member></source><destination><member>any</member></destination><service><member>sg0</member></service><application><member>any</member></application></entry>` +
		`</rules></security></rulebase>` +
		`<address><entry name="a1"><ip-netmask>` + ip + `</ip-netmask></entry><entry name="a2"><ip-netmask>10.1.1.20/32</ip-netmask></entry></address>` +
		`<address-group><entry name="g0"><static><member>` + gm + `</member></static></entry></address-group>` +
		`<service><entry name="tcp 80"><protocol><tcp><port>` + port + `</port></tcp></protocol></entry><entry name="udp 53"><protocol><udp><port>53</port></udp></protocol></entry></service>` +
		`<service-group><entry name="sg0"><members><member>` + sm + `</member></members></entry></service-group>` +
		`</entry></vsys></entry></devices></config>`
}

const panEmptyCfg = `<config><devices><entry name="localhost.localdomain"><vsys><entry name="vsys1"></entry></vsys></entry></devices></config>` + "\n"
