//go:build verif

package engines

import (
	"fmt"
	"strings"
	"time"

	"verif/harness/internal/core"
	"verif/harness/internal/sim"
)

// C15: IOS changes run under a reload guard and survive its banners.

var iosPrepare = map[string]bool{"configure terminal": true, "no logging console": true, "line vty 0 15": true,
	"logging synchronous level all": true, "ip subnet-zero": true, "ip classless": true}

// iosChangeLines returns the accepted change lines outside the
// prepareDevice block (which is sent before the reload is scheduled).
func iosChangeLines(r *drun) []string {
	var l []string
	armed := false
	for _, t := range r.trans {
		if strings.HasPrefix(t.Text, "reload in") {
			armed = true
		}
		if t.Class == sim.ClChange && t.Accepted && t.Text != "configure terminal" {
			if !armed && iosPrepare[t.Text] {
				continue
			}
			l = append(l, t.Text)
		}
	}
	return l
}

// orderingInvariant checks the reload bracket on a transcript.
func orderingInvariant(r *drun) string {
	pending := false // reload scheduled and confirmed
	cancelled := false
	anyRejected := false
	confirmStage := 0
	for i, t := range r.trans {
		switch {
		case strings.HasPrefix(t.Text, "reload in") || strings.HasPrefix(t.Text, "do reload in"):
			confirmStage = 1
		case confirmStage > 0 && t.Class == sim.ClReload && (t.Text == "" || t.Text == "n"):
			if t.Text == "" && t.Accepted {
				pending = true
				cancelled = false
				confirmStage = 0
			}
		case t.Text == "reload cancel":
			if t.Accepted {
				pending = false
				cancelled = true
			}
		case t.Class == sim.ClChange:
			if t.Text == "configure terminal" {
				continue
			}
			if !pending && iosPrepare[t.Text] && !cancelled {
				continue // prepareDevice block, before the first reload in
			}
			if !pending {
				return fmt.Sprintf("change line %q (#%d) sent while no reload is scheduled", t.Text, i)
			}
			if !t.Accepted {
				anyRejected = true
			}
		case t.Class == sim.ClSave:
			if pending || !cancelled {
				return fmt.Sprintf("write memory (#%d) sent before the reload was cancelled", i)
			}
			if anyRejected {
				return fmt.Sprintf("write memory (#%d) sent although a change command was rejected", i)
			}
		}
		if t.Class == sim.ClChange && !t.Accepted {
			anyRejected = true
		}
	}
	return ""
}

func c15Scenarios() []*dscenario {
	var l []*dscenario
	// routes only (with a joined replace)
	sc1 := baseScenario("IOS", "drc")
	sc1.name = "IOS/routes"
	sc1.device = iosIntf("Ethernet0", "10.0.0.1") + "ip route 10.20.0.0 255.255.0.0 10.0.0.1\nip route 10.30.0.0 255.255.0.0 10.0.0.1\n"
	sc1.target.Main = iosIntf("Ethernet0", "10.0.0.1") + "ip route 10.20.0.0 255.255.0.0 10.0.0.2\nip route 10.40.0.0 255.255.0.0 10.0.0.1\n"
	l = append(l, sc1)
	// ACL edit with a joined move
	sc2 := baseScenario("IOS", "drc")
	sc2.name = "IOS/acl-move"
	sc2.device = iosACLBody("inside_in", []int{0, 2, 1, 3}, c02Lines, false) + iosIntf("Ethernet0", "10.0.0.1", "ip access-group inside_in in")
	sc2.target.Main = iosACLBody("inside_in", []int{1, 2, 0, 3}, c02Lines, false) + iosIntf("Ethernet0", "10.0.0.1", "ip access-group inside_in in")
	l = append(l, sc2)
	// sub-mode block (new ACL + interface binding)
	sc3 := baseScenario("IOS", "do-approve")
	sc3.name = "IOS/submode"
	l = append(l, sc3)
	// the device already has the preparation settings: 'reload in 2' is
	// answered with the confirm question at once (no "Save?")
	sc4 := baseScenario("IOS", "drc")
	sc4.name = "IOS/routes/no-save-question"
	sc4.device, sc4.target.Main = sc1.device, sc1.target.Main
	sc4.prepNoop = true
	l = append(l, sc4)
	// the device answers the accepted route commands with an INFO: line
	sc5 := baseScenario("IOS", "drc")
	sc5.name = "IOS/routes/info-output"
	sc5.device, sc5.target.Main = sc1.device, sc1.target.Main
	sc5.infoFor = "ip route"
	l = append(l, sc5)
	return l
}

func c15Worker(ctx *core.Ctx) *core.Result {
	x := newDialogx(ctx, "C15")
	defer x.close()
	scs := c15Scenarios()
	// (0) every change command rejected by the device while a banner arrives before / inside / behind the output / behind the prompt of the same answer must still end the run without write memory; (1) ordering invariant on the baseline and on every C09 run
	x.enumerate(scs, false, func(c *dcase, r *drun, base *drun) {
		if msg := orderingInvariant(r); msg != "" {
			sig := "ordering:other"
			switch {
			case strings.Contains(msg, "while no reload is scheduled"):
				sig = "ordering:change-without-scheduled-reload"
			case strings.Contains(msg, "before the reload was cancelled"):
				sig = "ordering:save-before-cancel"
			case strings.Contains(msg, "although a change command was rejected"):
				sig = "ordering:save-after-reject"
			}
			if fi := failurePoint(r); fi >= 0 {
				sig += "@" + cmdKey(r.trans[fi].Text) + "/" + r.trans[fi].Class
			}
			x.violation(c, r, "reload-bracket", sig, msg)
			return
		}
		if r.exit == 0 && r.reloadPending {
			x.violation(c, r, "no-reload-left", "reload-pending-after-success", "successful run left a reload pending")
		}
		x.res.Outcome(fmt.Sprintf("ordering ok exit=%d", r.exit))
	})
	// (2) banners
	var serial int64
	for _, sc := range scs {
		base := runDialogue(x.scr, sc, runOpts{})
		want := iosChangeLines(base)
		// commands inside the reload window
		var window []sim.Rec
		in := false
		for _, t := range base.trans {
			if strings.HasPrefix(t.Text, "reload in") {
				in = true
				continue
			}
			if t.Text == "reload cancel" {
				in = false
			}
			if in && t.Point > 0 && (t.Class == sim.ClChange || t.Text == "end") {
				window = append(window, t)
			}
		}
		x.res.Count("window_commands", int64(len(window)))
		var specs []struct {
			point int
			spec  sim.BannerSpec
			text  string
		}
		for _, t := range window {
			for _, kind := range []string{"0:02:00", "0:01:00"} {
				for _, form := range []string{"bare", "prompt"} {
					for _, where := range []string{"before", "after"} {
						specs = append(specs, struct {
							point int
							spec  sim.BannerSpec
							text  string
						}{t.Point, sim.BannerSpec{Kind: kind, Form: form, Where: where}, t.Text})
					}
				}
				for off := 0; off <= len(t.Text); off++ {
					specs = append(specs, struct {
						point int
						spec  sim.BannerSpec
						text  string
					}{t.Point, sim.BannerSpec{Kind: kind, Form: "bare", Where: "inside", Offset: off}, t.Text})
				}
			}
		}
		quiet := false
		failed := false
		var check func(banners map[int]sim.BannerSpec, desc string)
		// harmlessAlone: does this single banner pass all checks on its own?
		// (a pair is only informative if both of its banners do)
		harmlessAlone := func(p int, b sim.BannerSpec) bool {
			quiet, failed = true, false
			nv, nc := len(x.res.Violations), x.res.ViolationCount
			check(map[int]sim.BannerSpec{p: b}, "component")
			x.res.Violations, x.res.ViolationCount = x.res.Violations[:nv], nc
			quiet = false
			return !failed
		}
		_ = harmlessAlone
		var second map[string]sim.BannerSpec // pair mode: the later banner, tied to its command text
		pairSig := ""                        // pair mode: structural signature
		check = func(banners map[int]sim.BannerSpec, desc string) {
			r := runDialogue(x.scr, sc, runOpts{banners: banners, bannersByText: second})
			x.res.Evaluations++
			if !quiet {
				x.res.Nontrivial++
			}
			nv0 := len(x.res.Violations)
			defer func() {
				if len(x.res.Violations) > nv0 {
					failed = true
				}
			}()
			c := &dcase{sc: sc, dev: map[int]string{}, desc: desc}
			c.sc = sc
			sigBase := desc
			if i := strings.Index(sigBase, "@"); i >= 0 {
				sigBase = sigBase[:i]
			}
			for p := range banners {
				sigBase = cmdClassAt(base, p) + ":" + sigBase
				break
			}
			if pairSig != "" {
				sigBase = pairSig
			}
			got := iosChangeLines(r)
			switch {
			case r.panicMsg != "":
				x.violation(c, r, "no-panic", "banner-panic", desc+": "+r.panicMsg)
			case r.exit != 0:
				x.violation(c, r, "banner-harmless", "banner-failed:"+sigBase, desc+": run failed")
			case strings.Join(got, "\n") != strings.Join(want, "\n"):
				x.violation(c, r, "banner-harmless", "banner-changed-commands:"+sigBase,
					fmt.Sprintf("%s: change lines differ from the banner-free run:\n%s\n--- expected\n%s", desc, strings.Join(got, "\n"), strings.Join(want, "\n")))
			case r.saved == 0:
				x.violation(c, r, "banner-harmless", "banner-no-save:"+sigBase, desc+": write memory missing")
			case r.reloadPending:
				x.violation(c, r, "no-reload-left", "banner-reload-pending:"+sigBase, desc+": reload left pending")
			default:
				if msg := orderingInvariant(r); msg != "" {
					x.violation(c, r, "reload-bracket", "banner-ordering:"+sigBase, desc+": "+msg)
					return
				}
				// one-minute warning: the reload must be re-armed before any further change
				for p, b := range banners {
					if b.Kind != "0:01:00" {
						continue
					}
					if textAt(base, p) == "end" {
						continue // the reload is cancelled next, nothing to protect
					}
					if msg := rearmCheck(r, p); msg != "" {
						x.violation(c, r, "rearm-after-one-minute", "no-rearm:"+rearmSig(r, p, b), desc+": "+msg)
						return
					}
				}
				x.res.Outcome("banner ok")
			}
		}
		for _, s := range specs {
			serial++
			if !ctx.Mine(serial) {
				continue
			}
			if ctx.Expired() {
				x.res.Incomplete = append(x.res.Incomplete, "deadline in banners of "+sc.name)
				return x.res
			}
			desc := fmt.Sprintf("%s/%s/%s@%d(%s)+%d", s.spec.Kind, s.spec.Form, s.spec.Where, s.point, short(s.text, 30), s.spec.Offset)
			check(map[int]sim.BannerSpec{s.point: s.spec}, desc)
		}
		// a change command that the device rejects while a banner arrives with
		// the same answer: the rejection must still be noticed
		for _, t := range window {
			if t.Class != sim.ClChange || t.Text == "configure terminal" {
				continue
			}
			for _, kind := range []string{"0:02:00", "0:01:00"} {
				for _, where := range []string{"before", "inside", "behind-output", "behind-output-tight", "after"} {
					for _, errKind := range []string{sim.DevError, sim.DevError1} {
						serial++
						if !ctx.Mine(serial) {
							continue
						}
						spec := sim.BannerSpec{Kind: kind, Form: "bare", Where: where, Offset: len(t.Text) / 2}
						r := runDialogue(x.scr, sc, runOpts{dev: map[int]string{t.Point: errKind}, banners: map[int]sim.BannerSpec{t.Point: spec}})
						x.res.Evaluations++
						x.res.Nontrivial++
						x.res.Count("banner_with_rejected_command", 1)
						c := &dcase{sc: sc, dev: map[int]string{t.Point: sim.DevError}, desc: fmt.Sprintf("rejected %q with banner %s/%s", t.Text, kind, where)}
						if r.panicMsg != "" {
							x.violation(c, r, "no-panic", "banner-panic", r.panicMsg)
						} else if r.exit == 0 || r.saved > 0 {
							x.violation(c, r, "write-only-if-accepted", "banner-hides-error:"+cmdClassAt(base, t.Point)+":"+where,
								fmt.Sprintf("the device rejected %q; a %s banner arrived %s: exit status %d, write memory sent %d times", t.Text, kind, where, r.exit, r.saved))
						}
					}
				}
			}
		}
		if ctx.Thorough() {
			// all ordered pairs of banners on different commands (before/after forms,
			// inside at offset 0, middle, end)
			var red []struct {
				point int
				spec  sim.BannerSpec
				text  string
			}
			for _, s := range specs {
				if s.spec.Where != "inside" || s.spec.Offset == 0 || s.spec.Offset == len(s.text) || s.spec.Offset == len(s.text)/2 {
					red = append(red, s)
				}
			}
			for _, a := range red {
				for _, b := range red {
					if b.point <= a.point {
						continue
					}
					serial++
					if !ctx.Mine(serial) {
						continue
					}
					if ctx.Expired() {
						x.res.Incomplete = append(x.res.Incomplete, "deadline in banner pairs of "+sc.name)
						return x.res
					}
					desc := fmt.Sprintf("%s/%s/%s+%s/%s/%s@%d,%d", a.spec.Kind, a.spec.Form, a.spec.Where, b.spec.Kind, b.spec.Form, b.spec.Where, a.point, b.point)
					if !harmlessAlone(a.point, a.spec) || !harmlessAlone(b.point, b.spec) {
						// one banner of the pair fails on its own (reported by the
						// single-banner pass): the pair tells nothing new
						x.res.Count("banner_pairs_with_failing_component", 1)
						continue
					}
					// the later banner is tied to its command, not to its point:
					// the re-arm dialogue caused by the earlier banner shifts the points
					second = map[string]sim.BannerSpec{b.text: b.spec}
					// both banners land in one answer when the first arrives behind
					// the prompt of its command and the second with the very next one
					dist := "apart"
					if b.point == nextWindowPoint(window, a.point) {
						dist = "adjacent"
					}
					pairSig = "pair:" + a.spec.Where + "+" + b.spec.Where + ":" + dist
					check(map[int]sim.BannerSpec{a.point: a.spec}, desc)
					second, pairSig = nil, ""
				}
			}
		}
	}
	return x.res
}

func nextWindowPoint(window []sim.Rec, p int) int {
	for i, t := range window {
		if t.Point == p && i+1 < len(window) {
			return window[i+1].Point
		}
	}
	return -1
}

// rearmCheck: after the command at point p (whose answer carried the
// one-minute warning) and the rest of its batch, the next line the tool
// sends must be "do reload in 2".
func rearmCheck(r *drun, p int) string {
	batch := -1
	for _, t := range r.trans {
		if t.Point == p {
			batch = t.Batch
		}
	}
	if batch < 0 {
		return ""
	}
	for i, t := range r.trans {
		if t.Batch > batch && t.Point > 0 {
			// a banner "after" the prompt is only seen with the next answer:
			// then the re-arm follows that next command
			if t.Text == "do reload in 2" || t.Text == "end" || t.Text == "reload cancel" {
				return "" // re-armed, or the window is closing anyway
			}
			// allow exactly one more command batch (banner delivered late)
			nb := t.Batch
			for _, u := range r.trans[i:] {
				if u.Batch > nb && u.Point > 0 {
					if u.Text == "do reload in 2" || u.Text == "end" || u.Text == "reload cancel" {
						return ""
					}
					return fmt.Sprintf("after the one-minute warning at point %d the tool went on with %q and %q without re-arming the reload", p, t.Text, u.Text)
				}
			}
			return ""
		}
	}
	return ""
}

// cmdClassAt: how the tool sent the command at point p of the baseline.
func cmdClassAt(base *drun, p int) string {
	t := textAt(base, p)
	if t == "configure terminal" || t == "end" {
		return "sent-by-SendCmd"
	}
	n, first := 0, true
	b := -1
	for _, u := range base.trans {
		if u.Point == p {
			b = u.Batch
		}
	}
	for _, u := range base.trans {
		if u.Batch == b {
			n++
			if u.Point < p {
				first = false
			}
		}
	}
	if n > 1 {
		if first {
			return "joined-first-half"
		}
		return "joined-second-half"
	}
	return "single"
}

func textAt(base *drun, p int) string {
	for _, u := range base.trans {
		if u.Point == p {
			return u.Text
		}
	}
	return ""
}

func rearmSig(r *drun, p int, b sim.BannerSpec) string {
	if c := cmdClassAt(r, p); c == "sent-by-SendCmd" {
		return c + ":" + b.Where
	}
	joined := "single"
	for _, t := range r.trans {
		if t.Point == p {
			n := 0
			first := true
			for _, u := range r.trans {
				if u.Batch == t.Batch {
					n++
					if u.Point < p {
						first = false
					}
				}
			}
			if n > 1 {
				joined = "joined-second-half"
				if first {
					joined = "joined-first-half"
				}
			}
		}
	}
	return joined + ":" + b.Where
}

func init() {
	registerSharded("C15", c15Worker, func(tier string) core.Meta {
		return core.Meta{ID: "C15", Level: "fault_enumeration",
			Rule:        "IOS simulator with reload scheduling, confirm dialogues, 'logging synchronous' prompts and a pending-reload flag; 4 scenarios (routes with a joined replace, ACL edit with a joined move, sub-mode block, routes on a device that answers the first reload command without the save question); (0) every change command rejected by the device while a banner arrives before / inside / behind the output / behind the prompt of the same answer must still end the run without write memory; (1) ordering invariant on the banner-free run and on every single-deviation run of C09's alphabet: every change line lies between a confirmed 'reload in' and 'reload cancel', 'write memory' only after the cancellation and only without a rejected command, no reload pending after success; (2) banners: kind {0:02:00, 0:01:00} x form {bare, followed by fresh prompt} x position {before the echo, after echo+output, inside the echo at every character offset} x every command sent inside the reload window; thorough: all ordered pairs of banners on different commands (inside: offsets 0, middle, end); oracle: same change lines in the same order as the banner-free run, exit 0, write memory confirmed, no reload pending, ordering invariant, and after a one-minute warning the next line sent is 'do reload in 2'; non-trivial = runs with a banner or a deviation",
			Assumptions: []string{"banner forms as in the repository's ios_simul.t (three empty lines, BEL, three-line box); the prepareDevice block (logging/vty settings) precedes the reload bracket by design and is not counted as change commands"},
			Bounds:      map[string]any{"quick": "single banners at every offset", "thorough": "ordered pairs"},
		}
	}, 170*time.Second, 30*time.Minute)
}
