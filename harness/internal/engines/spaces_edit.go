package engines

import (
	"strings"

	"verif/harness/internal/core"
)

// Value-edit spaces: the device is the target with exactly one value token
// changed by a single-character edit (replace, delete, append, prepend
// over a small alphabet).  The ordinary oracles apply: the script must
// bring the device to the target, and an empty script ("device
// unchanged") is only right if the reference model reads both as
// equivalent.  This binds the tool's notion of "equal" (normalisation of
// addresses, masks, ports, names) to the model's, value by value.

// tokenEdits returns all single-token single-character edits of text.
// Only tokens that are not the first word of their line and contain a
// digit are edited (addresses, masks, ports, numbers, numbered names):
// keywords stay as a device prints them.
func tokenEdits(text string) []string {
	const alpha = "0123456789./:,-ax"
	var out []string
	seen := map[string]bool{text: true}
	lines := strings.Split(text, "\n")
	for li, line := range lines {
		ind := line[:len(line)-len(strings.TrimLeft(line, " "))]
		w := strings.Fields(line)
		for k := 1; k < len(w); k++ {
			v := w[k]
			if !strings.ContainsAny(v, "0123456789") {
				continue // keywords and interface names: no device prints them differently
			}
			var ms []string
			for i := 0; i < len(v); i++ {
				ms = append(ms, v[:i]+v[i+1:])
				for _, c := range alpha {
					ms = append(ms, v[:i]+string(c)+v[i+1:])
				}
			}
			for _, c := range alpha {
				ms = append(ms, v+string(c), string(c)+v)
			}
			for _, m := range ms {
				if m == "" || m == v {
					continue
				}
				nw := append([]string(nil), w...)
				nw[k] = m
				nl := append([]string(nil), lines...)
				nl[li] = ind + strings.Join(nw, " ")
				t := strings.Join(nl, "\n")
				if !seen[t] {
					seen[t] = true
					out = append(out, t)
				}
			}
		}
	}
	return out
}

func editSpace(model, name, target string, devPrefix string) *space {
	muts := tokenEdits(target)
	sp := &space{name: name, model: model, n: int64(len(muts))}
	sp.gen = func(i int64) (core.Files, core.Files) {
		return core.Files{Main: devPrefix + muts[i]}, core.Files{Main: target}
	}
	return sp
}

const asaEditTarget = "object-group network g1\n network-object host 10.1.1.10\n network-object 10.1.2.0 255.255.255.0\n" +
	"access-list inside_in extended permit tcp object-group g1 host 10.9.9.1 range 80 90\n" +
	"access-list inside_in extended permit udp 10.1.3.0 255.255.255.128 any4 eq 123 log\n" +
	"access-list inside_in extended deny ip any4 any4\n" +
	"access-group inside_in in interface inside\n" +
	"route outside 10.20.0.0 255.255.0.0 10.0.0.1\n"

const iosEditTarget = "ip access-list extended inside_in\n permit tcp host 10.1.1.10 host 10.9.9.1 range 80 90\n" +
	" permit udp 10.1.3.0 0.0.0.127 any eq 123 log\n deny ip any any\n" +
	"interface Ethernet0\n ip address 10.0.0.1 255.255.255.0\n ip access-group inside_in in\n" +
	"ip route 10.20.0.0 255.255.0.0 10.0.0.2\n"

func asaEditSpace() *space { return editSpace("ASA", "value-edit", asaEditTarget, asaIntf) }
func iosEditSpace() *space { return editSpace("IOS", "value-edit", iosEditTarget, "") }
