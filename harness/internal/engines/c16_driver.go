package engines

import (
	"os"
	"path/filepath"
	"time"

	"verif/harness/internal/core"
)

// C16 driver: the workers live in a second binary (.build/verif-map) that
// is built with the map-range overlay: every `range <map>` of the
// repository goes through verifmap.Order there.

func init() {
	Checks["C16"] = &Check{
		Run: func(ctx *core.Ctx) *core.Result {
			bin := filepath.Join(core.VerifDir, ".build", "verif-map")
			if _, err := os.Stat(bin); err != nil {
				r := core.NewResult()
				r.Broken = append(r.Broken, "map-range instrumented binary missing: "+err.Error())
				return r
			}
			c := *ctx
			c.Binary = bin
			return core.RunSharded(&c, 0)
		},
		Meta: func(tier string) core.Meta {
			return core.Meta{ID: "C16", Level: "exploration",
				Rule: "schedules = iteration orders of Go maps: every `range <map>` statement of the repository (36 static sites, found by type, rewritten in a build overlay) yields its keys in an order chosen by the explorer; per input: run 0 = canonical order everywhere (records the dynamic occurrences), then for every dynamic occurrence with n >= 2 keys all n! orders (n <= 4) or all rotations, the reversal and all adjacent transpositions (n > 4), one deviating occurrence per run (thorough: also all pairs of occurrences on the tie-rich inputs); inputs: every DEVICE/NETSPOC pair of the repository's tests, every k-th case (fixed strides, smaller in the thorough tier) of the structured spaces of the planner checks C01-C05 (all five device types), plus tie-rich generated configurations (same name for two command types, protocol/match pairs, several dangling references) (identical left-over object-groups, crypto map entries with one peer, several dangling references, unused raw objects, identical NSX groups, iptables rules differing in several options, several extra tables/chains); oracle: stdout (change script), stderr (warnings, errors) and exit status byte-identical to run 0; non-trivial = runs with a permuted occurrence",
				Assumptions: []string{"map iteration order is the only source of nondeterminism on the planning path (no goroutines, clocks or randomness there)"},
				Bounds:      map[string]any{"quick": "bound 1 (one permuted occurrence)", "thorough": "bound 2 on tie-rich inputs"},
			}
		},
		QuickBudget:    170 * time.Second,
		ThoroughBudget: 40 * time.Minute,
	}
}
