//go:build verif

package engines

import (
	"os"
	"fmt"
	"strings"

	"verif/harness/internal/core"
)

const netspocBanner = "This device is managed by NetSPoC, do not change manually"

// base scenarios: change scripts with >= 6 commands, a joined two-command
// line, a sub-mode block (and on IOS the reload bracket).
func baseScenario(devType, front string) *dscenario {
	sc := &dscenario{devType: devType, front: front, banner: netspocBanner, checkbanner: "NetSPoC", name: devType + "/" + front}
	switch devType {
	case "ASA":
		sc.device = asaIntf +
			"object-group network g1\n network-object host 10.1.1.10\n network-object host 10.1.1.11\n" +
			"access-list inside_in extended permit ip object-group g1 any4\n" +
			"access-list inside_in extended permit tcp any4 host 10.9.9.1 eq 80\n" +
			"access-list inside_in extended deny ip any4 any4\n" +
			"access-group inside_in in interface inside\n" +
			"route outside 10.20.0.0 255.255.0.0 10.0.0.1\n"
		sc.target.Main = "object-group network g1\n network-object host 10.1.1.10\n network-object host 10.1.1.12\n" +
			"access-list inside_in extended permit tcp any4 host 10.9.9.1 eq 80\n" +
			"access-list inside_in extended permit ip object-group g1 any4\n" +
			"access-list inside_in extended permit udp host 10.1.1.1 any4 eq 53\n" +
			"access-list inside_in extended deny ip any4 any4\n" +
			"access-group inside_in in interface inside\n" +
			"route outside 10.20.0.0 255.255.0.0 10.0.0.2\n"
	case "IOS":
		sc.device = iosACLBody("inside_in", []int{0, 2, 3}, c02Lines, false) +
			iosIntf("Ethernet0", "10.0.0.1", "ip access-group inside_in in") +
			"ip route 10.20.0.0 255.255.0.0 10.0.0.1\n"
		sc.target.Main = iosACLBody("inside_in", []int{2, 1, 0, 3}, c02Lines, false) +
			iosACLBody("e0_out", []int{0, 3}, c02Lines, false) +
			iosIntf("Ethernet0", "10.0.0.1", "ip access-group inside_in in", "ip access-group e0_out out") +
			"ip route 10.20.0.0 255.255.0.0 10.0.0.2\n"
	case "Linux":
		sc.banner = "Debian GNU/Linux 12\n" + netspocBanner + "\n"
		sc.device = "ip route add 10.1.11.0/24 via 10.10.1.6\nip route add default via 10.9.9.9\nip route add 10.30.0.0/16 via 10.10.1.6\n" +
			linuxRuleset([]int{0, 2}, true)
		sc.target.Main = "ip route add 10.1.11.0/24 via 10.10.1.7\nip route add 0.0.0.0/0 via 10.9.9.9\nip route add 10.40.0.0/16 via 10.10.1.6\n" +
			linuxRuleset([]int{0, 1, 2}, false)
	case "PAN-OS":
		mk := func(s ...int) []panRuleT {
			var l []panRuleT
			for _, i := range s {
				l = append(l, panRules[i])
			}
			return l
		}
		sc.device = panConfig(panVsysT{name: "vsys1", rules: mk(0, 3), extra: "<display-name>" + sc.banner + "</display-name>"})
		sc.target.Main = panConfig(panVsysT{name: "vsys1", rules: mk(1, 0, 4)})
	case "NSX":
		grp := map[string][]string{"gA": {"10.1.1.10", "10.1.1.20"}, "gB": {"10.1.2.30", "10.1.2.40"}}
		grp2 := map[string][]string{"gA": {"10.1.1.10", "10.1.1.30"}, "gB": {"10.1.2.30", "10.1.2.40"}}
		mk := func(g map[string][]string, s ...int) string {
			var l []nsxRuleT
			for _, i := range s {
				l = append(l, nsxRules[i])
			}
			return nsxJSON(withGroups(nsxCfgT{policies: map[string][]nsxRuleT{"v1": l}}, g))
		}
		sc.device = mk(grp, 0, 2, 3)
		sc.target.Main = mk(grp2, 0, 1, 2)
	}
	return sc
}

// unchangedScenario: the device already equals the target.
func unchangedScenario(devType, front string) *dscenario {
	sc := baseScenario(devType, front)
	sc.name += "/unchanged"
	switch devType {
	case "ASA", "IOS":
		sc.device = strings.Replace(sc.device, sc.device, "", 1)
		if devType == "ASA" {
			sc.device = asaIntf + sc.target.Main
		} else {
			sc.device = sc.target.Main
		}
	case "Linux":
		sc.device = "ip route add 10.1.11.0/24 via 10.10.1.7\nip route add default via 10.9.9.9\nip route add 10.40.0.0/16 via 10.10.1.6\n" +
			linuxRuleset([]int{0, 1, 2}, true)
	case "PAN-OS":
		sc.device = strings.Replace(sc.target.Main, `<entry name="vsys1">`, `<entry name="vsys1"><display-name>`+sc.banner+`</display-name>`, 1)
	case "NSX":
		sc.device = sc.target.Main
	}
	return sc
}

func debugDialogue(args []string) int {
	if len(args) < 2 {
		fmt.Println("usage: verif dlg <ASA|IOS|Linux|PAN-OS|NSX> <drc|drc-C|drc-C-nolog|do-approve|do-compare> [point=kind ...]")
		return 2
	}
	sc := baseScenario(args[0], args[1])
	if inf := os.Getenv("VERIF_DLG_INFO"); inf != "" {
		sc.target.Info = inf
	}
	o := runOpts{dev: map[int]string{}}
	for _, a := range args[2:] {
		var p int
		var k string
		if _, err := fmt.Sscanf(strings.Replace(a, "=", " ", 1), "%d %s", &p, &k); err == nil {
			o.dev[p] = k
		}
	}
	scr := core.NewScratch("dlg")
	defer scr.Close()
	r := runDialogue(scr, sc, o)
	fmt.Printf("exit=%d panic=%q points=%d saved=%d commits=%d reloadPending=%v sessions=%d\n", r.exit, r.panicMsg, r.points, r.saved, r.commits, r.reloadPending, r.sessions)
	fmt.Println("--- transcript")
	fmt.Println(strings.Join(r.transcript(), "\n"))
	fmt.Println("--- stdout")
	fmt.Println(r.stdout)
	fmt.Println("--- stderr")
	fmt.Println(r.stderr)
	fmt.Println("--- files", r.fileNames())
	for _, f := range r.fileNames() {
		if strings.HasPrefix(f, "status/") || strings.HasPrefix(f, "history/") {
			fmt.Printf("--- %s\n%s\n", f, r.files[f])
		}
	}
	fmt.Println("--- device changed:", r.before != r.after)
	return 0
}

func init() { Debug["dlg"] = debugDialogue }
