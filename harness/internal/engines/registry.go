package engines

import (
	"time"

	"verif/harness/internal/core"
)

// Check describes the driver side of a property check.
type Check struct {
	Run            func(ctx *core.Ctx) *core.Result
	Meta           func(tier string) core.Meta
	QuickBudget    time.Duration
	ThoroughBudget time.Duration
}

var Checks = map[string]*Check{}

// Debug holds developer sub-commands (verif <name> ...).
var Debug = map[string]func(args []string) int{}
var Workers = map[string]core.Engine{}

// register a check whose enumeration is sharded over worker processes.
func registerSharded(id string, worker core.Engine, meta func(tier string) core.Meta,
	quick, thorough time.Duration) {
	Workers[id] = worker
	Checks[id] = &Check{
		Run:            func(ctx *core.Ctx) *core.Result { return core.RunSharded(ctx, 0) },
		Meta:           meta,
		QuickBudget:    quick,
		ThoroughBudget: thorough,
	}
}

// seqs returns all duplicate-free sequences over {0..n-1} of length
// minLen..maxLen, shortest first, lexicographic within a length.
func seqs(n, minLen, maxLen int) [][]int {
	var out [][]int
	var rec func(cur []int, used uint64, want int)
	rec = func(cur []int, used uint64, want int) {
		if len(cur) == want {
			out = append(out, append([]int(nil), cur...))
			return
		}
		for i := 0; i < n; i++ {
			if used&(1<<uint(i)) == 0 {
				rec(append(cur, i), used|1<<uint(i), want)
			}
		}
	}
	for l := minLen; l <= maxLen; l++ {
		rec(nil, 0, l)
	}
	return out
}

// subsets returns all subsets of {0..n-1} as sorted index lists, by size.
func subsets(n int) [][]int {
	var out [][]int
	for m := 0; m < 1<<uint(n); m++ {
		var s []int
		for i := 0; i < n; i++ {
			if m&(1<<uint(i)) != 0 {
				s = append(s, i)
			}
		}
		out = append(out, s)
	}
	return out
}
