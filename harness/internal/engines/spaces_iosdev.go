package engines

import (
	"fmt"
	"strings"
	"time"

	"verif/harness/internal/core"
)

var c02Lines = []string{
	"permit ip host 10.1.1.1 any",
	"permit tcp any host 10.9.9.1 eq 80",
	"deny ip 10.1.1.0 0.0.0.255 any",
	"deny ip any any",
	"permit udp any any eq 53 log",
	"remark r1",
	"permit udp any any eq 53 log-input",
	"deny tcp any any eq 23",
}

func iosACLBody(name string, seq []int, lines []string, withSeq bool) string {
	var b strings.Builder
	if len(seq) == 0 {
		return ""
	}
	fmt.Fprintf(&b, "ip access-list extended %s\n", name)
	for k, i := range seq {
		if withSeq {
			fmt.Fprintf(&b, " %d %s\n", 10*(k+1), lines[i])
		} else {
			fmt.Fprintf(&b, " %s\n", lines[i])
		}
	}
	return b.String()
}

func iosIntf(name, addr string, subs ...string) string {
	var b strings.Builder
	fmt.Fprintf(&b, "interface %s\n ip address %s 255.255.255.0\n", name, addr)
	for _, s := range subs {
		if s != "" {
			b.WriteString(" " + s + "\n")
		}
	}
	return b.String()
}

func c02ACLSpace(name string, nLines, maxLen int) *space {
	all := seqs(nLines, 1, maxLen)
	var sq [][]int
	for _, s := range all {
		a, b, onlyRemark := false, false, true
		for _, i := range s {
			if i == 4 {
				a = true
			}
			if i == 6 {
				b = true
			}
			if i != 5 {
				onlyRemark = false
			}
		}
		if !(a && b) && !onlyRemark {
			sq = append(sq, s)
		}
	}
	nb := int64(len(sq))
	sp := &space{name: name, model: "IOS", n: nb * nb * 2}
	sp.gen = func(i int64) (core.Files, core.Files) {
		withSeq := i%2 == 1
		i /= 2
		sa, sb := sq[i/nb], sq[i%nb]
		return core.Files{Main: iosACLBody("inside_in", sa, c02Lines, withSeq) +
				iosIntf("Ethernet0", "10.0.0.1", "ip access-group inside_in in")},
			core.Files{Main: iosACLBody("inside_in", sb, c02Lines, false) +
				iosIntf("Ethernet0", "10.0.0.1", "ip access-group inside_in in")}
	}
	return sp
}

// log variants: the same rule with and without 'log' / 'log-input' on
// device and target, inside and at the border of a block.
var c02LogLines = []string{
	"permit ip host 10.1.1.1 any",
	"permit udp any any eq 53",
	"permit udp any any eq 53 log",
	"permit udp any any eq 53 log-input",
	"deny tcp any any eq 23",
	"deny tcp any any eq 23 log",
	"deny ip any any",
}

func c02LogSpace() *space {
	base := func(i int) int {
		switch i {
		case 1, 2, 3:
			return 1
		case 4, 5:
			return 4
		}
		return i
	}
	var sq [][]int
	for _, s := range seqs(len(c02LogLines), 1, 4) {
		seen := map[int]bool{}
		ok := true
		for _, i := range s {
			if seen[base(i)] {
				ok = false
			}
			seen[base(i)] = true
		}
		if ok {
			sq = append(sq, s)
		}
	}
	nb := int64(len(sq))
	sp := &space{name: "acl-log", model: "IOS", n: nb * nb}
	sp.gen = func(i int64) (core.Files, core.Files) {
		sa, sb := sq[i/nb], sq[i%nb]
		return core.Files{Main: iosACLBody("inside_in", sa, c02LogLines, false) +
				iosIntf("Ethernet0", "10.0.0.1", "ip access-group inside_in in")},
			core.Files{Main: iosACLBody("inside_in", sb, c02LogLines, false) +
				iosIntf("Ethernet0", "10.0.0.1", "ip access-group inside_in in")}
	}
	return sp
}

// interface / binding variants
func iosIntfSpace() *space {
	acl := func(name string, v int) string {
		switch v {
		case 0:
			return iosACLBody(name, []int{0, 3}, c02Lines, false)
		default:
			return iosACLBody(name, []int{1, 0, 3}, c02Lines, false)
		}
	}
	type cfg struct {
		text string
	}
	mk := func(variant, va, vb int, dev bool) string {
		sfx := ""
		if dev {
			sfx = "-DRC-0"
		}
		A, B := "e0_in"+sfx, "e1_in"+sfx
		switch variant {
		case 0: // one interface with ACL, second without
			return acl(A, va) + iosIntf("Ethernet0", "10.0.0.1", "ip access-group "+A+" in") +
				iosIntf("Ethernet1", "10.0.1.1")
		case 1: // both share one ACL
			return acl(A, va) + iosIntf("Ethernet0", "10.0.0.1", "ip access-group "+A+" in") +
				iosIntf("Ethernet1", "10.0.1.1", "ip access-group "+A+" in")
		case 2: // own ACLs
			return acl(A, va) + acl(B, vb) + iosIntf("Ethernet0", "10.0.0.1", "ip access-group "+A+" in") +
				iosIntf("Ethernet1", "10.0.1.1", "ip access-group "+B+" in")
		case 3: // in and out on one interface
			return acl(A, va) + acl(B, vb) + iosIntf("Ethernet0", "10.0.0.1", "ip access-group "+A+" in", "ip access-group "+B+" out") +
				iosIntf("Ethernet1", "10.0.1.1")
		case 4: // own ACLs with identical content
			return acl(A, va) + acl(B, va) + iosIntf("Ethernet0", "10.0.0.1", "ip access-group "+A+" in") +
				iosIntf("Ethernet1", "10.0.1.1", "ip access-group "+B+" in")
		}
		return ""
	}
	const nv = 5
	per := int64(nv * 4)
	sp := &space{name: "intf", model: "IOS", n: per * per * 2}
	sp.gen = func(i int64) (core.Files, core.Files) {
		dev := i%2 == 1
		i /= 2
		ia, ib := i/per, i%per
		return core.Files{Main: mk(int(ia/4), int(ia%4)/2, int(ia%4)%2, dev)},
			core.Files{Main: mk(int(ib/4), int(ib%4)/2, int(ib%4)%2, false)}
	}
	return sp
}

// iosIntfKwSpace: the cases of space intf on sub-interfaces whose type the
// device prints behind the name ('interface Serial0/0.1 point-to-point');
// Netspoc names the interface only.
func iosIntfKwSpace() *space {
	in := iosIntfSpace()
	sp := &space{name: "intf-kw", model: "IOS", n: in.n}
	sp.gen = func(i int64) (core.Files, core.Files) {
		a, b := in.gen(i)
		a.Main = strings.NewReplacer("interface Ethernet0\n", "interface Serial0/0.1 point-to-point\n", "interface Ethernet1\n", "interface Serial0/0.2 multipoint\n").Replace(a.Main)
		b.Main = strings.NewReplacer("interface Ethernet0\n", "interface Serial0/0.1\n", "interface Ethernet1\n", "interface Serial0/0.2\n").Replace(b.Main)
		return a, b
	}
	return sp
}

// crypto map with filter ACLs
func iosCryptoSpace() *space {
	mk := func(v int, dev bool) string {
		sfx := ""
		if dev {
			sfx = "-DRC-0"
		}
		F := "crypto-filter-e0-1" + sfx
		base := iosIntf("Ethernet1", "10.0.1.1")
		switch v {
		case 0:
			return base + iosIntf("Ethernet0", "10.0.0.1")
		case 1:
			return iosACLBody(F, []int{1, 3}, c02Lines, false) +
				"crypto map crypto-e0 1 ipsec-isakmp\n set ip access-group " + F + " in\n set peer 10.156.4.206\n" +
				base + iosIntf("Ethernet0", "10.0.0.1", "crypto map crypto-e0")
		case 2:
			return iosACLBody(F, []int{0, 1, 3}, c02Lines, false) +
				"crypto map crypto-e0 1 ipsec-isakmp\n set ip access-group " + F + " in\n set peer 10.156.4.206\n" +
				base + iosIntf("Ethernet0", "10.0.0.1", "crypto map crypto-e0")
		case 3:
			return iosACLBody(F, []int{1, 3}, c02Lines, false) +
				"crypto map crypto-e0 1 ipsec-isakmp\n set ip access-group " + F + " in\n set peer 10.156.4.207\n" +
				base + iosIntf("Ethernet0", "10.0.0.1", "crypto map crypto-e0")
		case 4:
			G := "crypto-filter-e0-2" + sfx
			return iosACLBody(F, []int{1, 3}, c02Lines, false) + iosACLBody(G, []int{0, 3}, c02Lines, false) +
				"crypto map crypto-e0 1 ipsec-isakmp\n set ip access-group " + F + " in\n set peer 10.156.4.206\n" +
				"crypto map crypto-e0 2 ipsec-isakmp\n set ip access-group " + G + " in\n set ip access-group " + F + " out\n set peer 10.156.4.207\n" +
				base + iosIntf("Ethernet0", "10.0.0.1", "crypto map crypto-e0")
		}
		return ""
	}
	const nv = 5
	sp := &space{name: "crypto", model: "IOS", n: nv * nv * 2}
	sp.gen = func(i int64) (core.Files, core.Files) {
		dev := i%2 == 1
		i /= 2
		return core.Files{Main: mk(int(i/nv), dev)}, core.Files{Main: mk(int(i%nv), false)}
	}
	return sp
}

// routes and interfaces in VRFs
func iosVRFSpace() *space {
	routes := []string{
		"ip route 10.20.0.0 255.255.0.0 10.1.2.3",
		"ip route vrf A 10.20.0.0 255.255.0.0 10.2.2.2",
		"ip route vrf A 10.30.0.0 255.255.0.0 10.2.2.2",
		"ip route vrf B 10.20.0.0 255.255.0.0 10.3.3.3",
		"ip route 10.20.0.0 255.255.0.0 10.1.2.4",
	}
	subs := subsets(len(routes))
	var tsets [][]int
	for _, s := range subs {
		if oneRoutePerDst("IOS", s, routes) {
			tsets = append(tsets, s)
		}
	}
	nb := int64(len(tsets))
	sp := &space{name: "vrf", model: "IOS", n: int64(len(subs)) * nb}
	sp.gen = func(i int64) (core.Files, core.Files) {
		txt := func(s []int) string {
			var b strings.Builder
			for _, k := range s {
				b.WriteString(routes[k] + "\n")
			}
			return b.String()
		}
		return core.Files{Main: txt(subs[i/nb])}, core.Files{Main: txt(tsets[i%nb])}
	}
	return sp
}

// vrf-intf: as vrf, but both sides have interfaces in the global VRF and in
// VRF A and B, so that every VRF is known to the target even when the
// target has no route for it ("no routing specified, leaving untouched").
func iosVRFIntfSpace() *space {
	base := iosVRFSpace()
	intf := "interface Ethernet0\n ip address 10.9.1.1 255.255.255.0\n" +
		"interface Ethernet1\n ip address 10.8.8.2 255.255.255.0\n ip vrf forwarding A\n" +
		"interface Ethernet2\n ip address 10.7.7.2 255.255.255.0\n ip vrf forwarding B\n"
	sp := &space{name: "vrf-intf", model: "IOS", n: base.n}
	sp.gen = func(i int64) (core.Files, core.Files) {
		a, b := base.gen(i)
		return core.Files{Main: intf + a.Main}, core.Files{Main: intf + b.Main}
	}
	return sp
}

// raw-blocks: the target ACL comes in three pieces - two blocks of the same
// ACL in the raw file (legal: "multiple occurences of same ACL in raw") and
// the rest from Netspoc; the device holds another sequence of the same
// lines, so the change is incremental.  The effective target is the plain
// concatenation (raw lines are prepended in file order).
func iosRawBlocksSpace(name string, lines []string, nLines, maxLen int) *space {
	sq := seqs(nLines, 1, maxLen)
	var tg [][]int
	for _, s := range sq {
		if len(s) >= 3 {
			tg = append(tg, s)
		}
	}
	nb := int64(len(tg))
	intf := iosIntf("Ethernet0", "10.0.0.1", "ip access-group inside_in in")
	// the device ACL carries a generated name (as after an earlier approve)
	devIntf := iosIntf("Ethernet0", "10.0.0.1", "ip access-group inside_in-DRC-0 in")
	sp := &space{name: name, model: "IOS", n: int64(len(sq)) * nb, acl: "inside_in"}
	sp.gen = func(i int64) (core.Files, core.Files) {
		sa, sb := sq[i/nb], tg[i%nb]
		raw := iosACLBody("inside_in", sb[:1], lines, false) + iosACLBody("inside_in", sb[1:2], lines, false) +
			"interface Ethernet0\n ip access-group inside_in in\n"
		return core.Files{Main: iosACLBody("inside_in-DRC-0", sa, lines, false) + devIntf},
			core.Files{Main: iosACLBody("inside_in", sb[2:], lines, false) + intf, Raw: raw}
	}
	sp.eff = func(b core.Files) string {
		var pre []string
		inACL := false
		for _, l := range strings.Split(b.Raw, "\n") {
			if !strings.HasPrefix(l, " ") {
				inACL = strings.HasPrefix(l, "ip access-list ")
			} else if inACL {
				pre = append(pre, l)
			}
		}
		head, rest, _ := strings.Cut(b.Main, "\n")
		return head + "\n" + strings.Join(pre, "\n") + "\n" + rest
	}
	return sp
}

func iosSpaces(ctx *core.Ctx) []*space {
	l := []*space{
		c02ACLSpace("acl", 6, 3),
		c02ACLSpace("acl4", 5, 4),
		c02LogSpace(),
		routePairSpace("IOS"),
		iosVRFSpace(),
		iosVRFIntfSpace(),
		iosIntfSpace(),
		iosIntfKwSpace(),
		iosCryptoSpace(),
		iosEditSpace(),
		iosSpellSpace(),
		iosRawBlocksSpace("raw-blocks", c02Lines, 5, 3),
		noiseSpace("IOS"),
		corpusSpace("IOS"),
	}
	if ctx.Thorough() {
		l = append(l, c02ACLSpace("acl-x", 8, 4))
	}
	return l
}

func c02Worker(ctx *core.Ctx) *core.Result {
	x := newApprovex(ctx, "C02", oracles{conv: true})
	defer x.sc.Close()
	x.runSpaces(iosSpaces(ctx))
	x.runNoise("IOS", 0)
	x.runChain("IOS", ctx)
	return x.res
}

func init() {
	registerSharded("C02", c02Worker, func(tier string) core.Meta {
		return core.Meta{ID: "C02", Level: "model_checking",
			Rule:        "states = distinct device-model states (per worker, summed); transitions = runs of the real planner; enumerated: all (device,target) pairs of the spaces acl (block structured, device printed with and without IOS-XE sequence numbers), acl-log (the same rule with none/log/log-input on either side, len<=4), rt, vrf, vrf-intf (every VRF known through an interface), intf, intf-kw (sub-interfaces printed with their type behind the name), crypto, value-edit (one argument token of the target changed by a single-character edit), noise (one unmodelled toplevel block inserted at every toplevel position; the script must equal the one without it), raw-blocks (target ACL = two blocks of that ACL in the raw file + the Netspoc lines, device another sequence: incremental change towards a merged target), corpus (ios_*.t) and a breadth-first chain of approves; the script is executed on the reference IOS model (sequence numbers, resequence, interface and crypto-map sub-modes); oracle: per managed interface the bound ACLs as sequences of maximal same-action runs (each a set), routes per VRF the target mentions, second compare silent for both print forms, empty script only for an equivalent device",
			Assumptions: []string{"reference IOS model validated against the repository's DEVICE/NETSPOC/OUTPUT triples"},
			Bounds:      map[string]any{"quick": "acl len<=3 over 6 lines, len<=4 over 5 lines, log variants len<=4", "thorough": "acl len<=4 over 8 lines"},
		}
	}, 170*time.Second, 45*time.Minute)
}

// IOS spellings: what the device prints, what a (hand-written) target may
// say for the same entry, and a target with another value.  IOS masks are
// wildcards: "X 0.0.0.0" is a host, "X 255.255.255.255" is any.
var iosSpellings = [][3]string{
	{"permit ip host 10.1.1.1 any", "permit ip 10.1.1.1 0.0.0.0 any", "permit ip 10.1.1.2 0.0.0.0 any"},
	{"permit ip any host 10.9.9.1", "permit ip 10.5.5.5 255.255.255.255 host 10.9.9.1", "permit ip 10.5.5.0 0.0.0.255 host 10.9.9.1"},
	{"permit ip host 10.1.1.1 any", "permit ip host 10.1.1.1 0.0.0.0 255.255.255.255", "permit ip host 10.1.1.1 10.7.7.7 0.0.0.0"},
	{"permit tcp any host 10.9.9.1 eq www", "permit tcp any host 10.9.9.1 eq 80", "permit tcp any host 10.9.9.1 eq 81"},
	{"permit udp any host 10.9.9.1 eq domain", "permit udp any host 10.9.9.1 eq 53", "permit udp any host 10.9.9.1 eq 54"},
	{"permit tcp any host 10.9.9.1 range ftp-data ftp", "permit tcp any host 10.9.9.1 range 20 21", "permit tcp any host 10.9.9.1 range 20 22"},
	{"permit gre any host 10.9.9.1", "permit 47 any host 10.9.9.1", "permit 48 any host 10.9.9.1"},
	{"permit icmp any host 10.9.9.1 echo", "permit icmp any host 10.9.9.1 8", "permit icmp any host 10.9.9.1 0"},
	// type 11: ttl-exceeded is code 0, reassembly-timeout code 1, time-exceeded every code
	{"permit icmp any host 10.9.9.1 ttl-exceeded", "permit icmp any host 10.9.9.1 11 0", "permit icmp any host 10.9.9.1 11"},
	{"permit icmp any host 10.9.9.1 reassembly-timeout", "permit icmp any host 10.9.9.1 11 1", "permit icmp any host 10.9.9.1 11"},
	{"permit icmp any host 10.9.9.1 time-exceeded", "permit icmp any host 10.9.9.1 11", "permit icmp any host 10.9.9.1 11 1"},
}

func iosSpellSpace() *space {
	n := int64(len(iosSpellings))
	sp := &space{name: "spell", model: "IOS", n: n * 4}
	sp.gen = func(i int64) (core.Files, core.Files) {
		e := iosSpellings[i/4]
		var a, b string
		switch i % 4 {
		case 0: // device spelling vs equal target spelling
			a, b = e[0], e[1]
		case 1: // device spelling vs changed value
			a, b = e[0], e[2]
		case 2: // target spelling on the device vs equal
			a, b = e[1], e[1]
		case 3:
			a, b = e[1], e[2]
		}
		mk := func(line string) string {
			return "ip access-list extended inside_in\n " + line + "\n deny ip any any\n" + iosIntf("Ethernet0", "10.0.0.1", "ip access-group inside_in in")
		}
		return core.Files{Main: mk(a)}, core.Files{Main: mk(b)}
	}
	return sp
}
