package engines

import (
	"encoding/json"
	"fmt"
	"strings"

	"verif/harness/internal/core"
)

// c20InfoLogin: info files whose name_list and ip_list have 0..3 entries
// each (equal lengths are the legal shapes: one device, a device with one
// or two backup addresses), in a compare run against the simulated device
// with every single deviation of the dialogue: the login loop over the
// lists is only reached when the device answers, and the second and third
// entry only when the earlier logins fail.  Oracle of C20 only: exit
// status 0 or 1, a message on stderr when 1, no runtime panic.
func c20InfoLogin(ctx *core.Ctx, res *core.Result) {
	x := newDialogx(ctx, "C20")
	defer x.close()
	var scs []*dscenario
	for _, t := range allDevTypes {
		for n := 0; n <= 3; n++ {
			for m := 0; m <= 3; m++ {
				if n == 1 && m == 1 {
					continue // the shape of every other dialogue check
				}
				sc := baseScenario(t, "drc")
				names := []string{sc.dn(), sc.dn() + "-b", sc.dn() + "-c"}[:n]
				ips := []string{"10.1.13.33", "10.1.13.34", "10.1.13.35"}[:m]
				info, _ := json.Marshal(map[string]any{"model": t, "name_list": names, "ip_list": ips})
				sc.target.Info = string(info)
				sc.name = fmt.Sprintf("%s/drc/names=%d/addresses=%d", t, n, m)
				scs = append(scs, sc)
			}
		}
	}
	x.enumerate(scs, false, func(c *dcase, r *drun, base *drun) {
		x.res.Outcome(fmt.Sprintf("info-login %s exit=%d", c.sc.devType, r.exit))
		switch {
		case r.panicMsg != "":
			x.violation(c, r, "no-panic", "info-login:panic:"+c.sc.devType, "runtime panic: "+r.panicMsg)
		case r.exit != 0 && r.exit != 1:
			x.violation(c, r, "exit-status", fmt.Sprintf("info-login:exit=%d:%s", r.exit, c.sc.devType), "exit status is neither 0 nor 1")
		case r.exit == 1 && strings.TrimSpace(r.stderr) == "":
			x.violation(c, r, "diagnostic", "info-login:silent:"+c.sc.devType, "exit status 1 without a message")
		}
	})
	n := x.res.Evaluations
	res.Merge(x.res)
	res.Count("info_login_runs", n)
}
