package engines

import (
	"fmt"
	"hash/fnv"
	"net/netip"
	"sort"
	"strconv"
	"strings"
	"time"

	"verif/harness/internal/ciscomodel"
	"verif/harness/internal/core"
)

// A space is a finite, explicitly enumerable family of (device, target)
// pairs; index -> texts is a pure function.
type space struct {
	name  string
	model string
	n     int64
	gen   func(i int64) (a, b core.Files)
	// ACL under packet evaluation (C14): name of ACL and of groups lookup.
	acl string
	// eff computes the effective (merged) target of a multi-part target
	// independently of the tool; nil = the parts are not interpreted here.
	eff func(b core.Files) string
}

// oracle flags
type oracles struct {
	conv    bool // C01/C02: Sem-equal, second compare silent, empty => equal
	exec    bool // C08: every command accepted
	packets bool // C14: per-step packet verdicts
	routes  bool // C14: per-step route coverage
	cuts    bool // C10: every prefix, resume
	frame   bool // C07: unmanaged view unchanged
}

type approvex struct {
	ctx  *core.Ctx
	res  *core.Result
	sc   *core.Scratch
	prop string
	orc  oracles
	seen map[uint64]struct{} // distinct model states visited by this worker
}

// visit counts a model state in which invariants are evaluated.
func (x *approvex) visit(text string) {
	h := fnv.New64a()
	h.Write([]byte(text))
	k := h.Sum64()
	if _, ok := x.seen[k]; !ok {
		x.seen[k] = struct{}{}
		x.res.States++
	}
}

func (x *approvex) violation(sp *space, idx int64, a, b core.Files, script []string,
	step int, oracle, sig, msg string) {
	v := core.Violation{Property: x.prop, Engine: "approvex/" + strings.ToLower(sp.model),
		Space: sp.name, Index: idx, Inputs: inputsOf(a, b), Script: script,
		Step: step, Oracle: oracle, Signature: sig, Message: msg}
	x.res.AddViolation(v)
}

var packetUniverse = func() []ciscomodel.Packet {
	var l []ciscomodel.Packet
	for _, s := range []string{"10.1.1.1", "10.1.1.2", "10.2.2.2"} {
		for _, d := range []string{"10.9.9.1", "10.9.9.2"} {
			for _, sv := range []struct {
				p    string
				port int
			}{{"tcp", 22}, {"tcp", 80}, {"udp", 53}} {
				l = append(l, ciscomodel.Packet{Src: netip.MustParseAddr(s),
					Dst: netip.MustParseAddr(d), Proto: sv.p, DPort: sv.port})
			}
		}
	}
	return l
}()

func aclOf(m *ciscomodel.Dev, name string) []string {
	if m.IOS {
		return m.IOSACL(name)
	}
	return m.ACL(name)
}

func verdicts(m *ciscomodel.Dev, acl string) ([]string, bool) {
	lines := aclOf(m, acl)
	out := make([]string, len(packetUniverse))
	// IOS: an interface bound to an ACL without any entry (or to a name
	// that is not defined) passes all traffic.
	empty := true
	for _, l := range lines {
		if !strings.HasPrefix(l, "remark ") {
			empty = false
		}
	}
	for i, p := range packetUniverse {
		if m.IOS && empty {
			out[i] = "permit"
			continue
		}
		v, known := ciscomodel.Verdict(lines, p, m.GroupMembers)
		if !known {
			return nil, false
		}
		out[i] = v
	}
	return out, true
}

// blocker returns the first entry of the ACL that matches the packet.
func blocker(m *ciscomodel.Dev, acl string, p ciscomodel.Packet) string {
	for _, l := range aclOf(m, acl) {
		a := ciscomodel.ParseACE(l)
		if ok, known := a.Match(p, m.GroupMembers); known && ok {
			return ciscomodel.NormACE(l)
		}
	}
	return "<implicit>"
}

type safetyErr struct {
	msg     string
	blocker string // entry now deciding the packet
	kept    bool   // blocker is part of the target ACL
	route   bool
}

func (e *safetyErr) Error() string { return e.msg }

// boundACL returns the name of the ACL bound inbound to the interface.
func boundACL(m *ciscomodel.Dev, intf string) string {
	if m.IOS {
		for _, e := range m.Entries {
			if e.Line == "interface "+intf {
				for _, s := range e.Subs {
					w := strings.Fields(s)
					if len(w) == 4 && w[0] == "ip" && w[1] == "access-group" && w[3] == "in" {
						return w[2]
					}
				}
			}
		}
		return ""
	}
	for _, l := range m.LinesWithPrefix("access-group") {
		w := strings.Fields(l)
		if len(w) == 5 && w[2] == "in" && w[4] == intf {
			return w[1]
		}
	}
	return ""
}

// runCase evaluates one (A,B) pair under the configured oracles.
func (x *approvex) runCase(sp *space, idx int64, a, b core.Files) *ciscomodel.Dev {
	return x.runCaseTag(sp, idx, a, b, "")
}

// runCaseTag: tag != "" marks a derived case (cut state); signatures get
// the tag as prefix.
func (x *approvex) runCaseTag(sp *space, idx int64, a, b core.Files, tag string) *ciscomodel.Dev {
	res := x.res
	res.Evaluations++
	ios := sp.model == "IOS"
	out := x.sc.Compare(sp.model, a, b)
	switch out.Status {
	case 1:
		res.Count("rejected_by_tool", 1)
		res.Outcome("rejected:" + short(firstLine(out.Stderr), 60))
		if tag != "" {
			// the tool rejects a state its own script produced
			x.violation(sp, idx, a, b, nil, 0, "resume-accepted", tag+"rejected:"+rejectSig(out.Stderr),
				"tool rejects the partially changed device: "+out.Stderr)
		}
		return nil
	case 2:
		res.Count("tool_panic", 1)
		res.Outcome("panic:" + out.Site)
		// the inputs of these spaces are well-formed: the tool cannot bring
		// the device to the target if it crashes
		if sp.name != "corpus" || tag != "" { // corpus inputs may be malformed on purpose: C20's matter
			x.violation(sp, idx, a, b, nil, 0, "no-panic", tag+"panic:"+out.Site, out.Panic)
		}
		return nil
	}
	script := out.Script()
	res.Transitions++
	res.Count("script_lines", int64(len(script)))
	if len(script) > 0 {
		res.Nontrivial++
	}
	res.Outcome(fmt.Sprintf("lines=%d", len(script)))
	if len(res.Samples) < 3 && len(script) > 1 && idx%7 == 3 {
		res.Sample(map[string]any{"space": sp.name, "index": idx, "device": a.Main,
			"target": b.Main, "script": script})
	}
	m := ciscomodel.Load(a.Main, ios)
	x.visit(a.Main)
	var before *ciscomodel.Dev
	tb := ciscomodel.Load(b.Main, ios)
	multipart := b.V6 != "" || b.Raw != "" || a.V6 != "" || a.Raw != ""
	if sp.eff != nil && multipart {
		tb = ciscomodel.Load(sp.eff(b), ios)
		multipart = false
	}
	scope := ciscomodel.ScopeOf(tb)
	if x.orc.cuts && tag == "" {
		x.runCuts(sp, idx, a, b, script)
		return nil
	}

	// C14 packets: verdict vector before and for the target.
	var vOld, vNew []string
	intf := ""
	if x.orc.packets {
		intf = "inside"
		if ios {
			intf = "Ethernet0"
		}
		okA, okB := false, false
		vOld, okA = verdicts(m, boundACL(m, intf))
		vNew, okB = verdicts(tb, boundACL(tb, intf))
		if !okA || !okB {
			res.Count("packets_unknown", 1)
			vOld = nil
		}
		// edits to the membership of an existing object-group are outside
		// the statement: only scripts that create new groups are checked
		for _, l := range script {
			if name, ok := strings.CutPrefix(l, "object-group network "); ok && len(m.GroupMembers(name)) > 0 {
				res.Count("packets_skipped_group_edited_in_place", 1)
				vOld = nil
			}
		}
	}
	var routesOld, routesNew map[string]bool
	if x.orc.routes {
		routesOld, routesNew = routeDsts(m), routeDsts(tb)
	}
	if x.orc.frame {
		before = m.Clone()
	}
	_ = before
	perLine := func(i int, m *ciscomodel.Dev) error {
		x.visit(m.Print())
		if vOld != nil {
			cur, ok := verdicts(m, boundACL(m, intf))
			if !ok {
				return nil
			}
			res.Count("packet_evaluations", int64(len(cur)))
			for k := range cur {
				if vOld[k] == vNew[k] && cur[k] != vOld[k] {
					p := packetUniverse[k]
					bl := blocker(m, boundACL(m, intf), p)
					kept := false
					for _, l := range aclOf(tb, boundACL(tb, intf)) {
						if ciscomodel.NormACE(l) == bl {
							kept = true
						}
					}
					return &safetyErr{msg: fmt.Sprintf("packet %s->%s %s/%d is %s before and after the change but %s after step %d (decided by %q)",
						p.Src, p.Dst, p.Proto, p.DPort, vOld[k], cur[k], i+1, bl), blocker: bl, kept: kept}
				}
			}
		}
		if routesOld != nil {
			cur := routeDsts(m)
			for dst := range routesOld {
				if routesNew[dst] && !cur[dst] {
					return &safetyErr{msg: fmt.Sprintf("destination %s has a route before and after but none after step %d", dst, i+1), route: true}
				}
			}
		}
		return nil
	}
	if !x.orc.packets && !x.orc.routes {
		perLine = func(i int, m *ciscomodel.Dev) error { x.visit(m.Print()); return nil }
	}
	m.ResetSession()
	step, cmd, err := execScript(m, script, perLine)
	res.Count("commands_executed", int64(m.Steps))
	if err != nil {
		_, isSafety := err.(*safetyErr)
		if !isSafety {
			if x.orc.exec || x.orc.conv {
				// a rejected command aborts approve: the device cannot
				// reach the target either
				x.violation(sp, idx, a, b, script, step, "exec-accept",
					tag+"exec:"+execSig(err), fmt.Sprintf("command %q: %v", cmd, err))
			} else {
				res.Count("skipped_exec_error(see C08)", 1)
			}
			return nil
		}
		if x.orc.packets || x.orc.routes {
			x.violation(sp, idx, a, b, script, step, "step-safety",
				stepSig(sp, script, step, err), err.Error())
		}
		return nil
	}
	if x.orc.conv {
		if multipart {
			res.Count("sem_skipped_parts", 1)
		} else if eq, msg := ciscomodel.SemEqual(m, tb, scope); !eq {
			x.violation(sp, idx, a, b, script, len(script), "sem-equal", tag+"sem-differs:"+semDiffKind(m, tb, scope)+remarkFlag(ios, a, b),
				"state after script not equivalent to target\n"+msg)
			return nil
		}
		if len(script) == 0 && !multipart {
			if eq, msg := ciscomodel.SemEqual(ciscomodel.Load(a.Main, ios), tb, scope); !eq {
				x.violation(sp, idx, a, b, script, 0, "unchanged-only-if-equal", tag+"unchanged-but-different",
					"tool reports no change but device differs from target\n"+msg)
				return nil
			}
		}
		// A device that prints an equivalent configuration in its own
		// spelling prints it that way again after every approve; if the tool
		// sees a difference there, no second compare is ever silent (the
		// model keeps the spelling it was given, so this needs its own test).
		if sp.name == "spell" && len(script) > 0 && !multipart {
			if eq, _ := ciscomodel.SemEqual(ciscomodel.Load(a.Main, ios), tb, scope); eq {
				x.violation(sp, idx, a, b, script, 0, "second-compare-silent", tag+"spelling-not-recognised",
					"the device holds the target in its own spelling, but changes are emitted; the device will print the same spelling after the approve, so every compare reports changes again")
				return nil
			}
		}
		// second compare must be silent
		prints := []string{m.Print()}
		if ios {
			prints = append(prints, m.PrintSeq())
		}
		for _, p := range prints {
			out2 := x.sc.Compare(sp.model, core.Files{Main: p}, b)
			res.Transitions++
			if out2.Status != 0 || len(out2.Script()) != 0 {
				x.violation(sp, idx, a, b, script, len(script), "second-compare-silent", tag+"second-compare:"+scriptKind(out2.Script())+remarkFlag(ios, a, b),
					fmt.Sprintf("second compare not silent (status %d): %s\n%s\nstate:\n%s",
						out2.Status, strings.Join(out2.Script(), " | "), out2.Stderr, p))
				return nil
			}
		}
	}
	return m
}

// runCuts (C10): for every proper prefix of the flattened script, the state
// reached is handed back to the tool; the second script must be accepted
// and must converge.
func (x *approvex) runCuts(sp *space, idx int64, a, b core.Files, script []string) {
	ios := sp.model == "IOS"
	cmds := flatten(script)
	m := ciscomodel.Load(a.Main, ios)
	for k := 0; k+1 < len(cmds); k++ {
		if err := m.Exec(cmds[k]); err != nil {
			x.res.Count("skipped_exec_error(see C08)", 1)
			return
		}
		cut := m.Clone()
		cut.ResetSession()
		text := cut.Print()
		x.res.Count("cut_states", 1)
		save := x.orc
		x.orc = oracles{conv: true, exec: true}
		tag := "cut:"
		x.runCaseTag(sp, idx*1000+int64(k+1), core.Files{Main: text}, b, tag)
		x.orc = save
	}
}

func execSig(err error) string {
	s := err.Error()
	// strip quoted specifics
	var b strings.Builder
	inq := false
	for _, r := range s {
		if r == '"' {
			inq = !inq
			continue
		}
		if !inq && (r < '0' || r > '9') {
			b.WriteRune(r)
		}
	}
	return strings.Join(strings.Fields(b.String()), " ")
}

// stepSig classifies a C14 violation by the kind of the failing script line.
func stepSig(sp *space, script []string, step int, err error) string {
	kind := "other"
	se := err.(*safetyErr)
	if se.route {
		return strings.ToLower(sp.model) + ":route-gap"
	}
	suffix := ":blocker-later-deleted"
	if se.kept {
		suffix = ":blocker-kept"
	}
	if se.blocker == "<implicit>" {
		suffix = ":implicit"
	}
	// find the script line containing flattened step
	n := 0
	for _, line := range script {
		parts := core.SplitJoined(line)
		if step < n+len(parts) {
			if len(parts) == 2 {
				kind = "move-" + moveDir(parts)
			} else if strings.HasPrefix(line, "no permit") || strings.HasPrefix(line, "no deny") {
				kind = "delete-by-text"
			} else if strings.HasPrefix(line, "no ") {
				kind = "delete"
			} else if strings.HasPrefix(line, "permit ") || strings.HasPrefix(line, "deny ") {
				// IOS line without sequence number: the replace-all path
				// (all old lines deleted by text, then all new lines added)
				kind = "insert-by-text"
			} else {
				kind = "insert"
			}
			break
		}
		n += len(parts)
	}
	return strings.ToLower(sp.model) + ":" + kind + suffix
}

// moveDir tells whether a joined delete+add moves the line up or down.
func moveDir(parts []string) string {
	num := func(s string) int {
		w := strings.Fields(s)
		for i, t := range w {
			if t == "line" && i+1 < len(w) {
				n, _ := strconv.Atoi(w[i+1])
				return n
			}
		}
		for _, t := range w {
			if n, err := strconv.Atoi(t); err == nil {
				return n
			}
		}
		return 0
	}
	from, to := num(parts[0]), num(parts[1])
	if to >= from {
		return "down"
	}
	return "up"
}

func routeDsts(m *ciscomodel.Dev) map[string]bool {
	r := map[string]bool{}
	for _, e := range m.Entries {
		w := strings.Fields(e.Line)
		switch {
		case w[0] == "route" && len(w) >= 5:
			r[w[2]+"/"+w[3]] = true
		case w[0] == "ipv6" && len(w) >= 5 && w[1] == "route":
			if m.IOS {
				r["6:"+w[2]] = true
			} else {
				r["6:"+w[3]] = true
			}
		case w[0] == "ip" && len(w) >= 5 && w[1] == "route":
			if w[2] == "vrf" && len(w) >= 7 {
				r[w[3]+":"+w[4]+"/"+w[5]] = true
			} else {
				r[w[2]+"/"+w[3]] = true
			}
		}
	}
	return r
}

func (x *approvex) runSpaces(spaces []*space) {
	var base int64
	for _, sp := range spaces {
		var done int64
		for i := int64(0); i < sp.n; i++ {
			if !x.ctx.Mine(base + i) {
				continue
			}
			if done%256 == 0 && x.ctx.Expired() {
				x.res.Incomplete = append(x.res.Incomplete,
					fmt.Sprintf("deadline in space %s at index %d of %d (shard %d)", sp.name, i, sp.n, x.ctx.Shard))
				return
			}
			a, b := sp.gen(i)
			x.runCase(sp, i, a, b)
			done++
		}
		x.res.Count("space:"+sp.name, done)
		base += sp.n
	}
}

func newApprovex(ctx *core.Ctx, prop string, o oracles) *approvex {
	return &approvex{ctx: ctx, res: core.NewResult(), sc: core.NewScratch(prop), prop: prop, orc: o,
		seen: map[uint64]struct{}{}}
}

// ---------------------------------------------------------------------
// Spaces.

const asaIntf = "interface Ethernet0/0\n nameif inside\ninterface Ethernet0/1\n nameif outside\n"

// packet alphabet for C14: overlapping matches, both actions.
var c14Lines = []string{
	"permit tcp host 10.1.1.1 host 10.9.9.1 eq 22",
	"deny ip 10.1.1.0 255.255.255.0 any4",
	"permit ip any4 host 10.9.9.1",
	"deny tcp any4 any4 eq 80",
	"permit tcp 10.1.1.0 255.255.255.0 any4",
	"permit udp any4 host 10.9.9.2 eq 53",
	"deny ip host 10.1.1.2 any4",
	"permit ip any4 any4",
}

func iosC14Lines() []string {
	var l []string
	for _, s := range c14Lines {
		l = append(l, iosSpell(s))
	}
	return l
}

var c14Lines4 = []string{c14Lines[4], c14Lines[6], c14Lines[1], c14Lines[0], c14Lines[5]}

// with a remark: remarks belong to no action, but take part in the line
// numbering and in the tool's block structure
var c14LinesRemark = []string{"remark r1", c14Lines[4], c14Lines[6], c14Lines[1], c14Lines[0]}

func iosSpell(l string) string {
	// ASA net mask -> IOS wildcard, any4 -> any
	l = strings.ReplaceAll(l, "255.255.255.0", "0.0.0.255")
	l = strings.ReplaceAll(l, "any4", "any")
	return l
}

func asaACLText(name string, seq []int, lines []string) string {
	var b strings.Builder
	for _, i := range seq {
		fmt.Fprintf(&b, "access-list %s extended %s\n", name, lines[i])
	}
	if len(seq) > 0 {
		fmt.Fprintf(&b, "access-group %s in interface inside\n", name)
	}
	return b.String()
}

func iosACLText(name string, seq []int, lines []string) string {
	var b strings.Builder
	if len(seq) > 0 {
		fmt.Fprintf(&b, "ip access-list extended %s\n", name)
		for _, i := range seq {
			fmt.Fprintf(&b, " %s\n", iosSpell(lines[i]))
		}
	}
	b.WriteString("interface Ethernet0\n ip address 10.0.0.1 255.255.255.0\n")
	if len(seq) > 0 {
		fmt.Fprintf(&b, " ip access-group %s in\n", name)
	}
	return b.String()
}

func aclPairSpace(model, name string, lines []string, nLines, maxLen int, allowEmptyA bool) *space {
	var sq [][]int
	for _, q := range seqs(nLines, 1, maxLen) {
		// an ACL of remarks only is an empty ACL
		only := true
		for _, i := range q {
			only = only && strings.HasPrefix(lines[i], "remark")
		}
		if !only {
			sq = append(sq, q)
		}
	}
	as := sq
	if allowEmptyA {
		as = append([][]int{{}}, sq...)
	}
	nb := int64(len(sq))
	sp := &space{name: name, model: model, n: int64(len(as)) * nb, acl: "inside_in"}
	sp.gen = func(i int64) (core.Files, core.Files) {
		sa, sb := as[i/nb], sq[i%nb]
		if model == "IOS" {
			return core.Files{Main: iosACLText("inside_in", sa, lines)},
				core.Files{Main: iosACLText("inside_in", sb, lines)}
		}
		return core.Files{Main: asaIntf + asaACLText("inside_in", sa, lines)},
			core.Files{Main: asaACLText("inside_in", sb, lines)}
	}
	return sp
}

// routeECMPTargets: targets may hold several routes to one destination.
var routeECMPTargets = true

// aclGroupSpace (C14, ASA): ACL lines that reference object-groups whose
// content differs so much between device and target that the group is
// replaced (new group, line re-inserted, old line deleted) - a line
// insert/delete in the sense of the statement.
var c14GroupLines = []string{
	"permit ip host 10.1.1.1 any4",
	"deny ip object-group g1%S any4",
	"permit tcp any4 host 10.9.9.1 eq 80",
	"permit ip object-group g2%S host 10.9.9.1",
	"deny ip host 10.2.2.2 any4",
}

func aclGroupSpace() *space {
	sq := seqs(len(c14GroupLines), 1, 3)
	nb := int64(len(sq))
	g1 := [][]string{{"10.1.1.1", "10.1.1.2"}, {"10.1.1.2", "10.2.2.2", "10.3.3.3", "10.3.3.4", "10.3.3.5"}}
	g2 := [][]string{{"10.1.1.2", "10.2.2.2"}, {"10.1.1.1", "10.4.4.1", "10.4.4.2", "10.4.4.3", "10.4.4.4"}}
	text := func(seq []int, sfx string, v1, v2 int) string {
		var b strings.Builder
		use1, use2 := false, false
		for _, i := range seq {
			use1 = use1 || i == 1
			use2 = use2 || i == 3
		}
		grp := func(name string, m []string) {
			b.WriteString("object-group network " + name + "\n")
			for _, h := range m {
				b.WriteString(" network-object host " + h + "\n")
			}
		}
		if use1 {
			grp("g1"+sfx, g1[v1])
		}
		if use2 {
			grp("g2"+sfx, g2[v2])
		}
		for _, i := range seq {
			fmt.Fprintf(&b, "access-list inside_in%s extended %s\n", sfx, strings.ReplaceAll(c14GroupLines[i], "%S", sfx))
		}
		fmt.Fprintf(&b, "access-group inside_in%s in interface inside\n", sfx)
		return b.String()
	}
	sp := &space{name: "acl-asa-groups", model: "ASA", n: nb * nb * 4, acl: "inside_in"}
	sp.gen = func(i int64) (core.Files, core.Files) {
		v := int(i % 4)
		i /= 4
		return core.Files{Main: asaIntf + text(sq[i/nb], "-DRC-0", 0, 0)}, core.Files{Main: text(sq[i%nb], "", v%2, v/2)}
	}
	return sp
}

// route alphabets
var asaRoutes = []string{
	"route outside 0.0.0.0 0.0.0.0 10.0.0.1",
	"route outside 0.0.0.0 0.0.0.0 10.0.0.2",
	"route outside 10.20.0.0 255.255.0.0 10.0.0.1",
	"route outside 10.20.0.0 255.255.0.0 10.0.0.2",
	"route inside 10.20.30.0 255.255.255.0 10.1.1.9",
	"ipv6 route outside 1000::/64 2000::1",
	// same network address as another route, other mask
	"route outside 0.0.0.0 128.0.0.0 10.0.0.3",
	"route outside 10.20.0.0 255.255.255.0 10.0.0.3",
}

var iosRoutes = []string{
	"ip route 0.0.0.0 0.0.0.0 10.0.0.1",
	"ip route 0.0.0.0 0.0.0.0 10.0.0.2",
	"ip route 10.20.0.0 255.255.0.0 10.0.0.1",
	"ip route 10.20.0.0 255.255.0.0 10.0.0.2",
	"ip route 10.20.30.0 255.255.255.0 10.1.1.9",
	"ip route vrf A 10.20.0.0 255.255.0.0 10.0.0.1",
	// same network address as another route, other mask
	"ip route 0.0.0.0 128.0.0.0 10.0.0.3",
	"ip route 10.20.0.0 255.255.255.0 10.0.0.3",
}

// validRouteSet: ASA allows one route per destination on the device.
func oneRoutePerDst(model string, set []int, routes []string) bool {
	seen := map[string]bool{}
	for _, i := range set {
		w := strings.Fields(routes[i])
		var k string
		if model == "ASA" {
			if w[0] == "route" {
				k = w[2] + "/" + w[3]
			} else {
				k = "6" + w[3]
			}
		} else {
			k = strings.Join(w[:len(w)-1], " ")
		}
		if seen[k] {
			return false
		}
		seen[k] = true
	}
	return true
}

func routePairSpace(model string) *space {
	routes := asaRoutes
	if model == "IOS" {
		routes = iosRoutes
	}
	all := subsets(len(routes))
	var sets [][]int
	for _, s := range all {
		// Netspoc emits one route per destination; ASA devices hold one too.
		if oneRoutePerDst(model, s, routes) {
			sets = append(sets, s)
		}
	}
	devSets := sets
	if model == "IOS" {
		devSets = all // an IOS device may hold several routes to one destination
	}
	if routeECMPTargets {
		// targets with two routes to one destination (load sharing; on ASA
		// through a raw file, same interface)
		sets, devSets = all, all
	}
	nb := int64(len(sets))
	sp := &space{name: "rt", model: model, n: int64(len(devSets)) * nb}
	text := func(s []int) string {
		var b strings.Builder
		if model == "ASA" {
			b.WriteString("")
		}
		for _, i := range s {
			b.WriteString(routes[i] + "\n")
		}
		return b.String()
	}
	sp.gen = func(i int64) (core.Files, core.Files) {
		sa, sb := devSets[i/nb], sets[i%nb]
		if model == "ASA" {
			return core.Files{Main: asaIntf + text(sa)}, core.Files{Main: text(sb)}
		}
		return core.Files{Main: text(sa)}, core.Files{Main: text(sb)}
	}
	return sp
}

// ---------------------------------------------------------------------
// C14

func c14Worker(ctx *core.Ctx) *core.Result {
	x := newApprovex(ctx, "C14", oracles{packets: true})
	defer x.sc.Close()
	x.runSpaces([]*space{
		aclPairSpace("ASA", "acl-asa", c14Lines, 7, 3, false),
		aclPairSpace("IOS", "acl-ios", c14Lines, 7, 3, false),
		// length 4 over five lines: two overlapping denies, three permits
		aclPairSpace("ASA", "acl-asa4", c14Lines4, 5, 4, false),
		aclPairSpace("IOS", "acl-ios4", c14Lines4, 5, 4, false),
		aclPairSpace("IOS", "acl-ios-remark", c14LinesRemark, 5, 4, false),
		aclPairSpace("ASA", "acl-asa-remark", c14LinesRemark, 5, 4, false),
		aclGroupSpace(),
		// merged target: two raw blocks of the ACL + the Netspoc lines
		iosRawBlocksSpace("raw-blocks-ios", iosC14Lines(), 6, 3),
	})
	if ctx.Thorough() {
		// extended spaces: a superset of the quick ones, own names so that
		// case hashes of the quick spaces stay stable
		x.runSpaces([]*space{
			aclPairSpace("ASA", "acl-asa-x", c14Lines, 8, 4, false),
			aclPairSpace("IOS", "acl-ios-x", c14Lines, 8, 4, false),
		})
	}
	x.orc = oracles{routes: true}
	x.runSpaces([]*space{routePairSpace("ASA"), routePairSpace("IOS")})
	for _, f := range c14Extra {
		f(ctx, x.res)
	}
	return x.res
}

var c14Extra []func(ctx *core.Ctx, res *core.Result)

func init() {
	registerSharded("C14", c14Worker, func(tier string) core.Meta {
		return core.Meta{ID: "C14", Level: "model_checking",
			Rule: "states = distinct device-model states in which the invariants were evaluated (per worker, summed); all pairs (old ACL, new ACL) of duplicate-free sequences over an overlapping line alphabet (ASA and IOS), all pairs of route subsets; transition = real planner (device.CompareFiles) + reference device model executing the script; after every script line all 18 packets are evaluated first-match (implicit deny) and every destination with a route before and after must still have one; non-trivial = script non-empty",
			Assumptions: []string{
				"ACL semantics: first match, implicit deny; joined two-command lines are one step (sent in one packet to the device)",
				"packet universe 3 sources x 2 destinations x {tcp/22,tcp/80,udp/53}; no object-groups (excluded by the statement)",
			},
			Bounds: map[string]any{"quick": "len<=3 over 7 lines and len<=4 over 5 lines", "thorough": "len<=4 over 8 lines", "routes": "all subset pairs of 8 routes (ASA, IOS), 9 x 7 routes (Linux), incl. prefixes that share the network address"},
		}
	}, 150*time.Second, 40*time.Minute)
}

var _ = sort.Strings

// runChain: breadth-first chain of approves (shard 0 only; the chain is
// small).  States are printed device states; successors: approve towards
// every target of the set.  Reaches states (left-over generated names,
// -DRC-n indices) that no initial state has.
func (x *approvex) runChain(model string, ctx *core.Ctx) {
	if ctx.Shard != 0 {
		return
	}
	depth := 2
	if ctx.Thorough() {
		depth = 3
	}
	var inits []string
	var targets []string
	if model == "ASA" {
		inits = []string{
			asaIntf,
			asaIntf + groupsFor([]int{0, 3, 5}, c01Lines) + asaACLText("inside_in", []int{0, 3, 5}, c01Lines),
			asaIntf + vpnText(1+4*1, "-DRC-0"),
			asaIntf + groupText("g1-DRC-0", 3) + groupText("g1-DRC-1", 5) + groupText("g2-DRC-0", 3),
		}
		targets = []string{
			groupsFor([]int{3, 5}, c01Lines) + asaACLText("inside_in", []int{3, 5}, c01Lines),
			groupsFor([]int{0, 3, 6, 5}, c01Lines) + asaACLText("inside_in", []int{0, 3, 6, 5}, c01Lines),
			groupText("g1", 5) + groupText("g2", 3) + "access-list inside_in extended permit ip object-group g1 any4\naccess-list inside_in extended permit ip any4 object-group g2\naccess-group inside_in in interface inside\n",
			groupText("g1", 3) + groupText("g2", 3) + "access-list inside_in extended permit ip object-group g1 any4\naccess-list inside_in extended permit ip any4 object-group g2\naccess-group inside_in in interface inside\n",
			vpnText(1+4*2+16*1, ""),
			vpnText(2+4*3+16*2+64*1, ""),
			asaACLText("inside_in", []int{1, 0}, c01Lines) + asaRoutes[0] + "\n" + asaRoutes[2] + "\n",
			asaACLText("inside_in", []int{0, 1, 5}, c01Lines) + asaRoutes[1] + "\n",
		}
	} else {
		e0 := iosIntf("Ethernet0", "10.0.0.1", "ip access-group inside_in in")
		inits = []string{
			iosIntf("Ethernet0", "10.0.0.1"),
			iosACLBody("inside_in", []int{0, 2, 3}, c02Lines, false) + e0,
			iosACLBody("inside_in-DRC-0", []int{1, 3}, c02Lines, true) + iosIntf("Ethernet0", "10.0.0.1", "ip access-group inside_in-DRC-0 in"),
		}
		targets = []string{
			iosACLBody("inside_in", []int{0, 3}, c02Lines, false) + e0,
			iosACLBody("inside_in", []int{1, 0, 2, 3}, c02Lines, false) + e0,
			iosACLBody("inside_in", []int{2, 0, 7, 1}, c02Lines, false) + e0,
			iosACLBody("inside_in", []int{7, 2, 4}, c02Lines, false) + iosACLBody("e0_out", []int{0, 3}, c02Lines, false) +
				iosIntf("Ethernet0", "10.0.0.1", "ip access-group inside_in in", "ip access-group e0_out out"),
			iosACLBody("other", []int{0, 3}, c02Lines, false) + iosIntf("Ethernet0", "10.0.0.1", "ip access-group other in") + iosRoutes[0] + "\n",
			iosACLBody("inside_in", []int{0, 3}, c02Lines, false) + e0 + iosRoutes[1] + "\n" + iosRoutes[2] + "\n",
		}
	}
	sp := &space{name: "chain", model: model}
	seen := map[string]int{}
	frontier := inits
	for _, s := range inits {
		seen[s] = 0
	}
	var serial int64
	deeper := 0
	for d := 1; d <= depth; d++ {
		var next []string
		for _, st := range frontier {
			for _, t := range targets {
				if x.ctx.Expired() {
					x.res.Incomplete = append(x.res.Incomplete, fmt.Sprintf("deadline in chain %s depth %d", model, d))
					return
				}
				serial++
				after := x.runCase(sp, serial, core.Files{Main: st}, core.Files{Main: t})
				if after == nil {
					continue
				}
				after.ResetSession()
				p := after.Print()
				if _, ok := seen[p]; !ok {
					seen[p] = d
					next = append(next, p)
					if d >= 2 {
						deeper++
					}
				}
			}
		}
		frontier = next
	}
	x.res.Count("chain_states_"+model, int64(len(seen)))
	x.res.Count("chain_states_first_reached_at_depth>=2_"+model, int64(deeper))
	x.res.Count("chain_max_depth_"+model, int64(depth))
}

// semDiffKind names the kinds of anchors on which two views differ.
func semDiffKind(a, b *ciscomodel.Dev, sc *ciscomodel.Scope) string {
	sa, sb := a.Sem(sc), b.Sem(sc)
	inA, inB := map[string]bool{}, map[string]bool{}
	for _, s := range sa {
		inA[s] = true
	}
	for _, s := range sb {
		inB[s] = true
	}
	kinds := map[string]bool{}
	kind := func(s string) string {
		w := strings.Fields(s)
		if len(w) == 0 {
			return ""
		}
		if w[0] == "crypto" && len(w) > 1 {
			return "crypto-" + w[1]
		}
		if w[0] == "interface" && len(w) > 2 {
			return "interface-" + strings.Join(w[2:min(4, len(w))], "-")
		}
		return w[0]
	}
	for _, s := range sa {
		if !inB[s] && s != "" {
			kinds["dev+"+kind(s)] = true
		}
	}
	for _, s := range sb {
		if !inA[s] && s != "" {
			kinds["tgt+"+kind(s)] = true
		}
	}
	var l []string
	for k := range kinds {
		l = append(l, k)
	}
	sort.Strings(l)
	return strings.Join(l, ",")
}

func scriptKind(script []string) string {
	kinds := map[string]bool{}
	for _, line := range script {
		w := strings.Fields(line)
		k := w[0]
		if k == "no" && len(w) > 1 {
			k = "no-" + w[1]
		}
		// sequence numbers vary with the position: abstract them
		k = strings.Map(func(r rune) rune {
			if r >= '0' && r <= '9' {
				return -1
			}
			return r
		}, k)
		k = strings.TrimSuffix(k, "\\N")
		if k == "" || k == "no-" {
			k += "SEQ"
		}
		kinds[k] = true
	}
	var l []string
	for k := range kinds {
		l = append(l, k)
	}
	sort.Strings(l)
	if len(l) > 4 {
		l = l[:4]
	}
	return strings.Join(l, ",")
}

// remarkFlag marks IOS cases whose ACLs contain remark lines (the block
// logic of the tool treats a remark as member of the preceding block).
func remarkFlag(ios bool, a, b core.Files) string {
	if ios && (strings.Contains(a.Main, " remark ") || strings.Contains(b.Main, " remark ") ||
		strings.Contains(b.Raw, " remark ")) {
		return ":with-remark"
	}
	return ""
}

// rejectSig abstracts the tool's first ERROR line: names and numbers are
// dropped so that one message form is one signature.
func rejectSig(stderr string) string {
	for _, l := range strings.Split(stderr, "\n") {
		if strings.HasPrefix(l, "ERROR>>> ") {
			l = strings.TrimPrefix(l, "ERROR>>> ")
			if i := strings.Index(l, " in crypto map "); i >= 0 {
				l = l[:i+len(" in crypto map")]
			}
			return execSig(fmt.Errorf("%s", l))
		}
	}
	return execSig(fmt.Errorf("%s", firstLine(stderr)))
}
