package engines

import (
	"strings"

	"verif/harness/internal/core"
)

// Noise spaces: the device of a base pair gets one block of configuration
// the tool does not model (a toplevel command with indented sub-commands)
// inserted at every toplevel position.  The ordinary oracles apply; on top
// the emitted script must be the one the tool emits without the block
// (checked by runNoise).

var asaNoise = []string{
	"object-group icmp-type unm-icmp\n icmp-object echo\n icmp-object echo-reply\n",
	"class-map inspection_default\n match default-inspection-traffic\n",
	"policy-map global_policy\n class inspection_default\n  inspect dns\n  inspect ftp\n",
	"object network unm-obj\n host 10.99.99.99\n",
	"ntp server 10.1.1.1\n",
}

var iosNoise = []string{
	"class-map match-any cm1\n match protocol http\n",
	"line vty 0 4\n transport input ssh\n exec-timeout 5 0\n",
	"router ospf 1\n network 10.0.0.0 0.255.255.255 area 0\n",
	"ntp server 10.1.1.1\n",
	// unmodelled sections whose lines look like ACL entries
	"ipv6 access-list unm6\n permit ipv6 host 1000::1 any\n deny ipv6 any any\n",
	"ip access-list standard unm-std\n permit 10.9.9.0 0.0.0.255\n deny any\n",
	// banners as 'sh run' prints them: on one line, over several lines,
	// a one-line banner followed by another one
	"banner login ^CAuthorized access only^C\n",
	"banner motd ^C\nmaintenance on friday\n^C\n",
	"banner exec ^CWelcome^C\nbanner motd ^C\n interface of the week\n^C\n",
}

// toplevelPositions returns the byte offsets at which a toplevel block
// starts, plus the end of the text.
func toplevelPositions(text string) []int {
	var pos []int
	off := 0
	for _, l := range strings.SplitAfter(text, "\n") {
		if l != "" && l[0] != ' ' {
			pos = append(pos, off)
		}
		off += len(l)
	}
	return append(pos, len(text))
}

type noiseCase struct {
	model      string
	plain, dev core.Files
	tgt        core.Files
}

func noiseCases(model string) []noiseCase {
	var bases [][2]string // device, target
	noise := asaNoise
	if model == "ASA" {
		grp := func(hosts ...string) string {
			s := "object-group network g1-DRC-0\n"
			for _, h := range hosts {
				s += " network-object host " + h + "\n"
			}
			return s + "access-list inside_in-DRC-0 extended permit ip object-group g1-DRC-0 any4\naccess-list inside_in-DRC-0 extended deny ip any4 any4\naccess-group inside_in-DRC-0 in interface inside\n"
		}
		tg := func(hosts ...string) string {
			return strings.ReplaceAll(grp(hosts...), "-DRC-0", "")
		}
		codes := []int{1 + 4 + 16 + 64, 2 + 8 + 32 + 128, 1 + 8 + 16 + 128, 3 + 4 + 48 + 64}
		for _, cd := range codes {
			for _, ct := range codes {
				bases = append(bases, [2]string{asaIntf + vpnText(cd, "-DRC-0"), vpnText(ct, "")})
			}
		}
		bases = append(bases, [2]string{asaIntf + grp("10.1.1.10", "10.1.1.11"), tg("10.1.1.10", "10.1.1.11")},
			[2]string{asaIntf + grp("10.1.1.10", "10.1.1.11"), tg("10.1.1.10", "10.1.1.12")},
			[2]string{asaIntf + grp("10.1.1.10"), tg("10.1.1.10", "10.1.1.11", "10.1.1.12")})
	} else {
		noise = iosNoise
		for _, sa := range [][]int{{0, 3}, {1, 0, 3}, {4, 2, 3}} {
			for _, sb := range [][]int{{0, 3}, {1, 0, 3}, {0, 1, 2, 3}} {
				bases = append(bases, [2]string{
					iosACLBody("inside_in", sa, c02Lines, false) + iosIntf("Ethernet0", "10.0.0.1", "ip access-group inside_in in") + "ip route 10.20.0.0 255.255.0.0 10.0.0.2\n",
					iosACLBody("inside_in", sb, c02Lines, false) + iosIntf("Ethernet0", "10.0.0.1", "ip access-group inside_in in") + "ip route 10.20.0.0 255.255.0.0 10.0.0.3\n"})
			}
		}
	}
	var out []noiseCase
	for _, b := range bases {
		for _, n := range noise {
			for _, p := range toplevelPositions(b[0]) {
				out = append(out, noiseCase{model: model, plain: core.Files{Main: b[0]},
					dev: core.Files{Main: b[0][:p] + n + b[0][p:]}, tgt: core.Files{Main: b[1]}})
			}
		}
	}
	return out
}

func noiseSpace(model string) *space {
	cases := noiseCases(model)
	sp := &space{name: "noise", model: model, n: int64(len(cases))}
	sp.gen = func(i int64) (core.Files, core.Files) { return cases[i].dev, cases[i].tgt }
	return sp
}

// runNoise: metamorphic part - the script for the device with the
// unmodelled block equals the script for the device without it.
func (x *approvex) runNoise(model string, base int64) {
	sp := &space{name: "noise-script", model: model}
	for i, c := range noiseCases(model) {
		if !x.ctx.Mine(base + int64(i)) {
			continue
		}
		x.res.Evaluations++
		o1 := x.sc.Compare(model, c.plain, c.tgt)
		o2 := x.sc.Compare(model, c.dev, c.tgt)
		x.res.Transitions += 2
		x.res.Count("space:noise-script", 1)
		if o1.Status != 0 {
			continue
		}
		x.res.Nontrivial++
		if o2.Status != o1.Status || strings.Join(o2.Script(), "\n") != strings.Join(o1.Script(), "\n") {
			x.violation(sp, int64(i), c.dev, c.tgt, o2.Script(), 0, "unmodelled-block-is-inert", "noise-changes-script",
				"the script differs from the one emitted without the unmodelled block:\n"+strings.Join(o1.Script(), "\n")+"\n--- exit "+
					short(o2.Stderr, 300))
		}
	}
}
