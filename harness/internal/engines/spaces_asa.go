package engines

import (
	"verif/harness/internal/ciscomodel"
	"strconv"
	"sort"
	"fmt"
	"strings"

	"verif/harness/internal/core"
	"verif/harness/internal/corpus"
)

// ---------------------------------------------------------------------
// ASA spaces for C01 / C08 / C10 / C07.

// line alphabet for convergence: overlaps, two lines referencing groups,
// two lines equal up to "log".
var c01Lines = []string{
	"permit ip host 10.1.1.1 any4",
	"deny ip 10.1.1.0 255.255.255.0 any4",
	"permit tcp any4 host 10.9.9.1 eq 80",
	"permit ip object-group g1 any4",
	"permit tcp any4 host 10.9.9.1 eq 80 log",
	"deny ip any4 any4",
	"permit ip any4 object-group g2",
	"permit udp host 10.1.1.1 any4 eq 53 log warnings",
}

const c01Groups = "object-group network g1\n network-object host 10.1.1.10\n network-object host 10.1.1.11\n" +
	"object-group network g2\n network-object 10.2.0.0 255.255.0.0\n"

func groupsFor(seq []int, lines []string) string {
	var b strings.Builder
	use1, use2 := false, false
	for _, i := range seq {
		if strings.Contains(lines[i], "object-group g1") {
			use1 = true
		}
		if strings.Contains(lines[i], "object-group g2") {
			use2 = true
		}
	}
	if use1 {
		b.WriteString("object-group network g1\n network-object host 10.1.1.10\n network-object host 10.1.1.11\n")
	}
	if use2 {
		b.WriteString("object-group network g2\n network-object 10.2.0.0 255.255.0.0\n")
	}
	return b.String()
}

// c01ACLSpace: all pairs of duplicate-free sequences (a sequence must not
// contain two lines equal up to log, a device cannot hold both).
func c01ACLSpace(name string, nLines, maxLen int) *space {
	all := seqs(nLines, 1, maxLen)
	var sq [][]int
	for _, s := range all {
		has2, has4 := false, false
		for _, i := range s {
			if i == 2 {
				has2 = true
			}
			if i == 4 {
				has4 = true
			}
		}
		if !(has2 && has4) {
			sq = append(sq, s)
		}
	}
	as := append([][]int{{}}, sq...)
	nb := int64(len(sq))
	sp := &space{name: name, model: "ASA", n: int64(len(as)) * nb}
	sp.gen = func(i int64) (core.Files, core.Files) {
		sa, sb := as[i/nb], sq[i%nb]
		return core.Files{Main: asaIntf + groupsFor(sa, c01Lines) + asaACLText("inside_in", sa, c01Lines)},
			core.Files{Main: groupsFor(sb, c01Lines) + asaACLText("inside_in", sb, c01Lines)}
	}
	return sp
}

var grpMembers = []string{
	"network-object host 10.1.1.10",
	"network-object host 10.1.1.11",
	"network-object 10.1.2.0 255.255.255.0",
	"network-object host 10.1.1.12",
}

func groupText(name string, mask int) string {
	var b strings.Builder
	fmt.Fprintf(&b, "object-group network %s\n", name)
	for i, m := range grpMembers {
		if mask&(1<<uint(i)) != 0 {
			b.WriteString(" " + m + "\n")
		}
	}
	return b.String()
}

// c01GroupSpace: two ACL lines referencing groups; device and target group
// contents range over all non-empty subsets of a member universe; naming
// variants force name clashes, shared and left-over groups.
func c01GroupSpace(name string, universe int) *space {
	nsub := int64(1<<uint(universe)) - 1 // non-empty subsets
	const namings = 5
	const shapes = 3
	n := nsub * nsub * nsub * nsub * namings * shapes
	sp := &space{name: name, model: "ASA", n: n}
	sp.gen = func(i int64) (core.Files, core.Files) {
		d1 := int(i%nsub) + 1
		i /= nsub
		d2 := int(i%nsub) + 1
		i /= nsub
		t1 := int(i%nsub) + 1
		i /= nsub
		t2 := int(i%nsub) + 1
		i /= nsub
		naming := int(i % namings)
		i /= namings
		shape := int(i)
		var a, b strings.Builder
		a.WriteString(asaIntf)
		n1, n2 := "g1", "g2"
		switch naming {
		case 1:
			n1, n2 = "g1-DRC-0", "g2-DRC-0"
		case 2: // one device group shared by both lines
			n1, n2 = "gs-DRC-0", "gs-DRC-0"
		case 4: // names swapped relative to the target
			n1, n2 = "g2", "g1"
		}
		a.WriteString(groupText(n1, d1))
		if n2 != n1 {
			a.WriteString(groupText(n2, d2))
		}
		if naming == 3 { // identical left-over generated groups
			a.WriteString(groupText("g9-DRC-0", t1))
			a.WriteString(groupText("g9-DRC-1", t1))
			a.WriteString(groupText("g1-DRC-0", t2))
		}
		fmt.Fprintf(&a, "access-list inside_in extended permit ip object-group %s any4\n", n1)
		fmt.Fprintf(&a, "access-list inside_in extended permit ip any4 object-group %s\n", n2)
		a.WriteString("access-group inside_in in interface inside\n")
		b.WriteString(groupText("g1", t1))
		b.WriteString(groupText("g2", t2))
		l1 := "access-list inside_in extended permit ip object-group g1 any4\n"
		l2 := "access-list inside_in extended permit ip any4 object-group g2\n"
		switch shape {
		case 0:
			b.WriteString(l1 + l2)
		case 1:
			b.WriteString(l2 + l1)
		case 2:
			b.WriteString(l1 + "access-list inside_in extended deny ip any4 any4\n" + l2)
		}
		b.WriteString("access-group inside_in in interface inside\n")
		return core.Files{Main: a.String()}, core.Files{Main: b.String()}
	}
	return sp
}

// binding variants
func asaBindSpace() *space {
	acl := func(name string, v int) string {
		l := []string{"permit ip host 10.1.1.1 any4", "deny ip any4 any4"}
		if v == 1 {
			l = []string{"permit tcp any4 host 10.9.9.1 eq 80", "permit ip host 10.1.1.1 any4", "deny ip any4 any4"}
		}
		var b strings.Builder
		for _, x := range l {
			fmt.Fprintf(&b, "access-list %s extended %s\n", name, x)
		}
		return b.String()
	}
	type variant func(va, vb int, dev bool) string
	nm := func(n string, dev bool) string {
		if dev {
			return n + "-DRC-0"
		}
		return n
	}
	variants := []variant{
		func(va, vb int, dev bool) string {
			A := nm("inside_in", dev)
			return acl(A, va) + "access-group " + A + " in interface inside\n"
		},
		func(va, vb int, dev bool) string {
			A := nm("inside_in", dev)
			return acl(A, va) + "access-group " + A + " in interface inside\naccess-group " + A + " in interface outside\n"
		},
		func(va, vb int, dev bool) string {
			A, B := nm("inside_in", dev), nm("outside_in", dev)
			return acl(A, va) + acl(B, vb) + "access-group " + A + " in interface inside\naccess-group " + B + " in interface outside\n"
		},
		func(va, vb int, dev bool) string {
			A, B := nm("inside_in", dev), nm("inside_out", dev)
			return acl(A, va) + acl(B, vb) + "access-group " + A + " in interface inside\naccess-group " + B + " out interface inside\n"
		},
		func(va, vb int, dev bool) string {
			A, B := nm("inside_in", dev), nm("global", dev)
			return acl(A, va) + acl(B, vb) + "access-group " + A + " in interface inside\naccess-group " + B + " global\n"
		},
		func(va, vb int, dev bool) string { // two ACLs with identical content
			A, B := nm("inside_in", dev), nm("outside_in", dev)
			return acl(A, va) + acl(B, va) + "access-group " + A + " in interface inside\naccess-group " + B + " in interface outside\n"
		},
	}
	per := int64(len(variants) * 4)
	sp := &space{name: "bind", model: "ASA", n: per * per * 2}
	sp.gen = func(i int64) (core.Files, core.Files) {
		devNames := i%2 == 1
		i /= 2
		ia, ib := i/per, i%per
		mk := func(k int64, dev bool) string {
			v := variants[k/4]
			return v(int(k%4)/2, int(k%4)%2, dev)
		}
		return core.Files{Main: asaIntf + mk(ia, devNames)}, core.Files{Main: mk(ib, false)}
	}
	return sp
}

// spelling variants: device spelling vs Netspoc spelling of the same line
// and of a line with one changed value.
var asaSpell = [][3]string{
	// device spelling, Netspoc spelling (equal), Netspoc spelling (changed)
	{"access-list inside_in extended permit tcp any4 host 10.9.9.1 eq www", "access-list inside_in extended permit tcp any4 host 10.9.9.1 eq 80", "access-list inside_in extended permit tcp any4 host 10.9.9.1 eq 81"},
	{"access-list inside_in extended permit udp any4 host 10.9.9.1 eq domain", "access-list inside_in extended permit udp any4 host 10.9.9.1 eq 53", "access-list inside_in extended permit udp any4 host 10.9.9.1 eq 54"},
	{"access-list inside_in extended permit tcp any4 host 10.9.9.1 range ftp-data ftp", "access-list inside_in extended permit tcp any4 host 10.9.9.1 range 20 21", "access-list inside_in extended permit tcp any4 host 10.9.9.1 range 20 22"},
	{"access-list inside_in extended permit gre any4 host 10.9.9.1", "access-list inside_in extended permit 47 any4 host 10.9.9.1", "access-list inside_in extended permit 48 any4 host 10.9.9.1"},
	{"access-list inside_in extended permit icmp any4 host 10.9.9.1 echo", "access-list inside_in extended permit icmp any4 host 10.9.9.1 8", "access-list inside_in extended permit icmp any4 host 10.9.9.1 0"},
	{"access-list inside_in extended permit icmp any4 host 10.9.9.1 unreachable 13", "access-list inside_in extended permit icmp any4 host 10.9.9.1 3 13", "access-list inside_in extended permit icmp any4 host 10.9.9.1 3 12"},
	{"access-list inside_in extended permit ip 10.1.1.1 255.255.255.255 any4", "access-list inside_in extended permit ip host 10.1.1.1 any4", "access-list inside_in extended permit ip host 10.1.1.2 any4"},
	{"access-list inside_in extended permit ip 0.0.0.0 0.0.0.0 host 10.9.9.1", "access-list inside_in extended permit ip any4 host 10.9.9.1", "access-list inside_in extended permit ip any4 host 10.9.9.2"},
	{"access-list inside_in extended permit ip any6 1000::1/128", "access-list inside_in extended permit ip any6 host 1000::1", "access-list inside_in extended permit ip any6 host 1000::2"},
	{"access-list inside_in extended permit ip ::/0 host 1000::1", "access-list inside_in extended permit ip any6 host 1000::1", "access-list inside_in extended permit ip any6 host 1000::3"},
	{"access-list inside_in extended permit ip any4 host 10.9.9.1 log informational", "access-list inside_in extended permit ip any4 host 10.9.9.1 log", "access-list inside_in extended permit ip any4 host 10.9.9.1 log 5"},
	{"access-list inside_in extended permit ip any4 host 10.9.9.1 log warnings", "access-list inside_in extended permit ip any4 host 10.9.9.1 log 4", "access-list inside_in extended permit ip any4 host 10.9.9.1 log 3"},
	{"access-list inside_in extended permit icmp any4 host 10.9.9.1 40 0 log warnings", "access-list inside_in extended permit icmp any4 host 10.9.9.1 40 0 log 4", "access-list inside_in extended permit icmp any4 host 10.9.9.1 40 0 log 3"},
	{"access-list inside_in extended permit icmp any4 host 10.9.9.1 40 log warnings", "access-list inside_in extended permit icmp any4 host 10.9.9.1 40 log 4", "access-list inside_in extended permit icmp any4 host 10.9.9.1 41 log 4"},
	{"access-list inside_in extended permit tcp any4 eq ssh host 10.9.9.1", "access-list inside_in extended permit tcp any4 eq 22 host 10.9.9.1", "access-list inside_in extended permit tcp any4 eq 23 host 10.9.9.1"},
	{"access-list inside_in extended permit 6 any4 host 10.9.9.1 eq 80", "access-list inside_in extended permit tcp any4 host 10.9.9.1 eq 80", "access-list inside_in extended permit tcp any4 host 10.9.9.1 eq 82"},
}

// every ICMPv6 type name and every ICMP type name of the ASA: printed by
// name on the device, given by number in the target (equal / next number)
func init() {
	add := func(proto, dst string, names map[string]string, only map[string]bool) {
		var l []string
		for n := range names {
			l = append(l, n)
		}
		sort.Strings(l)
		for _, n := range l {
			v := names[n]
			if strings.Contains(v, " ") || (only != nil && !only[n]) {
				continue // type + code names are IOS only
			}
			k, _ := strconv.Atoi(v)
			pre := "access-list inside_in extended permit " + proto + " " + dst + " "
			asaSpell = append(asaSpell, [3]string{pre + n, pre + v, pre + strconv.Itoa(k+1)})
		}
	}
	add("icmp6", "any6 host 1000::1", ciscomodel.Icmp6Names(), nil)
	add("icmp", "any4 host 10.9.9.1", ciscomodel.IcmpNames(), map[string]bool{"echo-reply": true, "unreachable": true, "source-quench": true, "redirect": true,
		"alternate-address": true, "echo": true, "router-advertisement": true, "router-solicitation": true, "time-exceeded": true, "parameter-problem": true,
		"timestamp-request": true, "timestamp-reply": true, "information-request": true, "information-reply": true, "mask-request": true, "mask-reply": true,
		"traceroute": true, "conversion-error": true, "mobile-redirect": true})
}

func asaSpellSpace() *space {
	n := int64(len(asaSpell))
	sp := &space{name: "spell", model: "ASA", n: n * 4}
	sp.gen = func(i int64) (core.Files, core.Files) {
		e := asaSpell[i/4]
		bind := "access-group inside_in in interface inside\n"
		keep := "access-list inside_in extended deny ip any4 any4\n"
		var a, b string
		switch i % 4 {
		case 0: // device spelling vs equal Netspoc spelling
			a, b = e[0], e[1]
		case 1: // device spelling vs changed value
			a, b = e[0], e[2]
		case 2: // Netspoc spelling on device (as left by an earlier approve) vs equal
			a, b = e[1], e[1]
		case 3:
			a, b = e[1], e[2]
		}
		return core.Files{Main: asaIntf + a + "\n" + keep + bind}, core.Files{Main: b + "\n" + keep + bind}
	}
	return sp
}

// corpusSpace: every device state of the repository's tests (DEVICE
// blocks and NETSPOC blocks used as device) against every NETSPOC target
// of the same device type.
func corpusSpace(model string) *space {
	cases, err := corpus.Load()
	if err != nil {
		panic(err)
	}
	var devs []string
	var targets []core.Files
	seenD := map[string]bool{}
	seenT := map[string]bool{}
	for _, c := range cases {
		if c.Model != model || c.Scenario != "" {
			continue
		}
		// the generated 10 000 line ACLs of ios_long-acl.t are left out
		// of the product (quadratic cost, no additional structure)
		if strings.Count(c.Device, "\n") > 400 || strings.Count(c.Netspoc.Main, "\n") > 400 {
			continue
		}
		if c.Device != "" && !seenD[c.Device] {
			seenD[c.Device] = true
			devs = append(devs, c.Device)
		}
		key := c.Netspoc.Main + "\x00" + c.Netspoc.V6 + "\x00" + c.Netspoc.Raw + "\x00" + c.Netspoc.Info
		if !seenT[key] && len(c.Extra) == 0 {
			seenT[key] = true
			targets = append(targets, c.Netspoc)
		}
	}
	for _, t := range append([]core.Files(nil), targets...) {
		if t.Main != "" && !seenD[t.Main] {
			seenD[t.Main] = true
			devs = append(devs, t.Main)
		}
	}
	nb := int64(len(targets))
	sp := &space{name: "corpus", model: model, n: int64(len(devs)) * nb}
	sp.gen = func(i int64) (core.Files, core.Files) {
		return core.Files{Main: devs[i/nb]}, targets[i%nb]
	}
	return sp
}

// asaSharedGroupSpace: one object-group referenced from the ACLs of two
// interfaces (once in the inside ACL, whose only line also varies in its log
// attribute so that the whole ACL is replaced; in the outside ACL in any
// sub-sequence of three lines, one of which names the group twice).  The
// device may hold a second, identical group that the inside ACL uses (as
// left by an interrupted run), and lists the two access-group lines in
// either order.
func asaSharedGroupSpace() *space {
	outLines := []string{
		"permit ip host 10.0.1.14 host 10.0.0.5",
		"permit ip object-group %G object-group %G",
		"permit tcp object-group %G host 10.0.1.9 eq 81",
	}
	sq := seqs(len(outLines), 0, 3)
	n := int64(len(sq))
	contents := []int{7, 5} // member masks over grpMembers
	text := func(seq []int, log bool, mask int, sfx string, dup, outFirst bool) string {
		var b strings.Builder
		g := "g0" + sfx
		gi := g
		b.WriteString(groupText(g, mask))
		if dup {
			gi = "g0-DRC-1"
			b.WriteString(groupText(gi, mask))
		}
		l := "access-list inside_in" + sfx + " extended permit tcp host 10.0.1.7 object-group " + gi
		if log {
			l += " log"
		}
		b.WriteString(l + "\n")
		if dup {
			// the replaced ACL of the interrupted run is still there, unbound
			b.WriteString("access-list inside_in-DRC-9 extended permit tcp host 10.0.1.7 object-group " + g + " log\n")
		}
		for _, i := range seq {
			gl := g
			if dup && i == 2 {
				gl = gi // the line added by the interrupted run
			}
			b.WriteString("access-list outside_in" + sfx + " extended " + strings.ReplaceAll(outLines[i], "%G", gl) + "\n")
		}
		in := "access-group inside_in" + sfx + " in interface inside\n"
		out := ""
		if len(seq) > 0 {
			out = "access-group outside_in" + sfx + " in interface outside\n"
		}
		if outFirst {
			b.WriteString(out + in)
		} else {
			b.WriteString(in + out)
		}
		return b.String()
	}
	sp := &space{name: "shared-group", model: "ASA", n: n * n * 32}
	sp.gen = func(i int64) (core.Files, core.Files) {
		bit := func() bool {
			v := i%2 == 1
			i /= 2
			return v
		}
		dlog, tlog, other, dup, outFirst := bit(), bit(), bit(), bit(), bit()
		dmask := contents[0]
		if other {
			dmask = contents[1]
		}
		return core.Files{Main: asaIntf + text(sq[i/n], dlog, dmask, "-DRC-0", dup, outFirst)},
			core.Files{Main: text(sq[i%n], tlog, contents[0], "", false, false)}
	}
	return sp
}
