package engines

import (
	"fmt"
	"strings"

	"verif/harness/internal/ciscomodel"
	"verif/harness/internal/core"
)

// ciscoStep is the result of running the real planner on (A,B) and
// executing its script on the reference model.
type ciscoStep struct {
	Out      core.Outcome
	Script   []string // script lines (joined lines kept as one element)
	After    *ciscomodel.Dev
	ExecErr  error // first rejected command
	ExecStep int   // index into the flattened command list
	ExecCmd  string
	Cmds     []string // flattened commands
}

func flatten(script []string) []string {
	var l []string
	for _, line := range script {
		l = append(l, core.SplitJoined(line)...)
	}
	return l
}

// execScript executes the script on m; perLine (if not nil) is called after
// each script *line* (a joined line counts once) with the line index.
func execScript(m *ciscomodel.Dev, script []string, perLine func(i int, m *ciscomodel.Dev) error) (step int, cmd string, err error) {
	n := 0
	for i, line := range script {
		for _, c := range core.SplitJoined(line) {
			if e := m.Exec(c); e != nil {
				return n, c, e
			}
			n++
		}
		if perLine != nil {
			if e := perLine(i, m); e != nil {
				return n - 1, line, e
			}
		}
	}
	return -1, "", nil
}

func inputsOf(a, b core.Files) map[string]string {
	m := map[string]string{"device": a.Main, "code": b.Main}
	if a.V6 != "" {
		m["device6"] = a.V6
	}
	if a.Raw != "" {
		m["deviceraw"] = a.Raw
	}
	if b.V6 != "" {
		m["code6"] = b.V6
	}
	if b.Raw != "" {
		m["raw"] = b.Raw
	}
	if b.Info != "" {
		m["info"] = b.Info
	}
	return m
}

func short(s string, n int) string {
	if len(s) > n {
		return s[:n] + "..."
	}
	return s
}

func firstLine(s string) string {
	s = strings.TrimSpace(s)
	if i := strings.Index(s, "\n"); i >= 0 {
		return s[:i]
	}
	return s
}

func fmtErr(format string, a ...any) string { return fmt.Sprintf(format, a...) }
