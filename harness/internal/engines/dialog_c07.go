//go:build verif

package engines

import (
	"fmt"

	"verif/harness/internal/core"
)

// C07, NSX part: objects whose id lacks the Netspoc prefix are filtered
// while the manager is read; so the frame condition is checked end to end:
// approve runs (both front ends, changes pending and not) against a manager
// that also holds a foreign policy, foreign groups (one with a look-alike
// id) and a foreign service; after the run they must be unchanged.
func init() {
	c07Extra = func(ctx *core.Ctx, res *core.Result) {
		if ctx.Shard != 0 {
			return
		}
		x := &dialogx{ctx: ctx, res: res, scr: core.NewScratch("C07n"), prop: "C07"}
		defer x.close()
		for _, front := range []string{"drc", "do-approve"} {
			for _, pending := range []bool{true, false} {
				sc := baseScenario("NSX", front)
				if !pending {
					sc = unchangedScenario("NSX", front)
				}
				sc.name += "/foreign-objects"
				sc.nsxExtra = true
				r := runDialogue(x.scr, sc, runOpts{})
				res.Evaluations++
				res.Nontrivial++
				c := &dcase{sc: sc, dev: map[int]string{}, desc: "nsx-foreign"}
				if r.foreignBefore != r.foreignAfter {
					x.violation(c, r, "frame", "frame:nsx-foreign-object-changed", "objects without the Netspoc prefix changed:\n"+r.foreignAfter+"\n--- before\n"+r.foreignBefore)
				} else if r.exit != 0 {
					x.violation(c, r, "frame", "frame:nsx-approve-failed-with-foreign-objects", "approve failed on a manager that also holds foreign objects")
				}
				res.Outcome("nsx-foreign ok")
			}
			// the hand-written raw file names a policy without the Netspoc
			// prefix; the manager holds an unmanaged policy of that id (never
			// read by the tool): it must not be overwritten - either the raw
			// file is rejected or the policy stays as it is
			sc := baseScenario("NSX", front)
			sc.name += "/raw-policy-with-foreign-id"
			sc.nsxExtra = true
			sc.target.Raw = `{"policies":[{"id":"manual-policy","resource_type":"GatewayPolicy","rules":[{"id":"raw1","action":"ALLOW","sequence_number":7,` +
				`"source_groups":["ANY"],"destination_groups":["ANY"],"services":["ANY"],"scope":["/infra/tier-0s/v1"],"direction":"OUT"}]}]}`
			r := runDialogue(x.scr, sc, runOpts{})
			res.Evaluations++
			res.Nontrivial++
			c := &dcase{sc: sc, dev: map[int]string{}, desc: "nsx-raw-foreign-id"}
			if r.foreignBefore != r.foreignAfter {
				x.violation(c, r, "frame", "frame:nsx-foreign-policy-overwritten-from-raw", "a policy without the Netspoc prefix was overwritten from the raw file:\n"+r.foreignAfter+"\n--- before\n"+r.foreignBefore)
			}
			res.Outcome(fmt.Sprintf("nsx-raw-foreign-id exit=%d", r.exit))
		}
	}
}
