//go:build verif

package engines

import (
	"verif/harness/internal/core"
)

// C07, NSX part: objects whose id lacks the Netspoc prefix are filtered
// while the manager is read; so the frame condition is checked end to end:
// approve runs (both front ends, changes pending and not) against a manager
// that also holds a foreign policy, foreign groups (one with a look-alike
// id) and a foreign service; after the run they must be unchanged.
func init() {
	c07Extra = func(ctx *core.Ctx, res *core.Result) {
		if ctx.Shard != 0 {
			return
		}
		x := &dialogx{ctx: ctx, res: res, scr: core.NewScratch("C07n"), prop: "C07"}
		defer x.close()
		for _, front := range []string{"drc", "do-approve"} {
			for _, pending := range []bool{true, false} {
				sc := baseScenario("NSX", front)
				if !pending {
					sc = unchangedScenario("NSX", front)
				}
				sc.name += "/foreign-objects"
				sc.nsxExtra = true
				r := runDialogue(x.scr, sc, runOpts{})
				res.Evaluations++
				res.Nontrivial++
				c := &dcase{sc: sc, dev: map[int]string{}, desc: "nsx-foreign"}
				if r.foreignBefore != r.foreignAfter {
					x.violation(c, r, "frame", "frame:nsx-foreign-object-changed", "objects without the Netspoc prefix changed:\n"+r.foreignAfter+"\n--- before\n"+r.foreignBefore)
				} else if r.exit != 0 {
					x.violation(c, r, "frame", "frame:nsx-approve-failed-with-foreign-objects", "approve failed on a manager that also holds foreign objects")
				}
				res.Outcome("nsx-foreign ok")
			}
		}
	}
}
