package engines

import (
	"fmt"
	"strings"

	"verif/harness/internal/ciscomodel"
	"verif/harness/internal/core"
	"verif/harness/internal/corpus"
)

// SelftestCisco executes the *expected* outputs of the repository's own
// ASA/IOS tests on the reference model: the model must accept every
// command and end Sem-equal to the target.  This keeps the model honest
// (DESIGN 3.2 a).  Returns counts and a list of disagreements.
func SelftestCisco(verbose bool) (ok, unsupported int, bad []string) {
	cases, err := corpus.Load()
	if err != nil {
		return 0, 0, []string{err.Error()}
	}
	for _, c := range cases {
		if c.Model != "ASA" && c.Model != "IOS" {
			continue
		}
		if c.Scenario != "" || c.Error != "" || c.Output == "" {
			continue
		}
		if c.Netspoc.V6 != "" || c.Netspoc.Raw != "" || len(c.Extra) > 0 {
			unsupported++
			continue
		}
		ios := c.Model == "IOS"
		m := ciscomodel.Load(c.Device, ios)
		script := corpus.ExpectedScript(c.Output)
		step, cmd, err := execScript(m, script, nil)
		id := c.File + "/" + c.Title
		if err != nil {
			bad = append(bad, fmt.Sprintf("%s: model rejects expected command #%d %q: %v", id, step, cmd, err))
			continue
		}
		tb := ciscomodel.Load(c.Netspoc.Main, ios)
		sc := ciscomodel.ScopeOf(tb)
		if eq, msg := ciscomodel.SemEqual(m, tb, sc); !eq {
			bad = append(bad, fmt.Sprintf("%s: after expected script not Sem-equal:\n%s", id, msg))
			continue
		}
		ok++
	}
	return
}

func RunSelftest(args []string) int {
	ok, uns, bad := SelftestCisco(true)
	for _, b := range bad {
		fmt.Println(b)
		fmt.Println(strings.Repeat("-", 60))
	}
	fmt.Printf("cisco selftest: ok=%d unsupported=%d bad=%d\n", ok, uns, len(bad))
	ok2, uns2, bad2 := SelftestPanos()
	for _, b := range bad2 {
		fmt.Println(b)
		fmt.Println(strings.Repeat("-", 60))
	}
	fmt.Printf("panos selftest: ok=%d unsupported=%d bad=%d\n", ok2, uns2, len(bad2))
	bad = append(bad, bad2...)
	ok3, uns3, bad3 := SelftestNSX()
	for _, b := range bad3 {
		fmt.Println(b)
		fmt.Println(strings.Repeat("-", 60))
	}
	fmt.Printf("nsx selftest: ok=%d unsupported=%d bad=%d\n", ok3, uns3, len(bad3))
	bad = append(bad, bad3...)
	_ = core.VerifDir
	if len(bad) > 0 {
		return 1
	}
	return 0
}
