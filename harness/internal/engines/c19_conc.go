//go:build verif

package engines

import (
	"fmt"
	"os"
	"os/exec"
	"path/filepath"
	"strconv"
	"strings"
	"sync"
	"syscall"
	"time"

	"verif/harness/internal/core"
	"verif/harness/internal/corpus"
)

// C19 concurrency: a second newpolicy.sh runs to completion while the
// first is paused before its k-th simple command, for every k; then the
// first is resumed.  The second must be refused (exit 1) exactly when the
// first already holds the lock; the database invariants must hold at the
// end and a further undisturbed run must leave the newest revision current.

func (b *c19Box) startPaused(pauseAt int, tag string) (*exec.Cmd, string) {
	steplog := filepath.Join(b.dir, "ctrl", "steps-"+tag+".log")
	os.Remove(steplog)
	ctrl := filepath.Join(b.dir, "ctrl", tag)
	os.MkdirAll(ctrl, 0755)
	cmd := exec.Command(corpus.RepoDir + "/bin/newpolicy.sh")
	cmd.Dir = b.dir
	cmd.Env = append(append([]string{}, b.env...), "BASH_ENV="+filepath.Join(b.dir, "hook.sh"), "VERIF_STEPLOG="+steplog,
		"VERIF_CTRL="+ctrl, "VERIF_PAUSE_AT="+strconv.Itoa(pauseAt))
	cmd.SysProcAttr = &syscall.SysProcAttr{Setpgid: true}
	cmd.Start()
	return cmd, ctrl
}

func waitExit(cmd *exec.Cmd, d time.Duration) (int, bool) {
	done := make(chan error, 1)
	go func() { done <- cmd.Wait() }()
	select {
	case err := <-done:
		if err == nil {
			return 0, false
		}
		if ee, ok := err.(*exec.ExitError); ok {
			return ee.ExitCode(), false
		}
		return -1, false
	case <-time.After(d):
		syscall.Kill(-cmd.Process.Pid, syscall.SIGKILL)
		<-done
		return -1, true
	}
}

func c19Conc(ctx *core.Ctx, res *core.Result) {
	base, _ := os.MkdirTemp("/dev/shm", "verif-c19c-")
	defer os.RemoveAll(base)
	root, err := newC19Box(filepath.Join(base, "root"))
	if err != nil {
		res.Broken = append(res.Broken, err.Error())
		return
	}
	if err := root.replay([]string{"run", "commit-good"}); err != nil {
		res.Broken = append(res.Broken, err.Error())
		return
	}
	probe, _ := root.clone(filepath.Join(base, "probe"))
	pr := probe.run(0, "probe")
	steps := pr.steps
	stride := 3
	if ctx.Thorough() {
		stride = 1
	}
	var mu sync.Mutex
	sem := make(chan struct{}, 12)
	var wg sync.WaitGroup
	for k := 1; k <= steps; k += stride {
		wg.Add(1)
		sem <- struct{}{}
		go func(k int) {
			defer wg.Done()
			defer func() { <-sem }()
			box, err := root.clone(filepath.Join(base, fmt.Sprintf("k%d", k)))
			if err != nil {
				return
			}
			defer os.RemoveAll(box.dir)
			first, ctrl := box.startPaused(k, "first")
			ev := []string{"run", "commit-good", fmt.Sprintf("first newpolicy.sh paused before step %d", k)}
			add := func(sig, msg string) {
				mu.Lock()
				c19Violation(res, ev, sig, msg)
				mu.Unlock()
			}
			done := make(chan int, 1)
			go func() {
				code := 0
				if err := first.Wait(); err != nil {
					code = -1
					if ee, ok := err.(*exec.ExitError); ok {
						code = ee.ExitCode()
					}
				}
				done <- code
			}()
			paused := false
			for end := time.Now().Add(180 * time.Second); time.Now().Before(end); {
				if _, err := os.Stat(filepath.Join(ctrl, "paused")); err == nil {
					paused = true
					break
				}
				select {
				case <-done:
					return // the run ended before step k (fewer steps on this path)
				default:
					time.Sleep(5 * time.Millisecond)
				}
			}
			if !paused {
				syscall.Kill(-first.Process.Pid, syscall.SIGKILL)
				add("concurrent:first-hangs", "first run neither reached its pause point nor ended")
				return
			}
			// did the first already execute 'flock -n 9'?
			data, _ := os.ReadFile(filepath.Join(box.dir, "ctrl", "steps-first.log"))
			lines := strings.Split(strings.TrimSpace(string(data)), "\n")
			holds := false
			for i, l := range lines {
				if strings.Contains(l, ":flock -n 9") && i < len(lines)-1 {
					holds = true
				}
			}
			second := box.run(0, "second")
			os.WriteFile(filepath.Join(ctrl, "resume"), []byte("go"), 0644)
			exit1, to := 0, false
			select {
			case exit1 = <-done:
			case <-time.After(180 * time.Second):
				to = true
				syscall.Kill(-first.Process.Pid, syscall.SIGKILL)
			}
			mu.Lock()
			res.Evaluations++
			res.Nontrivial++
			res.Transitions += 2
			res.Count("concurrent_pairs", 1)
			res.Outcome(fmt.Sprintf("first-holds=%v second-exit=%d first-exit=%d", holds, second.exit, exit1))
			mu.Unlock()
			switch {
			case to:
				add("concurrent:first-hangs", "the paused first run did not finish after being resumed")
			case holds && second.exit != 1:
				add("concurrent:second-not-refused", fmt.Sprintf("the first run holds the lock (paused before step %d) but the second run ended with exit status %d", k, second.exit))
			case !holds && second.exit != 0:
				add("concurrent:second-failed", fmt.Sprintf("nobody holds the lock but the second run ended with exit status %d", second.exit))
			case holds && exit1 != 0:
				add("concurrent:first-failed", fmt.Sprintf("the lock holder ended with exit status %d", exit1))
			}
			// both must not have worked on the database at the same time
			if holds {
				for _, l := range second.log {
					if strings.Contains(l, ":uptodate") || strings.Contains(l, ":prepare_next") {
						add("concurrent:two-workers", "the second run went past the lock while the first held it")
						break
					}
				}
			}
			st := box.observe()
			if sig, msg := box.invariants(st, c19State{}, 0); sig != "" && sig != "policy-number-not-increasing" {
				add("concurrent:"+sig, msg)
			}
			lv := box.run(0, "live")
			lst := box.observe()
			cur := filepath.Join(box.dir, "base", "policies", lst.Current)
			if lv.exit != 0 || lst.Current == "" || readTrim(filepath.Join(cur, "src", "data")) != lst.RemoteData {
				add("concurrent:next-run-does-not-catch-up", fmt.Sprintf("after both runs and one more undisturbed run (exit %d) the newest revision is not current: %s", lv.exit, lst.canon()))
			}
		}(k)
	}
	wg.Wait()
	res.Count("concurrent_first_run_steps", int64(steps))
	// a commit arrives while the run is paused before step k (its push of
	// the POLICY file may then be rejected); afterwards one more undisturbed
	// run must make the newest revision current
	for k := 1; k <= steps; k += stride {
		wg.Add(1)
		sem <- struct{}{}
		go func(k int) {
			defer wg.Done()
			defer func() { <-sem }()
			box, err := root.clone(filepath.Join(base, fmt.Sprintf("c%d", k)))
			if err != nil {
				return
			}
			defer os.RemoveAll(box.dir)
			first, ctrl := box.startPaused(k, "first")
			ev := []string{"run", "commit-good", fmt.Sprintf("newpolicy.sh paused before step %d", k), "commit-good (while paused)", "resume"}
			add := func(sig, msg string) {
				mu.Lock()
				c19Violation(res, ev, sig, msg)
				mu.Unlock()
			}
			done := make(chan int, 1)
			go func() {
				code := 0
				if err := first.Wait(); err != nil {
					code = -1
					if ee, ok := err.(*exec.ExitError); ok {
						code = ee.ExitCode()
					}
				}
				done <- code
			}()
			paused := false
			for end := time.Now().Add(180 * time.Second); time.Now().Before(end); {
				if _, err := os.Stat(filepath.Join(ctrl, "paused")); err == nil {
					paused = true
					break
				}
				select {
				case <-done:
					return
				default:
					time.Sleep(5 * time.Millisecond)
				}
			}
			if !paused {
				syscall.Kill(-first.Process.Pid, syscall.SIGKILL)
				return
			}
			maxB := box.maxN
			before := box.observe()
			if err := box.commit("commit-good"); err != nil {
				syscall.Kill(-first.Process.Pid, syscall.SIGKILL)
				mu.Lock()
				res.Broken = append(res.Broken, "commit while paused: "+err.Error())
				mu.Unlock()
				return
			}
			os.WriteFile(filepath.Join(ctrl, "resume"), []byte("go"), 0644)
			select {
			case <-done:
			case <-time.After(180 * time.Second):
				syscall.Kill(-first.Process.Pid, syscall.SIGKILL)
				add("commit-during-run:hangs", "the run did not finish after being resumed")
				return
			}
			mu.Lock()
			res.Evaluations++
			res.Nontrivial++
			res.Transitions += 2
			res.Count("commit_during_run_cases", 1)
			mu.Unlock()
			st := box.observe()
			if sig, msg := box.invariants(st, before, maxB); sig != "" {
				add("commit-during-run:"+sig, msg+"\nstate: "+st.canon())
			}
			lv := box.run(0, "live")
			lst := box.observe()
			cur := filepath.Join(box.dir, "base", "policies", lst.Current)
			if lv.exit != 0 || lst.Current == "" || readTrim(filepath.Join(cur, "src", "data")) != lst.RemoteData {
				add("commit-during-run:next-run-does-not-catch-up", fmt.Sprintf("after a commit during the run (paused before step %d) and one more undisturbed run (exit %d) the newest revision is not current: %s", k, lv.exit, lst.canon()))
			}
			if sig, msg := box.invariants(lst, st, box.maxN); sig != "" && sig != "policy-number-not-increasing" {
				add("commit-during-run:after-next-run:"+sig, msg)
			}
		}(k)
	}
	wg.Wait()
}

func init() { c19Concurrent = c19Conc }
