//go:build verif

package engines

import (
	"encoding/json"
	"fmt"
	"os"
	"os/exec"
	"path/filepath"
	"strings"
	"syscall"
	"time"

	"verif/harness/internal/core"
)

// C09, transfer of the Linux start-up files: without SIMULATE_ROUTER the
// real do-approve spawns "ssh" and "scp" from PATH.  A fake ssh execs the
// stdio simulator; a fake scp follows a plan (ok / fails with a message /
// fails silently with a non-zero exit status) per invocation.  Every scp
// invocation of the baseline run gets each fault once.

const fakeSSH = `#!/bin/sh
exec "$VERIF_BIN" simstdio "$VERIF_SPEC"
`

const fakeSCP = `#!/bin/sh
n=$(($(cat "$VERIF_CTRL/scp.count" 2>/dev/null || echo 0)+1))
echo $n > "$VERIF_CTRL/scp.count"
echo "$n $*" >> "$VERIF_CTRL/scp.log"
mode=ok
for p in $(echo "$VERIF_SCP_PLAN" | tr ',' ' '); do
  case $p in $n:*) mode=${p#*:};; esac
done
case $mode in
  ok) exit 0;;
  loud) echo "ssh: connect to host 10.1.13.33 port 22: Connection refused" >&2; echo "lost connection" >&2; exit 1;;
  silent) exit 1;;
  signal) kill -9 $$;;
esac
`

func startProdSSH(work string, sc *dscenario, front, ctrlName, scpPlan string) *prodProc {
	ctrl := filepath.Join(work, ctrlName)
	os.MkdirAll(ctrl, 0755)
	fakebin := filepath.Join(work, "fakebin")
	os.MkdirAll(fakebin, 0755)
	os.WriteFile(filepath.Join(fakebin, "ssh"), []byte(fakeSSH), 0755)
	os.WriteFile(filepath.Join(fakebin, "scp"), []byte(fakeSCP), 0755)
	spec := stdioSpec{Flavor: strings.ToLower(sc.devType), Device: sc.device, Hostname: sc.dn(), Banner: sc.banner,
		Pass: sc.secretPass(), Ctrl: ctrl}
	data, _ := json.Marshal(spec)
	specFile := filepath.Join(ctrl, "spec.json")
	os.WriteFile(specFile, data, 0644)
	bin, args := frontArgs(front, work)
	p := &prodProc{work: work, ctrl: ctrl}
	p.cmd = exec.Command(bin, args...)
	p.cmd.Dir = filepath.Join(work, "policies", "p1")
	p.cmd.Env = []string{"HOME=" + work, "PATH=" + fakebin + ":" + os.Getenv("PATH"), "TEST_TIME=2024-Sep-29 16:19:50",
		"VERIF_BIN=" + filepath.Join(core.VerifDir, ".build", "verif"), "VERIF_SPEC=" + specFile, "VERIF_CTRL=" + ctrl, "VERIF_SCP_PLAN=" + scpPlan}
	p.cmd.Stdout = &p.stdout
	p.cmd.Stderr = &p.stderr
	p.cmd.SysProcAttr = &syscall.SysProcAttr{Setpgid: true}
	if err := p.cmd.Start(); err != nil {
		panic(err)
	}
	p.done = make(chan struct{})
	go func() {
		p.waitErr = p.cmd.Wait()
		close(p.done)
	}()
	return p
}

func c09ScpFaults(ctx *core.Ctx, res *core.Result) {
	base, _ := os.MkdirTemp("/dev/shm", "verif-scp-")
	defer os.RemoveAll(base)
	sc := baseScenario("Linux", "do-approve")
	run := func(name, plan string) (exit int, to bool, work string, p *prodProc) {
		work = filepath.Join(base, name)
		prepareWork(work, sc, 2)
		p = startProdSSH(work, sc, "do-approve", "ctrl", plan)
		exit, to = p.wait(60 * time.Second)
		return
	}
	viol := func(sig, msg string, ev []string) {
		res.AddViolation(core.Violation{Property: "C09", Engine: "prodssh/linux", Space: "scp", Events: ev,
			Oracle: "stop-after-failure", Signature: sig, Message: msg})
	}
	exit, to, work, p := run("base", "")
	res.Evaluations++
	res.Transitions++
	data, _ := os.ReadFile(filepath.Join(p.ctrl, "scp.log"))
	n := len(strings.Split(strings.TrimSpace(string(data)), "\n"))
	if to || exit != 0 || strings.TrimSpace(string(data)) == "" {
		res.Broken = append(res.Broken, fmt.Sprintf("scp path: baseline run through fake ssh/scp failed: exit=%d timeout=%v scp.log=%q stderr=%s stdout=%s",
			exit, to, string(data), short(p.stderr.String(), 400), short(p.stdout.String(), 400)))
		return
	}
	os.RemoveAll(work)
	res.Count("scp_invocations_in_baseline", int64(n))
	for k := 1; k <= n; k++ {
		for _, mode := range []string{"loud", "silent", "signal"} {
			name := fmt.Sprintf("k%d-%s", k, mode)
			exit, to, work, p := run(name, fmt.Sprintf("%d:%s", k, mode))
			res.Evaluations++
			res.Nontrivial++
			res.Transitions++
			res.Count("scp_fault_runs", 1)
			st, _ := os.ReadFile(filepath.Join(work, "status", "router"))
			hist, _ := os.ReadFile(filepath.Join(work, "history", "router"))
			log, _ := os.ReadFile(filepath.Join(p.ctrl, "scp.log"))
			ev := []string{fmt.Sprintf("scp invocation %d of %d fails (%s)", k, n, mode), "scp.log: " + strings.TrimSpace(string(log)),
				"status: " + strings.TrimSpace(string(st)), fmt.Sprintf("exit=%d", exit)}
			res.Outcome(fmt.Sprintf("scp:%s exit=%d", mode, exit))
			switch {
			case to:
				viol("scp:hangs:"+mode, "run did not end within 60 s", ev)
			case exit == 0:
				viol("unnoticed:Linux:scp-"+mode, fmt.Sprintf("the transfer of a start-up file failed (%s) but do-approve ended with exit status 0", mode), ev)
			case !strings.Contains(string(st), `"approve":{"result":"FAILED"`):
				viol("status:approve-not-FAILED:Linux:scp-"+mode, "status after failed transfer: "+string(st), ev)
			case !strings.HasSuffix(strings.TrimSpace(string(hist)), "END: FAILED"):
				viol("history:not-FAILED:Linux:scp-"+mode, "history: "+string(hist), ev)
			}
			os.RemoveAll(work)
		}
	}
	_ = time.Second
}
