package engines

import (
	"os"
	"path/filepath"
	"time"

	"verif/harness/internal/core"
)

// C12 driver.  Part (a), all interleavings of SetLock's system calls,
// runs in the instrumented binary (.build/verif-map); part (b), real
// processes at every phase of a holder's session, is added by
// c12ProcessLevel when the stdio simulator is available.

var c12ProcessLevel func(ctx *core.Ctx, res *core.Result)

func init() {
	Checks["C12"] = &Check{
		Run: func(ctx *core.Ctx) *core.Result {
			bin := filepath.Join(core.VerifDir, ".build", "verif-map")
			if _, err := os.Stat(bin); err != nil {
				r := core.NewResult()
				r.Broken = append(r.Broken, "instrumented binary missing: "+err.Error())
				return r
			}
			c := *ctx
			c.Binary = bin
			res := core.RunSharded(&c, 8)
			if c12ProcessLevel != nil {
				c12ProcessLevel(ctx, res)
			}
			res.Validated = res.Evaluations
			return res
		},
		Meta: func(tier string) core.Meta {
			return core.Meta{ID: "C12", Level: "model_checking",
				Rule: "(a) exhaustive interleaving exploration: device.SetLock is instrumented (build overlay: a scheduling point in front of every statement of SetLock that calls a function of os / syscall or Stat / Close of the file handle, also inside its retry loop); the actors run under a cooperative scheduler on a real file system with real flock; stateless depth-first search: an execution is replayed along a prefix of choices and completed without preemption, every later position branches to every other enabled actor; actors: 2 and 3 contenders with the spellings 'router', 'code/router', '/abs/policies/p1/code/ipv6/router' (and a second device as control) - all interleavings; plus the lock-file clean-up of bin/delete-old-policies as a further actor (its steps open / flock / unlink / close or a plain unlink are chosen from the text of the script): all interleavings with 2 contenders, all interleavings with at most 5 preemptions with 3 contenders (thorough); invariant: exactly one holder per device (at most one while the job may hold the lock itself), every loser gets 'Approve in progress for <its spelling>', nobody blocks, replay never diverges, after release a later contender succeeds; states = interleavings, transitions = scheduled steps; (b) process level: real drc/do-approve binaries as holder paused by the stdio simulator at every phase of its session, and a do-approve compare holder whose device session is over but which is blocked printing its result lines to a full pipe (history and status still to be written), contenders of every front end and spelling run to completion against it: exit 1 with 'Approve in progress', status/history/log tree byte-identical, no second session at the simulator; then the holder is released or killed -9 and a fresh run must get the lock",
				Assumptions: []string{"Linux flock semantics on a local file system (NFS etc. outside)"},
				Bounds:      map[string]any{"contenders": "2 and 3; with the housekeeping job: 2 (all interleavings), 3 (preemption bound 5, thorough)", "phases": "every line of the holder's dialogue (thorough), 6 phases (quick)"},
			}
		},
		QuickBudget:    170 * time.Second,
		ThoroughBudget: 30 * time.Minute,
	}
}
