//go:build verif && verifmap

package engines

import (
	"fmt"
	"os"
	"path"
	"path/filepath"
	"strings"
	"time"

	"github.com/hknutzen/Netspoc-Approve/go/pkg/device"
	"github.com/hknutzen/Netspoc-Approve/go/pkg/program"
	"github.com/hknutzen/Netspoc-Approve/go/pkg/verifsched"
	"verif/harness/internal/core"
)

// C12 part (a): all interleavings of the three system calls of
// device.SetLock for 2 and 3 contenders under a cooperative scheduler.

type lockEvent struct {
	id       int
	point    string // "" = finished
	finished bool
}

type lockRun struct {
	schedule []int
	results  []error
	files    []*os.File
	hang     int // id of a blocked contender, -1 = none
	trace    []string
}

// runLockSchedule executes one interleaving: schedule[i] = contender that
// performs the i-th step.  Returns false if the schedule is not feasible.
func runLockSchedule(base string, names []string, schedule []int) *lockRun {
	dir, _ := os.MkdirTemp(base, "lk")
	defer os.RemoveAll(dir)
	cfg := &program.Config{BaseDir: dir}
	n := len(names)
	r := &lockRun{schedule: schedule, results: make([]error, n), files: make([]*os.File, n), hang: -1}
	events := make(chan lockEvent)
	resume := make([]chan struct{}, n)
	current := -1
	verifsched.Hook = func(name string) {
		id := current
		events <- lockEvent{id: id, point: name}
		<-resume[id]
	}
	defer func() { verifsched.Hook = nil }()
	for i := 0; i < n; i++ {
		resume[i] = make(chan struct{})
		go func(i int) {
			<-resume[i]
			fh, err := device.SetLock(names[i], cfg)
			r.files[i], r.results[i] = fh, err
			events <- lockEvent{id: i, finished: true}
		}(i)
	}
	wait := func(id int) (lockEvent, bool) {
		select {
		case ev := <-events:
			return ev, true
		case <-time.After(2 * time.Second):
			return lockEvent{}, false
		}
	}
	// bring every contender to its first point (nothing shared happens before)
	for i := 0; i < n; i++ {
		current = i
		resume[i] <- struct{}{}
		ev, ok := wait(i)
		if !ok || ev.finished {
			r.hang = i
			return r
		}
	}
	for _, id := range schedule {
		current = id
		resume[id] <- struct{}{}
		ev, ok := wait(id)
		if !ok {
			r.hang = id
			r.trace = append(r.trace, fmt.Sprintf("%d blocked", id))
			return r
		}
		if ev.finished {
			r.trace = append(r.trace, fmt.Sprintf("%d:done", id))
		} else {
			r.trace = append(r.trace, fmt.Sprintf("%d:%s", id, ev.point))
		}
	}
	return r
}

// schedules enumerates all interleavings of n contenders with k steps each.
func schedules(n, k int) [][]int {
	var out [][]int
	left := make([]int, n)
	for i := range left {
		left[i] = k
	}
	var rec func(cur []int)
	rec = func(cur []int) {
		if len(cur) == n*k {
			out = append(out, append([]int(nil), cur...))
			return
		}
		for i := 0; i < n; i++ {
			if left[i] > 0 {
				left[i]--
				rec(append(cur, i))
				left[i]++
			}
		}
	}
	rec(nil)
	return out
}

func c12Worker(ctx *core.Ctx) *core.Result {
	res := core.NewResult()
	base, _ := os.MkdirTemp("/dev/shm", "verif-c12-")
	defer os.RemoveAll(base)
	groups := [][]string{
		{"router", "code/router"},
		{"router", "/abs/policies/p1/code/ipv6/router"},
		{"router", "code/router", "/abs/policies/p1/code/ipv6/router"},
		{"router", "code/router", "router2"},
	}
	var serial int64
	for gi, names := range groups {
		for _, sch := range schedules(len(names), 3) {
			serial++
			if !ctx.Mine(serial) {
				continue
			}
			r := runLockSchedule(base, names, sch)
			res.Evaluations++
			res.Nontrivial++
			res.Transitions += int64(len(sch))
			res.States++
			viol := func(sig, msg string) {
				res.AddViolation(core.Violation{Property: "C12", Engine: "lockx", Space: fmt.Sprintf("contenders=%v", names),
					Events: append([]string{fmt.Sprintf("schedule=%v", sch)}, r.trace...), Oracle: "one-holder-per-device", Signature: sig, Message: msg})
			}
			if r.hang >= 0 {
				viol("contender-blocked", fmt.Sprintf("contender %d (%s) did not return from SetLock (blocking lock?)", r.hang, names[r.hang]))
				for _, f := range r.files {
					if f != nil {
						f.Close()
					}
				}
				continue
			}
			winners := map[string][]int{}
			for i, err := range r.results {
				devName := path.Base(names[i])
				if err == nil {
					winners[devName] = append(winners[devName], i)
				} else if !strings.Contains(err.Error(), "Approve in progress") {
					viol("unexpected-error", fmt.Sprintf("contender %d: %v", i, err))
				} else if err.Error() != "Approve in progress for "+names[i] {
					viol("wrong-message", err.Error())
				}
			}
			devs := map[string]bool{}
			for _, n := range names {
				devs[path.Base(n)] = true
			}
			outcome := ""
			for d := range devs {
				outcome += fmt.Sprintf("%s:%d ", d, len(winners[d]))
				if len(winners[d]) != 1 {
					viol(fmt.Sprintf("holders=%d", len(winners[d])), fmt.Sprintf("device %s has %d lock holders (contenders %v) under schedule %v", d, len(winners[d]), winners[d], sch))
				}
			}
			res.Outcome(fmt.Sprintf("group%d %s first-winner=%v", gi, outcome, winners["router"]))
			// release: a late contender must obtain the lock
			for _, f := range r.files {
				if f != nil {
					f.Close()
				}
			}
			_ = filepath.Join
		}
	}
	// after release (separate directory): holder, loser, release, late contender
	if ctx.Shard == 0 {
		dir, _ := os.MkdirTemp(base, "late")
		cfg := &program.Config{BaseDir: dir}
		h, err := device.SetLock("router", cfg)
		_, err2 := device.SetLock("code/router", cfg)
		res.Evaluations++
		if err != nil || err2 == nil {
			res.AddViolation(core.Violation{Property: "C12", Engine: "lockx", Space: "release", Oracle: "one-holder-per-device",
				Signature: "sequential-lock-broken", Message: fmt.Sprintf("holder err=%v, contender err=%v", err, err2)})
		}
		if h != nil {
			h.Close()
		}
		l, err3 := device.SetLock("code/router", cfg)
		if err3 != nil {
			res.AddViolation(core.Violation{Property: "C12", Engine: "lockx", Space: "release", Oracle: "lock-released",
				Signature: "lock-not-released", Message: fmt.Sprintf("after the holder closed its lock a later run gets: %v", err3)})
		}
		if l != nil {
			l.Close()
		}
	}
	return res
}

func init() { Workers["C12"] = c12Worker }
