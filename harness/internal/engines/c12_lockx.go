//go:build verif && verifmap

package engines

import (
	"fmt"
	"os"
	"path"
	"path/filepath"
	"strings"
	"syscall"
	"time"

	"github.com/hknutzen/Netspoc-Approve/go/pkg/device"
	"github.com/hknutzen/Netspoc-Approve/go/pkg/program"
	"github.com/hknutzen/Netspoc-Approve/go/pkg/verifsched"
	"verif/harness/internal/core"
)

// C12 part (a): all interleavings of the system calls of device.SetLock
// for 2 and 3 contenders - and of the housekeeping job's lock-file clean-up
// (bin/delete-old-policies) as a further actor - under a cooperative
// scheduler.  Stateless depth-first exploration: an execution is replayed
// from scratch along a prefix of choices and completed with the default
// choice (lowest enabled actor); every position behind the prefix is a
// branch point for every other enabled actor.

type lockEvent struct {
	id       int
	point    string // "" = finished
	finished bool
}

type lockRun struct {
	choices  []int
	enabled  [][]int // enabled actors at each step
	results  []error
	files    []*os.File
	hang     int // id of a blocked actor, -1 = none
	diverged bool
	trace    []string
}

// hkMode tells what the housekeeping job does with lock files, read from
// the script itself: "guarded" (flock -n FILE rm -f FILE), "plain" (rm
// without taking the lock), "" (lock files are left alone).
func hkMode() string {
	data, err := os.ReadFile(filepath.Join(repoDir(), "bin", "delete-old-policies"))
	if err != nil {
		return ""
	}
	for _, l := range strings.Split(string(data), "\n") {
		t := strings.TrimSpace(l)
		if strings.HasPrefix(t, "#") || !strings.Contains(t, "lock") || !strings.Contains(t, "rm ") {
			continue
		}
		if strings.Contains(t, "flock -n {} rm") {
			return "guarded"
		}
		return "plain"
	}
	// the loop over sub-directories names lock?
	for _, l := range strings.Split(string(data), "\n") {
		t := strings.TrimSpace(l)
		if strings.HasPrefix(t, "for SUB in") && strings.Contains(t, "lock") {
			return "plain"
		}
	}
	return ""
}

func repoDir() string {
	if d := os.Getenv("VERIF_REPO"); d != "" {
		return d
	}
	return "/repo"
}

// housekeeper performs what 'flock -n FILE rm -f FILE' (util-linux flock:
// open O_RDONLY|O_CREAT, flock LOCK_EX|LOCK_NB, run the command, exit) or a
// plain 'rm -f FILE' does to the lock file of the device, one system call
// per scheduling point.
func housekeeper(mode, lockFile string) {
	if mode == "plain" {
		verifsched.Point("hk-unlink")
		os.Remove(lockFile)
		return
	}
	verifsched.Point("hk-open")
	fh, err := os.OpenFile(lockFile, os.O_CREATE|os.O_RDONLY, 0666)
	if err != nil {
		return
	}
	verifsched.Point("hk-flock")
	if syscall.Flock(int(fh.Fd()), syscall.LOCK_EX|syscall.LOCK_NB) != nil {
		fh.Close()
		return
	}
	verifsched.Point("hk-unlink")
	os.Remove(lockFile)
	verifsched.Point("hk-close")
	fh.Close()
}

// runLock executes one interleaving along prefix, then with default choices.
// Actors 0..len(names)-1 are contenders; with hk != "" the last actor is the
// housekeeping job working on the lock file of device "router".
func runLock(base string, names []string, hk string, prefix []int) *lockRun {
	dir, _ := os.MkdirTemp(base, "lk")
	defer os.RemoveAll(dir)
	cfg := &program.Config{BaseDir: dir}
	nc := len(names)
	n := nc
	if hk != "" {
		n++
		// the job only looks at existing, old lock files
		os.Mkdir(filepath.Join(dir, "lock"), 0755)
		os.WriteFile(filepath.Join(dir, "lock", "router"), nil, 0644)
	}
	r := &lockRun{results: make([]error, nc), files: make([]*os.File, nc), hang: -1}
	events := make(chan lockEvent)
	resume := make([]chan struct{}, n)
	current := -1
	verifsched.Hook = func(name string) {
		id := current
		events <- lockEvent{id: id, point: name}
		<-resume[id]
	}
	defer func() { verifsched.Hook = nil }()
	for i := 0; i < n; i++ {
		resume[i] = make(chan struct{})
		go func(i int) {
			<-resume[i]
			if i < nc {
				fh, err := device.SetLock(names[i], cfg)
				r.files[i], r.results[i] = fh, err
			} else {
				housekeeper(hk, filepath.Join(dir, "lock", "router"))
			}
			events <- lockEvent{id: i, finished: true}
		}(i)
	}
	wait := func() (lockEvent, bool) {
		select {
		case ev := <-events:
			return ev, true
		case <-time.After(2 * time.Second):
			return lockEvent{}, false
		}
	}
	done := make([]bool, n)
	// bring every actor to its first point (nothing shared happens before)
	for i := 0; i < n; i++ {
		current = i
		resume[i] <- struct{}{}
		ev, ok := wait()
		if !ok {
			r.hang = i
			return r
		}
		if ev.finished {
			done[i] = true
		}
	}
	for step := 0; ; step++ {
		var en []int
		for i := 0; i < n; i++ {
			if !done[i] {
				en = append(en, i)
			}
		}
		if len(en) == 0 {
			break
		}
		id := en[0]
		// default: the actor of the previous step goes on (no preemption)
		if step > 0 {
			for _, e := range en {
				if e == r.choices[step-1] {
					id = e
				}
			}
		}
		if step < len(prefix) {
			id = prefix[step]
			if done[id] {
				r.diverged = true
				return r
			}
		}
		r.enabled = append(r.enabled, en)
		r.choices = append(r.choices, id)
		current = id
		resume[id] <- struct{}{}
		ev, ok := wait()
		if !ok {
			r.hang = id
			r.trace = append(r.trace, fmt.Sprintf("%d blocked", id))
			return r
		}
		if ev.finished {
			done[id] = true
			r.trace = append(r.trace, fmt.Sprintf("%d:done", id))
		} else {
			r.trace = append(r.trace, fmt.Sprintf("%d:->%s", id, ev.point))
		}
	}
	return r
}

// exploreLock enumerates every complete interleaving (bound < 0) or every
// interleaving with at most bound preemptions (a switch away from an actor
// that could have gone on) below the prefixes assigned to this shard and
// calls check for each.
func exploreLock(ctx *core.Ctx, base string, names []string, hk string, bound int, check func(r *lockRun)) (execs int64, expired bool) {
	const split = 4 // executions are dealt to the shards by their first choices
	// cost of taking alt at position i of run r
	cost := func(r *lockRun, i, alt int) int {
		if i == 0 {
			return 0
		}
		prev := r.choices[i-1]
		if alt == prev {
			return 0
		}
		for _, e := range r.enabled[i] {
			if e == prev {
				return 1
			}
		}
		return 0
	}
	preempts := func(r *lockRun, upto int) int {
		n := 0
		for i := 1; i < upto; i++ {
			n += cost(r, i, r.choices[i])
		}
		return n
	}
	type topT struct {
		choices []int
	}
	var tops []topT
	var top func(prefix []int)
	top = func(prefix []int) {
		r := runLock(base, names, hk, prefix)
		closeLockFiles(r)
		tops = append(tops, topT{append([]int{}, r.choices...)})
		for i := len(prefix); i < len(r.choices) && i < split; i++ {
			for _, alt := range r.enabled[i] {
				if alt != r.choices[i] && (bound < 0 || preempts(r, i)+cost(r, i, alt) <= bound) {
					top(append(append([]int{}, r.choices[:i]...), alt))
				}
			}
		}
	}
	top(nil)
	var dfs func(r *lockRun, from int)
	dfs = func(r *lockRun, from int) {
		if ctx.Expired() {
			closeLockFiles(r)
			expired = true
			return
		}
		execs++
		check(r)
		closeLockFiles(r)
		for i := from; i < len(r.choices); i++ {
			for _, alt := range r.enabled[i] {
				if alt != r.choices[i] && (bound < 0 || preempts(r, i)+cost(r, i, alt) <= bound) {
					p := append(append([]int{}, r.choices[:i]...), alt)
					dfs(runLock(base, names, hk, p), i+1)
				}
			}
		}
	}
	for ti, t := range tops {
		if !ctx.Mine(int64(ti)) {
			continue
		}
		n := len(t.choices)
		if n > split {
			n = split
		}
		dfs(runLock(base, names, hk, t.choices[:n]), split)
	}
	return
}

func closeLockFiles(r *lockRun) {
	for i, f := range r.files {
		if f != nil {
			f.Close()
			r.files[i] = nil
		}
	}
}

func c12Worker(ctx *core.Ctx) *core.Result {
	res := core.NewResult()
	base, _ := os.MkdirTemp("/dev/shm", "verif-c12-")
	defer os.RemoveAll(base)
	type groupT struct {
		names []string
		hk    string
		bound int // preemption bound, -1 = all interleavings
	}
	groups := []groupT{
		{[]string{"router", "code/router"}, "", -1},
		{[]string{"router", "/abs/policies/p1/code/ipv6/router"}, "", -1},
		{[]string{"router", "code/router", "/abs/policies/p1/code/ipv6/router"}, "", -1},
		{[]string{"router", "code/router", "router2"}, "", -1},
	}
	if hk := hkMode(); hk != "" {
		res.Count("housekeeping_mode:"+hk, 1)
		groups = append(groups, groupT{[]string{"router", "code/router"}, hk, -1})
		if ctx.Thorough() {
			// three contenders and the job: every interleaving with at most 5 preemptions
			groups = append(groups, groupT{[]string{"router", "code/router", "/abs/policies/p1/code/ipv6/router"}, hk, 5})
		}
	} else {
		res.Count("housekeeping_mode:none", 1)
	}
	// POSIX record locks (fcntl) belong to the process, not to the open
	// file: contenders inside one process would never exclude each other, so
	// the in-process exploration cannot judge such a SetLock.  Part (b)
	// (separate processes, real cron script) still does.
	if pts, err := os.ReadFile(filepath.Join(core.VerifDir, ".build", "lockpoints_main.go.points")); err == nil && strings.Contains(string(pts), "fcntl") {
		res.Count("part_a_skipped:SetLock_uses_fcntl_record_locks", 1)
		groups = nil
	}
	for gi, g := range groups {
		names := g.names
		n, expired := exploreLock(ctx, base, names, g.hk, g.bound, func(r *lockRun) {
			sch := r.choices
			res.Evaluations++
			res.Nontrivial++
			res.Transitions += int64(len(sch))
			res.States++
			space := fmt.Sprintf("contenders=%v", names)
			if g.hk != "" {
				space += " housekeeping=" + g.hk
			}
			viol := func(sig, msg string) {
				res.AddViolation(core.Violation{Property: "C12", Engine: "lockx", Space: space,
					Events: append([]string{fmt.Sprintf("schedule=%v", sch)}, r.trace...), Oracle: "one-holder-per-device", Signature: sig, Message: msg})
			}
			if r.diverged {
				res.Broken = append(res.Broken, fmt.Sprintf("replay of schedule %v diverged", sch))
				return
			}
			if r.hang >= 0 {
				viol("contender-blocked", fmt.Sprintf("actor %d did not return (blocking lock?)", r.hang))
				return
			}
			winners := map[string][]int{}
			for i, err := range r.results {
				devName := path.Base(names[i])
				if err == nil {
					winners[devName] = append(winners[devName], i)
				} else if !strings.Contains(err.Error(), "Approve in progress") {
					viol("unexpected-error", fmt.Sprintf("contender %d: %v", i, err))
				} else if err.Error() != "Approve in progress for "+names[i] {
					viol("wrong-message", err.Error())
				}
			}
			devs := map[string]bool{}
			for _, n := range names {
				devs[path.Base(n)] = true
			}
			outcome := ""
			for _, d := range sortedKeys(devs) {
				outcome += fmt.Sprintf("%s:%d ", d, len(winners[d]))
				ok := len(winners[d]) == 1
				if g.hk != "" && d == "router" {
					// while the job holds the lock for its own moment every
					// contender may be refused
					ok = len(winners[d]) <= 1
				}
				if !ok {
					viol(fmt.Sprintf("holders=%d", len(winners[d])), fmt.Sprintf("device %s has %d lock holders (contenders %v) under schedule %v", d, len(winners[d]), winners[d], sch))
				}
			}
			res.Outcome(fmt.Sprintf("group%d %s first-winner=%v", gi, outcome, winners["router"]))
		})
		res.Count(fmt.Sprintf("interleavings_group%d", gi), n)
		if expired {
			res.Incomplete = append(res.Incomplete, fmt.Sprintf("deadline inside group %d (%v housekeeping=%q) after %d interleavings of shard %d", gi, names, g.hk, n, ctx.Shard))
		}
	}
	// after release (separate directory): holder, loser, release, late contender
	if ctx.Shard == 0 {
		dir, _ := os.MkdirTemp(base, "late")
		cfg := &program.Config{BaseDir: dir}
		h, err := device.SetLock("router", cfg)
		_, err2 := device.SetLock("code/router", cfg)
		res.Evaluations++
		if err != nil || err2 == nil {
			res.AddViolation(core.Violation{Property: "C12", Engine: "lockx", Space: "release", Oracle: "one-holder-per-device",
				Signature: "sequential-lock-broken", Message: fmt.Sprintf("holder err=%v, contender err=%v", err, err2)})
		}
		if h != nil {
			h.Close()
		}
		l, err3 := device.SetLock("code/router", cfg)
		if err3 != nil {
			res.AddViolation(core.Violation{Property: "C12", Engine: "lockx", Space: "release", Oracle: "lock-released",
				Signature: "lock-not-released", Message: fmt.Sprintf("after the holder closed its lock a later run gets: %v", err3)})
		}
		if l != nil {
			l.Close()
		}
	}
	return res
}

func init() { Workers["C12"] = c12Worker }
