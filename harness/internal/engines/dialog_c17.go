//go:build verif

package engines

import (
	"encoding/xml"
	"fmt"
	"net/url"
	"strings"
	"time"

	"verif/harness/internal/core"
)

// C17: passwords, API keys and session tokens never reach logs, history,
// status, stdout or stderr.

const (
	c17Pass = "Pw&1=x%2+y/z?ü#Q"   // characters that need URL escaping
	c17Key  = "LUFRPT1+abc/DEFg=9xYz==" // base64 alphabet incl. + / =
)

type secretForm struct{ name, text string }

func secretForms(kind, secret string) []secretForm {
	var l []secretForm
	add := func(n, t string) {
		if t != "" {
			l = append(l, secretForm{kind + ":" + n, t})
		}
	}
	add("plain", secret)
	add("query-escaped", url.QueryEscape(secret))
	add("path-escaped", url.PathEscape(secret))
	var b strings.Builder
	xml.EscapeText(&b, []byte(secret))
	add("xml-escaped", b.String())
	// '+' decoded as blank by a lenient URL parser
	add("plus-as-blank", strings.ReplaceAll(secret, "+", " "))
	// any 8-byte window of the plain secret (partial leaks)
	for i := 0; i+8 <= len(secret); i++ {
		add(fmt.Sprintf("window@%d", i), secret[i:i+8])
	}
	return l
}

func c17Oracle(x *dialogx) func(c *dcase, r *drun, base *drun) {
	return func(c *dcase, r *drun, base *drun) {
		forms := secretForms("password", c.sc.secretPass())
		if isHTTPS(c.sc.devType) {
			forms = append(forms, secretForms("key", c.sc.secretKey())...)
		}
		arts := map[string]string{"<stdout>": r.stdout, "<stderr>": r.stderr}
		for n, d := range r.files {
			arts[n] = d
		}
		x.res.Count("artefacts_scanned", int64(len(arts)))
		// every artefact is judged on its own, in a fixed order (one case may
		// leak into several files; each file kind has its own signature)
		leaked := false
		for _, name := range sortedKeys(arts) {
			data := arts[name]
			for _, f := range forms {
				if i := strings.Index(data, f.text); i >= 0 {
					lo, hi := i-120, i+len(f.text)+60
					if lo < 0 {
						lo = 0
					}
					if hi > len(data) {
						hi = len(data)
					}
					kindOfFile := name
					if j := strings.LastIndex(name, "."); j >= 0 && !strings.HasPrefix(name, "<") {
						kindOfFile = "*" + name[j:]
					} else if j := strings.Index(name, "/"); j >= 0 {
						kindOfFile = name[:j] + "/*"
					}
					how := "success"
					if fi := failurePoint(r); fi >= 0 {
						how = r.trans[fi].Dev
						if strings.HasPrefix(how, "model:") {
							how = "model-reject"
						}
					}
					x.violation(c, r, "no-secret-in-artefact",
						fmt.Sprintf("leak:%s:%s:%s:%s", c.sc.devType, strings.SplitN(f.name, ":", 2)[0], kindOfFile, how),
						fmt.Sprintf("%s found in %s: ...%s...", f.name, name, data[lo:hi]))
					leaked = true
					break
				}
			}
		}
		if leaked {
			return
		}
		x.res.Outcome(fmt.Sprintf("%s clean exit=%d", c.sc.devType, r.exit))
	}
}

func c17Scenarios() []*dscenario {
	var l []*dscenario
	for _, t := range allDevTypes {
		for _, f := range []string{"drc", "drc-C", "do-approve", "do-compare", "drc-q", "do-approve-brief", "drc-logfile"} {
			sc := baseScenario(t, f)
			sc.pass, sc.key = c17Pass, c17Key
			l = append(l, sc)
		}
		// the tool builds the URLs from the addresses of the info file
		// (no SIMULATE_ROUTER): addresses net/url rejects, a refused
		// connection, the simulator as the (backup) address that answers
		if isHTTPS(t) {
			for _, f := range []string{"drc-C", "do-compare"} {
				for _, a := range [][]string{{"SIM"}, {"2001:db8:10:1::a"}, {"2001:db8:10:1::a", "SIM"}, {"[::1]:1", "SIM"}, {"bad host", "SIM"}, {"10.1.13.33:https", "SIM"}} {
					sc := baseScenario(t, f)
					sc.name += "/addresses=" + strings.Join(a, ",")
					sc.pass, sc.key = c17Pass, c17Key
					sc.addrs = a
					l = append(l, sc)
				}
			}
		}
		// enable password and host-key question on the way
		if t == "ASA" || t == "IOS" {
			sc := baseScenario(t, "do-approve")
			sc.name += "/enable"
			sc.pass, sc.key = c17Pass, c17Key
			sc.needEnable, sc.hostKeyQ = true, true
			l = append(l, sc)
		}
	}
	return l
}

func c17Worker(ctx *core.Ctx) *core.Result {
	x := newDialogx(ctx, "C17")
	defer x.close()
	x.enumerate(c17Scenarios(), false, c17Oracle(x))
	return x.res
}

func init() {
	registerSharded("C17", c17Worker, func(tier string) core.Meta {
		return core.Meta{ID: "C17", Level: "fault_enumeration",
			Rule: "5 device types x 7 front ends (drc, drc -C, drc -q, drc --LOGFILE, do-approve approve / compare, do-approve --brief) (+ enable-password / host-key variants; PAN-OS/NSX compare runs without SIMULATE_ROUTER, where the tool builds its URLs from the ip_list of the info file: an IPv6 address without brackets and other strings net/url rejects, a refused connection, the simulator as first or backup address) with secrets that contain characters needing URL escaping (password) resp. the full base64 alphabet incl. + / = (API key, XSRF token); baseline (success) plus every single deviation of C09's alphabet at every answer point from the first login step on; after each run every file below the base directory (session logs .login/.config/.change/.cmp, run log, history, status, lock), stdout and stderr are scanned for each secret in plain, query-escaped, path-escaped, XML-escaped, plus-as-blank form and for every 8-byte window of it; non-trivial = runs with a deviation",
			Assumptions: []string{"the device does not echo at password prompts (a real device does not); a device that printed a secret itself is outside"},
			Bounds:      map[string]any{"deviations": "bound 1"},
		}
	}, 170*time.Second, 20*time.Minute)
}
