package engines

import (
	"time"

	"verif/harness/internal/core"
)

// C10: every prefix of every script is a crash point; the state reached is
// given back to the tool, whose second script must be accepted by the
// device model and must converge.
func c10Worker(ctx *core.Ctx) *core.Result {
	x := newApprovex(ctx, "C10", oracles{cuts: true})
	defer x.sc.Close()
	asa := []*space{
		c01ACLSpace("acl", 5, 3),
		c01GroupSpace("grp", 2),
		routePairSpace("ASA"),
		asaBindSpace(),
		asaVPNCutSpace(),
		asaSharedGroupSpace(),
	}
	ios := []*space{
		c02ACLSpace("acl", 5, 3),
		routePairSpace("IOS"),
		iosIntfSpace(),
		iosCryptoSpace(),
	}
	if ctx.Thorough() {
		asa = append(asa, c01ACLSpace("acl-x", 6, 3), c01GroupSpace("grp-x", 3), asaVPNSpace(), corpusSpace("ASA"))
		ios = append(ios, c02ACLSpace("acl-x", 6, 3), corpusSpace("IOS"))
	}
	x.runSpaces(asa)
	x.runSpaces(ios)
	x.runOtherCuts(ctx)
	return x.res
}

// asaVPNCutSpace: a reduced VPN product for the quick tier (every fragment
// pair, other fragments absent).
func asaVPNCutSpace() *space {
	// codes with at most two fragments present
	var codes []int
	for c := 0; c < 256; c++ {
		n := 0
		for k, v := 0, c; k < 4; k, v = k+1, v/4 {
			if v%4 != 0 {
				n++
			}
		}
		if n <= 1 {
			codes = append(codes, c)
		}
	}
	per := int64(len(codes))
	sp := &space{name: "vpn1", model: "ASA", n: per * per * 2}
	sp.gen = func(i int64) (core.Files, core.Files) {
		suffix := ""
		if i%2 == 1 {
			suffix = "-DRC-0"
		}
		i /= 2
		return core.Files{Main: asaIntf + vpnText(codes[i/per], suffix)},
			core.Files{Main: vpnText(codes[i%per], "")}
	}
	return sp
}

func init() {
	registerSharded("C10", c10Worker, func(tier string) core.Meta {
		return core.Meta{ID: "C10", Level: "model_checking",
			Rule: "crash points: for every (device,target) pair of the reduced spaces and every proper prefix of the flattened script (joined lines are cut between their halves, sub-mode blocks after each line) the state reached on the reference model is printed and given to the real planner again; its script must be accepted command by command, the result must be equivalent to the target and a third compare must be silent; states = distinct model states incl. cut states; non-trivial = pairs with a non-empty script; ASA space shared-group (one group used from the ACLs of two interfaces, duplicate group and left-over ACL as an interrupted run leaves them, both orders of the access-group lines); PAN-OS last cut position: the run is cut off at the commit request (HTTP 500 / connection closed / no answer, both front ends) in the HTTPS simulator, which keeps candidate and running configuration apart; the resumed approve must bring the running configuration to the target",
			Assumptions: []string{
				"a cut loses the session but every command sent before it has taken effect (the statement's crash model)",
				"device models as in C01-C05",
			},
			Bounds: map[string]any{"quick": "ASA acl len<=3 over 5 lines, groups over 2 members, routes, bindings, single VPN fragments; IOS acl len<=3 over 5 lines, routes, interfaces, crypto; Linux/PAN-OS/NSX spaces when built", "thorough": "larger alphabets + full VPN product + corpus product"},
		}
	}, 170*time.Second, 50*time.Minute)
}

// runOtherCuts is extended as Linux / PAN-OS / NSX models are added.
func (x *approvex) runOtherCuts(ctx *core.Ctx) {
	for _, f := range otherCutRunners {
		f(x, ctx)
	}
}

var otherCutRunners []func(x *approvex, ctx *core.Ctx)
