package engines

import (
	"fmt"
	"strings"

	"verif/harness/internal/core"
)

// VPN fragments.  Each fragment has variants 0 = absent, 1..3.  %S is
// replaced by the suffix of generated names ("" or "-DRC-0").
var vpnFragments = [][]string{
	{ // user + group-policy + filter ACL
		"",
		`access-list vpn-filter%S extended permit ip host 10.1.1.67 any4
access-list vpn-filter%S extended deny ip any4 any4
group-policy VPN-group%S internal
group-policy VPN-group%S attributes
 banner value Welcome
 vpn-idle-timeout 60
username jon@example.com nopassword
username jon@example.com attributes
 service-type remote-access
 vpn-filter value vpn-filter%S
 vpn-group-policy VPN-group%S
`,
		`access-list vpn-filter%S extended permit ip host 10.1.1.68 any4
access-list vpn-filter%S extended deny ip any4 any4
group-policy VPN-group%S internal
group-policy VPN-group%S attributes
 banner value Welcome
 vpn-idle-timeout 70
username jon@example.com nopassword
username jon@example.com attributes
 service-type remote-access
 vpn-filter value vpn-filter%S
 vpn-group-policy VPN-group%S
`,
		`access-list split%S standard permit 10.2.42.0 255.255.255.224
group-policy VPN-group%S internal
group-policy VPN-group%S attributes
 split-tunnel-network-list value split%S
 split-tunnel-policy tunnelspecified
username jon@example.com nopassword
username jon@example.com attributes
 service-type remote-access
 vpn-group-policy VPN-group%S
`,
	},
	{ // lan-to-lan tunnel
		"",
		`access-list crypto-acl%S extended permit ip 10.1.2.0 255.255.255.0 host 10.3.4.5
crypto ipsec ikev1 transform-set trans%S esp-3des esp-sha-hmac
crypto ipsec ikev1 transform-set transB%S esp-aes esp-sha-hmac
crypto map map-outside 10 match address crypto-acl%S
crypto map map-outside 10 set peer 10.3.3.3
crypto map map-outside 10 set ikev1 transform-set trans%S transB%S
crypto map map-outside interface outside
tunnel-group 10.3.3.3 type ipsec-l2l
tunnel-group 10.3.3.3 ipsec-attributes
 peer-id-validate nocheck
`,
		`access-list crypto-acl%S extended permit ip 10.1.3.0 255.255.255.0 host 10.3.4.5
crypto ipsec ikev2 ipsec-proposal prop%S
 protocol esp encryption aes-256
 protocol esp integrity sha-1
crypto map map-outside 10 match address crypto-acl%S
crypto map map-outside 10 set peer 10.3.3.3
crypto map map-outside 10 set pfs group14
crypto map map-outside 10 set ikev2 ipsec-proposal prop%S
crypto map map-outside interface outside
tunnel-group 10.3.3.3 type ipsec-l2l
tunnel-group 10.3.3.3 ipsec-attributes
 peer-id-validate nocheck
`,
		`access-list crypto-acl%S extended permit ip 10.1.2.0 255.255.255.0 host 10.3.4.5
access-list crypto-acl2%S extended permit ip 10.1.2.0 255.255.255.0 host 10.3.4.6
crypto ipsec ikev1 transform-set trans%S esp-aes-256 esp-sha-hmac
crypto ipsec ikev1 transform-set transB%S esp-aes esp-sha-hmac
crypto map map-outside 10 match address crypto-acl%S
crypto map map-outside 10 set peer 10.4.4.4
crypto map map-outside 10 set ikev1 transform-set trans%S transB%S
crypto map map-outside 20 match address crypto-acl2%S
crypto map map-outside 20 set peer 10.3.3.3
crypto map map-outside 20 set ikev1 transform-set trans%S transB%S
crypto map map-outside interface outside
tunnel-group 10.4.4.4 type ipsec-l2l
tunnel-group 10.4.4.4 ipsec-attributes
 peer-id-validate nocheck
tunnel-group 10.3.3.3 type ipsec-l2l
tunnel-group 10.3.3.3 ipsec-attributes
 peer-id-validate req
`,
	},
	{ // certificate map -> tunnel-group -> group-policy -> pool
		"",
		`ip local pool pool%S 10.1.219.192-10.1.219.255 mask 0.0.0.63
group-policy GP%S internal
group-policy GP%S attributes
 address-pools value pool%S
 vpn-idle-timeout 60
crypto ca certificate map cm%S 10
 subject-name attr ea co @a.example.com
tunnel-group VPN-t%S type remote-access
tunnel-group VPN-t%S general-attributes
 default-group-policy GP%S
tunnel-group VPN-t%S ipsec-attributes
 trust-point TP1
tunnel-group-map cm%S 10 VPN-t%S
`,
		`ip local pool pool%S 10.1.219.192-10.1.219.208 mask 0.0.0.15
group-policy GP%S internal
group-policy GP%S attributes
 address-pools value pool%S
 vpn-idle-timeout 60
crypto ca certificate map cm%S 10
 subject-name attr ea co @a.example.com
tunnel-group VPN-t%S type remote-access
tunnel-group VPN-t%S general-attributes
 default-group-policy GP%S
tunnel-group VPN-t%S ipsec-attributes
 trust-point TP1
tunnel-group-map cm%S 10 VPN-t%S
`,
		`ip local pool pool%S 10.1.219.192-10.1.219.255 mask 0.0.0.63
group-policy GP%S internal
group-policy GP%S attributes
 address-pools value pool%S
crypto ca certificate map cm%S 10
 subject-name attr ea co @b.example.com
crypto ca certificate map cmx%S 10
 subject-name attr ea co @a.example.com
tunnel-group VPN-t%S type remote-access
tunnel-group VPN-t%S general-attributes
 default-group-policy GP%S
tunnel-group VPN-u%S type remote-access
tunnel-group VPN-u%S general-attributes
 default-group-policy GP%S
tunnel-group-map cm%S 10 VPN-t%S
tunnel-group-map cmx%S 20 VPN-u%S
`,
	},
	{ // webvpn certificate-group-map
		"",
		`crypto ca certificate map cw%S 10
 subject-name attr ea co @w.example.com
tunnel-group VPN-w%S type remote-access
tunnel-group VPN-w%S webvpn-attributes
 authentication certificate
webvpn
 certificate-group-map cw%S 10 VPN-w%S
`,
		`crypto ca certificate map cw%S 10
 subject-name attr ea co @w.example.com
tunnel-group VPN-w%S type remote-access
tunnel-group VPN-w%S webvpn-attributes
 authentication aaa certificate
webvpn
 certificate-group-map cw%S 10 VPN-w%S
`,
		`crypto ca certificate map cw%S 10
 subject-name attr ea co @v.example.com
 extended-key-usage co 1.3.6.1.4.1.311.20.2.2
tunnel-group VPN-w%S type remote-access
tunnel-group VPN-w%S webvpn-attributes
 authentication certificate
webvpn
 certificate-group-map cw%S 10 VPN-w%S
`,
	},
}

func vpnText(code int, suffix string) string {
	var b strings.Builder
	for f := 0; f < len(vpnFragments); f++ {
		v := code % 4
		code /= 4
		b.WriteString(strings.ReplaceAll(vpnFragments[f][v], "%S", suffix))
	}
	return b.String()
}

func asaVPNSpace() *space {
	const per = 256
	sp := &space{name: "vpn", model: "ASA", n: per * per * 2}
	sp.gen = func(i int64) (core.Files, core.Files) {
		suffix := ""
		if i%2 == 1 {
			suffix = "-DRC-0"
		}
		i /= 2
		return core.Files{Main: asaIntf + vpnText(int(i/per), suffix)},
			core.Files{Main: vpnText(int(i%per), "")}
	}
	return sp
}

// asaPeerSpace: crypto map entries over {peer A, peer B} x {two crypto ACL
// contents}: device and target are any sequences of up to three distinct
// entries, so several entries may share one peer on either side.
func asaPeerSpace() *space {
	type ent struct{ peer, net string }
	ents := []ent{{"10.3.3.3", "10.1.2.0"}, {"10.3.3.3", "10.1.3.0"}, {"10.4.4.4", "10.1.2.0"}, {"10.4.4.4", "10.1.3.0"}}
	sq := seqs(len(ents), 0, 3)
	n := int64(len(sq))
	text := func(s []int, suffix string) string {
		var b strings.Builder
		if len(s) == 0 {
			return ""
		}
		b.WriteString("crypto ipsec ikev1 transform-set trans" + suffix + " esp-3des esp-sha-hmac\n")
		for pos, i := range s {
			e := ents[i]
			seq := fmt.Sprint(10 * (pos + 1))
			acl := "crypto-acl" + seq + suffix
			b.WriteString("access-list " + acl + " extended permit ip " + e.net + " 255.255.255.0 host 10.3.4.5\n")
			b.WriteString("crypto map map-outside " + seq + " match address " + acl + "\n")
			b.WriteString("crypto map map-outside " + seq + " set peer " + e.peer + "\n")
			b.WriteString("crypto map map-outside " + seq + " set ikev1 transform-set trans" + suffix + "\n")
		}
		b.WriteString("crypto map map-outside interface outside\n")
		return b.String()
	}
	sp := &space{name: "vpn-peers", model: "ASA", n: n * n * 2}
	sp.gen = func(i int64) (core.Files, core.Files) {
		suffix := ""
		if i%2 == 1 {
			suffix = "-DRC-0"
		}
		i /= 2
		return core.Files{Main: asaIntf + text(sq[i/n], suffix)}, core.Files{Main: text(sq[i%n], "")}
	}
	return sp
}

// asaPeer6Space: one lan-to-lan tunnel whose peer has an IPv4 or an IPv6
// address; the tunnel-group named by the peer address is absent, present
// with 'nocheck' or present with 'req' on either side.
func asaPeer6Space() *space {
	text := func(code int, suffix string) string {
		peer := []string{"10.3.3.3", "2001:db8::3"}[code%2]
		code /= 2
		if code == 0 {
			return ""
		}
		return "access-list crypto-acl" + suffix + " extended permit ip 10.1.2.0 255.255.255.0 host 10.3.4.5\n" +
			"crypto ipsec ikev1 transform-set trans" + suffix + " esp-3des esp-sha-hmac\n" +
			"crypto map map-outside 10 match address crypto-acl" + suffix + "\n" +
			"crypto map map-outside 10 set peer " + peer + "\n" +
			"crypto map map-outside 10 set ikev1 transform-set trans" + suffix + "\n" +
			"crypto map map-outside interface outside\n" +
			"tunnel-group " + peer + " type ipsec-l2l\ntunnel-group " + peer + " ipsec-attributes\n peer-id-validate " +
			[]string{"", "nocheck", "req"}[code] + "\n"
	}
	sp := &space{name: "vpn-peer6", model: "ASA", n: 6 * 6 * 2}
	sp.gen = func(i int64) (core.Files, core.Files) {
		suffix := ""
		if i%2 == 1 {
			suffix = "-DRC-0"
		}
		i /= 2
		return core.Files{Main: asaIntf + text(int(i/6), suffix)}, core.Files{Main: text(int(i%6), "")}
	}
	return sp
}

// asaWebvpnSpace: the toplevel webvpn block is added (or removed) in a run
// that also edits sub-commands of a group-policy or a username, while the
// certificate map and the tunnel-group it names exist on both sides - so
// that nothing toplevel is emitted between the last attributes sub-command
// and "webvpn", which is also a sub-command of those attributes modes.
func asaWebvpnSpace() *space {
	base := "crypto ca certificate map ca-map 10\n subject-name attr ea co @sub.example.com\n" +
		"tunnel-group VPN-tunnel type remote-access\ntunnel-group VPN-tunnel general-attributes\n default-group-policy VPN-group\ntunnel-group-map ca-map 10 VPN-tunnel\n"
	gp := func(name string, idle int) string {
		return "group-policy " + name + " internal\ngroup-policy " + name + " attributes\n vpn-idle-timeout " + fmt.Sprint(idle) + "\n"
	}
	user := func(v int) string {
		switch v {
		case 0:
			return ""
		case 1:
			return "username foo@bar nopassword\nusername foo@bar attributes\n vpn-group-policy gp2\n service-type remote-access\n"
		}
		return "username foo@bar nopassword\nusername foo@bar attributes\n vpn-group-policy gp2\n service-type remote-access\n vpn-idle-timeout 30\n"
	}
	webvpn := "webvpn\n certificate-group-map ca-map 10 VPN-tunnel\n"
	text := func(idle1, idle2, u int, w bool) string {
		t := base + gp("VPN-group", idle1) + gp("gp2", idle2) + user(u)
		if w {
			t += webvpn
		}
		return t
	}
	idles := []int{60, 120}
	sp := &space{name: "vpn-webvpn", model: "ASA", n: 2 * 2 * 3 * 2 * 2 * 2 * 3 * 2}
	sp.gen = func(i int64) (core.Files, core.Files) {
		pick := func(n int64) int {
			v := int(i % n)
			i /= n
			return v
		}
		d1, d2, du, dw := idles[pick(2)], idles[pick(2)], pick(3), pick(2) == 1
		t1, t2, tu, tw := idles[pick(2)], idles[pick(2)], pick(3), pick(2) == 1
		if du == 0 || tu == 0 {
			// gp2 needs its user
			du, tu = 1, 1
		}
		return core.Files{Main: asaIntf + text(d1, d2, du, dw)}, core.Files{Main: text(t1, t2, tu, tw)}
	}
	return sp
}
