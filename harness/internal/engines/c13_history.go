package engines

import (
	"encoding/json"
	"fmt"
	"os"
	"os/exec"
	"path/filepath"
	"regexp"
	"sort"
	"strings"
	"time"

	"github.com/hknutzen/Netspoc-Approve/go/pkg/program"
	"github.com/hknutzen/Netspoc-Approve/go/pkg/status"
	"verif/harness/internal/core"
)

// C13: breadth-first search over event histories.  Every event runs the
// real status.SetApprove/SetCompare (in-process) on a real directory tree;
// after every event the real missing-approve binary runs on that tree.
// The reference (DESIGN appendix D) is tracked from the event list only.

var c13Events = []string{
	"new:same", "new:v4", "new:v6", "new:raw", "new:drop-v6", "new:drop-raw",
	"approve-ok", "approve-fail", "compare",
	"drift", "repair",
	"bzip2", "remove",
	"damage:empty", "damage:trunc1", "damage:trunc2", "damage:last", "damage:garbage",
	// damage that leaves valid JSON: one letter of a key changed, a number
	// turned into a string
	"damage:key", "damage:type",
	// one letter of a result word changed ("DIFF" -> "DIFG")
	"damage:value",
}

var c13TimeRE = regexp.MustCompile(`"time":(\d+)`)

type c13Code [3]int // v4, v6, raw version ids

type c13Policy struct {
	n    int
	code c13Code
	disk string // plain | bz2 | gone
}

type c13World struct {
	dir      string
	cfg      *program.Config
	policies []*c13Policy
	device   *c13Code // nil = DRIFT (something the tool never generated)
	obsP     int      // 0 = no observation
	obsEqual bool
	dmg      bool
	clock    int64
	nextVer  int
}

func (w *c13World) current() *c13Policy { return w.policies[len(w.policies)-1] }

func (w *c13World) policy(n int) *c13Policy {
	for _, p := range w.policies {
		if p.n == n {
			return p
		}
	}
	return nil
}

func (w *c13World) tick() {
	w.clock++
	t := time.Unix(1727626790+w.clock, 0).UTC()
	os.Setenv("TEST_TIME", t.Format("2006-Jan-02 15:04:05"))
}

func (w *c13World) pdir(n int) string { return filepath.Join(w.dir, "policies", fmt.Sprintf("p%d", n)) }

func (w *c13World) writePolicy(p *c13Policy) {
	d := w.pdir(p.n)
	// the ipv6 directory only exists if some device has IPv6 code
	os.MkdirAll(filepath.Join(d, "code"), 0755)
	if p.code[1] != 0 {
		os.MkdirAll(filepath.Join(d, "code", "ipv6"), 0755)
	}
	os.WriteFile(filepath.Join(d, "code", "router"), []byte(fmt.Sprintf("ipv4 code version %d\n", p.code[0])), 0644)
	// version 0 = the policy has no such file for the device
	if p.code[1] != 0 {
		os.WriteFile(filepath.Join(d, "code", "ipv6", "router"), []byte(fmt.Sprintf("ipv6 code version %d\n", p.code[1])), 0644)
	}
	if p.code[2] != 0 {
		os.WriteFile(filepath.Join(d, "code", "router.raw"), []byte(fmt.Sprintf("raw version %d\n", p.code[2])), 0644)
	}
	os.WriteFile(filepath.Join(d, "code", "router.info"), []byte(`{"model":"Linux"}`), 0644)
	// two further devices that were never approved (sorted in front of and
	// behind "router"; the second one has IPv6 code whenever the policy has
	// an ipv6 directory): they must be listed after every event
	for _, n := range []string{"aaa", "zzz"} {
		os.WriteFile(filepath.Join(d, "code", n), []byte("code of "+n+"\n"), 0644)
		os.WriteFile(filepath.Join(d, "code", n+".info"), []byte(`{"model":"Linux"}`), 0644)
	}
	if p.code[1] != 0 {
		// whenever the policy has an ipv6 directory: "aaa" is dual-stack and
		// "bbb6" exists with IPv6 code only
		os.WriteFile(filepath.Join(d, "code", "ipv6", "aaa"), []byte("ipv6 code of aaa\n"), 0644)
		os.WriteFile(filepath.Join(d, "code", "ipv6", "bbb6"), []byte("ipv6 code of bbb6\n"), 0644)
		os.WriteFile(filepath.Join(d, "code", "ipv6", "bbb6.info"), []byte(`{"model":"Linux"}`), 0644)
	}
	os.Remove(filepath.Join(w.dir, "policies", "current"))
	os.Symlink(fmt.Sprintf("p%d", p.n), filepath.Join(w.dir, "policies", "current"))
}

func newC13World(dir string) *c13World {
	w := &c13World{dir: dir, cfg: &program.Config{BaseDir: dir}, nextVer: 1}
	os.MkdirAll(filepath.Join(dir, "status"), 0755)
	os.MkdirAll(filepath.Join(dir, "policies"), 0755)
	os.WriteFile(filepath.Join(dir, ".netspoc-approve"), []byte("basedir = "+dir+"\n"), 0644)
	p := &c13Policy{n: 1, code: c13Code{1, 1, 1}, disk: "plain"}
	w.nextVer = 2
	w.policies = []*c13Policy{p}
	w.writePolicy(p)
	// the device starts with something Netspoc never generated
	w.device = nil
	return w
}

// enabled tells whether the event makes sense in this state.
func (w *c13World) enabled(ev string) bool {
	switch ev {
	case "bzip2":
		for _, p := range w.policies[:len(w.policies)-1] {
			if p.disk == "plain" {
				return true
			}
		}
		return false
	case "remove":
		for _, p := range w.policies[:len(w.policies)-1] {
			if p.disk != "gone" {
				return true
			}
		}
		return false
	case "new:drop-v6":
		return w.current().code[1] != 0
	case "new:drop-raw":
		return w.current().code[2] != 0
	case "repair":
		return w.device == nil || *w.device != w.current().code
	case "drift":
		return w.device != nil
	}
	if strings.HasPrefix(ev, "damage:") {
		_, err := os.Stat(filepath.Join(w.dir, "status", "router"))
		return err == nil
	}
	return true
}

func (w *c13World) apply(ev string) error {
	w.tick()
	statusFile := filepath.Join(w.dir, "status", "router")
	switch {
	case strings.HasPrefix(ev, "new:"):
		cur := w.current()
		p := &c13Policy{n: cur.n + 1, code: cur.code, disk: "plain"}
		switch ev {
		case "new:v4":
			p.code[0] = w.nextVer
			w.nextVer++
		case "new:v6":
			p.code[1] = w.nextVer
			w.nextVer++
		case "new:raw":
			p.code[2] = w.nextVer
			w.nextVer++
		case "new:drop-v6":
			p.code[1] = 0
		case "new:drop-raw":
			p.code[2] = 0
		}
		w.policies = append(w.policies, p)
		w.writePolicy(p)
	case ev == "approve-ok":
		c := w.current().code
		w.device = &c
		status.SetApprove(w.cfg, "router", fmt.Sprintf("p%d", w.current().n), false)
		w.obsP, w.obsEqual, w.dmg = w.current().n, true, false
	case ev == "approve-fail":
		status.SetApprove(w.cfg, "router", fmt.Sprintf("p%d", w.current().n), true)
	case ev == "compare":
		eq := w.device != nil && *w.device == w.current().code
		status.SetCompare(w.cfg, "router", fmt.Sprintf("p%d", w.current().n), !eq)
		w.obsP, w.obsEqual, w.dmg = w.current().n, eq, false
	case ev == "drift":
		w.device = nil
	case ev == "repair":
		c := w.current().code
		w.device = &c
	case ev == "bzip2":
		for _, p := range w.policies[:len(w.policies)-1] {
			if p.disk == "plain" {
				d := filepath.Join(w.pdir(p.n), "code")
				files := []string{filepath.Join(d, "router"), filepath.Join(d, "router.info")}
				for _, f := range []string{filepath.Join(d, "ipv6", "router"), filepath.Join(d, "router.raw")} {
					if _, err := os.Stat(f); err == nil {
						files = append(files, f)
					}
				}
				if out, err := exec.Command("bzip2", append([]string{"-9", "-f"}, files...)...).CombinedOutput(); err != nil {
					return fmt.Errorf("bzip2: %v %s", err, out)
				}
				p.disk = "bz2"
				break
			}
		}
	case ev == "remove":
		for _, p := range w.policies[:len(w.policies)-1] {
			if p.disk != "gone" {
				os.RemoveAll(w.pdir(p.n))
				p.disk = "gone"
				break
			}
		}
	case strings.HasPrefix(ev, "damage:"):
		data, _ := os.ReadFile(statusFile)
		var nd []byte
		switch ev {
		case "damage:empty":
			nd = nil
		case "damage:trunc1":
			nd = data[:len(data)/3]
		case "damage:trunc2":
			nd = data[:2*len(data)/3]
		case "damage:last":
			if len(data) > 0 {
				nd = data[:len(data)-1]
			}
		case "damage:garbage":
			nd = []byte("\x00\xff{{garbage")
		case "damage:key":
			nd = []byte(strings.Replace(string(data), `"compare"`, `"cempare"`, 1))
		case "damage:value":
			// the result of the compare record if there is one, else of the approve record
			st := string(data)
			if i := strings.Index(st, `"compare":{"result":"`); i >= 0 && !strings.HasPrefix(st[i+len(`"compare":{"result":"`):], `"`) {
				j := i + len(`"compare":{"result":"`)
				k := j + strings.Index(st[j:], `"`)
				st = st[:k-1] + string(st[k-1]+1) + st[k:]
			} else if i := strings.Index(st, `"approve":{"result":"`); i >= 0 && !strings.HasPrefix(st[i+len(`"approve":{"result":"`):], `"`) {
				j := i + len(`"approve":{"result":"`)
				k := j + strings.Index(st[j:], `"`)
				st = st[:k-1] + string(st[k-1]+1) + st[k:]
			}
			nd = []byte(st)
		case "damage:type":
			nd = []byte(c13TimeRE.ReplaceAllString(string(data), `"time":"$1"`))
		}
		os.WriteFile(statusFile, nd, 0644)
		w.dmg = true
	default:
		return fmt.Errorf("unknown event %q", ev)
	}
	return nil
}

// canon renders the state canonically (version ids by first appearance,
// times by rank).
func (w *c13World) canon() string {
	ren := map[int]int{}
	id := func(v int) int {
		if v == 0 {
			return 0 // file absent
		}
		if _, ok := ren[v]; !ok {
			ren[v] = len(ren) + 1
		}
		return ren[v]
	}
	var b strings.Builder
	// only the policies that still matter: current, observed, and the ones the status file names
	data, _ := os.ReadFile(filepath.Join(w.dir, "status", "router"))
	st := string(data)
	names := map[int]bool{w.current().n: true, w.obsP: true}
	for _, p := range w.policies {
		if strings.Contains(st, fmt.Sprintf(`"p%d"`, p.n)) {
			names[p.n] = true
		}
	}
	rank := 0
	pren := map[int]int{}
	nOther := 0
	for _, p := range w.policies {
		if !names[p.n] {
			if p.disk != "gone" {
				nOther++
			}
			continue
		}
		rank++
		pren[p.n] = rank
		fmt.Fprintf(&b, "P%d(%d,%d,%d,%s) ", rank, id(p.code[0]), id(p.code[1]), id(p.code[2]), p.disk)
	}
	fmt.Fprintf(&b, "others=%d ", nOther)
	if w.device == nil {
		b.WriteString("dev=DRIFT ")
	} else {
		fmt.Fprintf(&b, "dev=(%d,%d,%d) ", id(w.device[0]), id(w.device[1]), id(w.device[2]))
	}
	fmt.Fprintf(&b, "obs=%d/%v dmg=%v ", pren[w.obsP], w.obsEqual, w.dmg)
	// status with policy names and times replaced by ranks
	var v map[string]map[string]any
	if json.Unmarshal(data, &v) == nil {
		var times []float64
		for _, k := range []string{"approve", "compare"} {
			if t, ok := v[k]["time"].(float64); ok && t != 0 {
				times = append(times, t)
			}
		}
		sort.Float64s(times)
		for _, k := range []string{"approve", "compare"} {
			a := v[k]
			tr := 0
			for i, t := range times {
				if a["time"] == t {
					tr = i + 1
				}
			}
			pn := 0
			fmt.Sscanf(fmt.Sprint(a["policy"]), "p%d", &pn)
			fmt.Fprintf(&b, "%s=%v/%d/%d ", k, a["result"], pren[pn], tr)
		}
	} else {
		// damaged: shape of the damage relative to the full text
		b.WriteString("status=damaged:" + fmt.Sprint(len(data)) + ":" + strings.Map(func(r rune) rune {
			if r >= '0' && r <= '9' {
				return -1
			}
			return r
		}, st))
	}
	return b.String()
}

func (w *c13World) reference() (mustList, mustOmit bool) {
	if w.obsP == 0 || !w.obsEqual {
		return true, false
	}
	p := w.policy(w.obsP)
	if p.code != w.current().code {
		return true, false
	}
	return false, p.disk != "gone" && !w.dmg
}

// c13OthersMissing: the never-approved devices must be in the output.
func c13OthersMissing(out string, withV6 bool) string {
	names := []string{"aaa", "zzz"}
	if withV6 {
		names = append(names, "bbb6")
	}
	for _, n := range names {
		found := false
		for _, l := range strings.Split(out, "\n") {
			if strings.TrimSpace(l) == n {
				found = true
			}
		}
		if !found {
			return n
		}
	}
	return ""
}

func runMissingApprove(dir string) (listed bool, out string, err error) {
	cmd := exec.Command(filepath.Join(core.VerifDir, ".build", "bin", "missing-approve"))
	cmd.Env = append(os.Environ(), "HOME="+dir)
	b, err := cmd.CombinedOutput()
	out = string(b)
	for _, l := range strings.Split(out, "\n") {
		if strings.TrimSpace(l) == "router" {
			listed = true
		}
	}
	return
}

type c13Succ struct {
	History []string `json:"h"`
	Key     string   `json:"k"`
}

// c13Worker expands the frontier states of its shard by one event.
func c13Worker(ctx *core.Ctx) *core.Result {
	res := core.NewResult()
	if len(ctx.Args) < 1 {
		res.Broken = append(res.Broken, "missing frontier file")
		return res
	}
	data, err := os.ReadFile(ctx.Args[0])
	if err != nil {
		res.Broken = append(res.Broken, err.Error())
		return res
	}
	var frontier [][]string
	json.Unmarshal(data, &frontier)
	base, _ := os.MkdirTemp("/dev/shm", "verif-c13-")
	defer os.RemoveAll(base)
	var succs []c13Succ
	serial := 0
	for fi, hist := range frontier {
		if !ctx.Mine(int64(fi)) {
			continue
		}
		for _, ev := range c13Events {
			serial++
			dir := filepath.Join(base, fmt.Sprintf("w%d", serial))
			os.MkdirAll(dir, 0755)
			w := newC13World(dir)
			ok := true
			for _, e := range hist {
				if err := w.apply(e); err != nil {
					res.Broken = append(res.Broken, err.Error())
					ok = false
					break
				}
			}
			if !ok || !w.enabled(ev) {
				os.RemoveAll(dir)
				continue
			}
			if err := w.apply(ev); err != nil {
				res.Broken = append(res.Broken, err.Error())
				os.RemoveAll(dir)
				continue
			}
			res.Evaluations++
			res.Transitions++
			full := append(append([]string{}, hist...), ev)
			listed, out, err := runMissingApprove(dir)
			mustList, mustOmit := w.reference()
			res.Outcome(fmt.Sprintf("listed=%v mustList=%v mustOmit=%v", listed, mustList, mustOmit))
			if err != nil {
				res.AddViolation(core.Violation{Property: "C13", Engine: "histx", Space: "bfs", Events: full,
					Oracle: "exit-status", Signature: "missing-approve-failed", Message: out + err.Error()})
			} else if miss := c13OthersMissing(out, w.current().code[1] != 0); miss != "" {
				res.AddViolation(core.Violation{Property: "C13", Engine: "histx", Space: "bfs", Events: full,
					Oracle: "must-list", Signature: "forgotten-other-device:" + miss,
					Message: fmt.Sprintf("device %q was never approved but is not listed; output: %q; state: %s", miss, out, w.canon())})
			} else if mustList && !listed {
				st, _ := os.ReadFile(filepath.Join(dir, "status", "router"))
				res.AddViolation(core.Violation{Property: "C13", Engine: "histx", Space: "bfs", Events: full,
					Oracle: "must-list", Signature: "forgotten:" + c13Sig(full),
					Message: fmt.Sprintf("device not listed although the latest conclusive observation does not establish that it carries the current code; state: %s; status file: %q", w.canon(), st)})
			} else if mustOmit && listed {
				st, _ := os.ReadFile(filepath.Join(dir, "status", "router"))
				res.AddViolation(core.Violation{Property: "C13", Engine: "histx", Space: "bfs", Events: full,
					Oracle: "must-omit", Signature: "over-listed:" + c13Sig(full),
					Message: fmt.Sprintf("device listed although the latest conclusive observation establishes equality and the observed policy is on disk; state: %s; status file: %q", w.canon(), st)})
			}
			if mustList || mustOmit {
				res.Nontrivial++
			}
			succs = append(succs, c13Succ{History: full, Key: w.canon()})
			if len(res.Samples) < 2 && len(full) >= 3 {
				res.Sample(map[string]any{"history": full, "listed": listed, "mustList": mustList, "mustOmit": mustOmit, "state": w.canon()})
			}
			os.RemoveAll(dir)
		}
	}
	out, _ := json.Marshal(succs)
	os.WriteFile(fmt.Sprintf("%s.out.%d", ctx.Args[0], ctx.Shard), out, 0644)
	return res
}

// c13Sig abstracts a failing history: the kinds of the last conclusive
// events and of what followed.
func c13Sig(h []string) string {
	// events since (and including) the last approve-ok / compare
	last := 0
	for i, e := range h {
		if e == "approve-ok" || e == "compare" {
			last = i
		}
	}
	if h[last] == "approve-ok" {
		for _, e := range h[last:] {
			if e == "approve-fail" {
				return "failed-approve-after-ok"
			}
		}
	}
	var kinds []string
	seen := map[string]bool{}
	for _, e := range h[last:] {
		k := e
		if strings.HasPrefix(e, "damage:") {
			k = "damage"
		}
		if strings.HasPrefix(e, "new:") {
			k = "new"
		}
		if !seen[k] {
			seen[k] = true
			kinds = append(kinds, k)
		}
	}
	return strings.Join(kinds, ",")
}

func c13Run(ctx *core.Ctx) *core.Result {
	depth := 5
	if ctx.Thorough() {
		depth = 7
	}
	total := core.NewResult()
	dir, _ := os.MkdirTemp("/dev/shm", "verif-c13drv-")
	defer os.RemoveAll(dir)
	seen := map[string]bool{}
	frontier := [][]string{{}}
	for d := 1; d <= depth; d++ {
		if ctx.Expired() {
			total.Incomplete = append(total.Incomplete, fmt.Sprintf("deadline before depth %d", d))
			break
		}
		ff := filepath.Join(dir, fmt.Sprintf("frontier%d.json", d))
		data, _ := json.Marshal(frontier)
		os.WriteFile(ff, data, 0644)
		c := *ctx
		c.Args = []string{ff}
		n := 16
		if len(frontier) < 16 {
			n = len(frontier)
		}
		r := core.RunSharded(&c, n)
		total.Merge(r)
		var next [][]string
		for s := 0; s < n; s++ {
			var succs []c13Succ
			b, err := os.ReadFile(fmt.Sprintf("%s.out.%d", ff, s))
			if err != nil {
				continue
			}
			json.Unmarshal(b, &succs)
			for _, sc := range succs {
				if !seen[sc.Key] {
					seen[sc.Key] = true
					next = append(next, sc.History)
				}
			}
		}
		total.Count(fmt.Sprintf("new_states_at_depth_%d", d), int64(len(next)))
		frontier = next
	}
	total.States = int64(len(seen))
	total.Count("max_depth", int64(depth))
	if c13Extra != nil {
		c13Extra(ctx, total)
	}
	total.Validated = total.Transitions
	return total
}

var c13Extra func(ctx *core.Ctx, res *core.Result)

func init() {
	Workers["C13"] = c13Worker
	Checks["C13"] = &Check{
		Run: c13Run,
		Meta: func(tier string) core.Meta {
			return core.Meta{ID: "C13", Level: "model_checking",
				Rule: "breadth-first search over event histories with canonical-state de-duplication (version ids by first appearance, times and policy numbers by rank); events: new policy {same code, v4/v6/raw differs, ipv6 file dropped, raw file dropped (a dropped file can come back with new content)}, approve ok, approve failed, compare (result computed from the world), manual drift, manual repair, bzip2 of the oldest plain non-current policy (real bzip2), removal of the oldest non-current policy, status damage {empty, 1/3, 2/3, len-1, garbage, one letter of a key changed, a number turned into a string, one letter of a result word changed}; every event advances the clock and runs the real status.SetApprove/SetCompare on a real directory tree; after every event the real missing-approve binary runs on that tree (which also holds two never-approved devices sorted around the one under test - they must always be listed); reference = latest conclusive observation tracked from the event list: must-list if it does not establish equality with the current code, must-omit if it does, the observed policy is on disk and the status file is undamaged; non-trivial = states where one of the two obligations applies; every transition is an implementation run (traces_validated = transitions); end to end: for every device type x {do-approve, do-approve --brief} x {compare, approve} x {device differs, device equal, differs with a device error} the real do-approve runs against the simulator and the real missing-approve must list / omit the device accordingly; housekeeping: after each of 9 short histories the repository's cron scripts bin/compress-policies (compress_at = 0) and bin/delete-old-policies (non-current policies older than keep_history) run on the tree, alone and together, and the real missing-approve must still satisfy the reference",
				Assumptions: []string{"status written by the harness through status.SetApprove/SetCompare as doapprove.Main does after a run (do-approve's own derivation of failed/changed is covered by C09)",
					"strictly increasing clock, one second per event"},
				Bounds: map[string]any{"quick": "depth 5", "thorough": "depth 7"},
			}
		},
		QuickBudget:    170 * time.Second,
		ThoroughBudget: 40 * time.Minute,
	}
}
