// Package panmodel is an independent reference model of the candidate
// configuration of a PAN-OS firewall as the XML API manipulates it
// (set / edit / delete / move on xpath-addressed nodes), with the
// referential integrity rules the device enforces.
package panmodel

import (
	"encoding/xml"
	"fmt"
	"net/url"
	"sort"
	"strings"
)

type Node struct {
	Tag      string
	Name     string // value of attribute name, "" if none
	HasName  bool
	Text     string
	Children []*Node
}

func (n *Node) Clone() *Node {
	c := &Node{Tag: n.Tag, Name: n.Name, HasName: n.HasName, Text: n.Text}
	for _, ch := range n.Children {
		c.Children = append(c.Children, ch.Clone())
	}
	return c
}

// ParseXML parses a sequence of elements (a fragment) into nodes.
func ParseXML(s string) ([]*Node, error) {
	dec := xml.NewDecoder(strings.NewReader(s))
	var stack []*Node
	root := &Node{Tag: "#root"}
	stack = append(stack, root)
	for {
		tok, err := dec.Token()
		if err != nil {
			if err.Error() == "EOF" {
				break
			}
			return nil, err
		}
		switch t := tok.(type) {
		case xml.StartElement:
			n := &Node{Tag: t.Name.Local}
			for _, a := range t.Attr {
				if a.Name.Local == "name" {
					n.Name = a.Value
					n.HasName = true
				}
			}
			top := stack[len(stack)-1]
			top.Children = append(top.Children, n)
			stack = append(stack, n)
		case xml.EndElement:
			if len(stack) <= 1 {
				return nil, fmt.Errorf("unbalanced XML")
			}
			stack = stack[:len(stack)-1]
		case xml.CharData:
			txt := strings.TrimSpace(string(t))
			if txt != "" {
				stack[len(stack)-1].Text += txt
			}
		}
	}
	if len(stack) != 1 {
		return nil, fmt.Errorf("unterminated XML")
	}
	return root.Children, nil
}

func esc(s string) string {
	var b strings.Builder
	xml.EscapeText(&b, []byte(s))
	return b.String()
}

func (n *Node) write(b *strings.Builder) {
	b.WriteString("<" + n.Tag)
	if n.HasName {
		b.WriteString(` name="` + esc(n.Name) + `"`)
	}
	b.WriteString(">")
	b.WriteString(esc(n.Text))
	for _, c := range n.Children {
		c.write(b)
	}
	b.WriteString("</" + n.Tag + ">")
}

func (n *Node) String() string {
	var b strings.Builder
	n.write(&b)
	return b.String()
}

func (n *Node) child(tag, name string, hasName bool) *Node {
	for _, c := range n.Children {
		if c.Tag == tag && (!hasName || (c.HasName && c.Name == name)) {
			return c
		}
	}
	return nil
}

func (n *Node) Find(path ...string) *Node {
	cur := n
	for _, p := range path {
		cur = cur.child(p, "", false)
		if cur == nil {
			return nil
		}
	}
	return cur
}

// Entries returns the <entry> children of the node at path.
func (n *Node) Entries(path ...string) []*Node {
	p := n.Find(path...)
	if p == nil {
		return nil
	}
	var l []*Node
	for _, c := range p.Children {
		if c.Tag == "entry" {
			l = append(l, c)
		}
	}
	return l
}

func (n *Node) Members(path ...string) []string {
	p := n.Find(path...)
	if p == nil {
		return nil
	}
	var l []string
	for _, c := range p.Children {
		if c.Tag == "member" {
			l = append(l, c.Text)
		}
	}
	return l
}

// Dev is the candidate configuration: the <devices> element.
type Dev struct {
	Devices *Node
	// Shared object names that may be referenced without definition.
	Shared map[string]bool
}

func (d *Dev) Clone() *Dev {
	return &Dev{Devices: d.Devices.Clone(), Shared: d.Shared}
}

// Load accepts "<config><devices>..." (Netspoc form) or the saved device
// form "http...\n<response><result><devices>...".
func Load(text string) (*Dev, error) {
	if strings.HasPrefix(text, "http") {
		i := strings.Index(text, "\n")
		text = text[i+1:]
	}
	if strings.TrimSpace(text) == "" {
		return &Dev{Devices: &Node{Tag: "devices"}, Shared: map[string]bool{}}, nil
	}
	nodes, err := ParseXML(text)
	if err != nil {
		return nil, err
	}
	var find func(l []*Node) *Node
	find = func(l []*Node) *Node {
		for _, n := range l {
			if n.Tag == "devices" {
				return n
			}
			if r := find(n.Children); r != nil {
				return r
			}
		}
		return nil
	}
	dv := find(nodes)
	if dv == nil {
		return nil, fmt.Errorf("no <devices> element")
	}
	normalize(dv)
	d := &Dev{Devices: dv, Shared: map[string]bool{}}
	// names that dangle from the start are defined elsewhere (<shared>)
	for k := range d.dangling() {
		_, name, _ := strings.Cut(k, "/")
		d.Shared[name] = true
	}
	return d, nil
}

// normalize merges repeated container elements (the repository's test
// templates write <source><member>a</member></source><source>...): a
// device holds one container per kind.
func normalize(n *Node) {
	var out []*Node
	for _, c := range n.Children {
		if c.Tag != "entry" && c.Tag != "member" {
			merged := false
			for _, o := range out {
				if o.Tag == c.Tag && !o.HasName && !c.HasName && o.Text == "" && c.Text == "" {
					o.Children = append(o.Children, c.Children...)
					merged = true
					break
				}
			}
			if merged {
				continue
			}
		}
		out = append(out, c)
	}
	n.Children = out
	for _, c := range n.Children {
		normalize(c)
	}
}

// Print renders the saved-device form that the tool's parser accepts.
func (d *Dev) Print() string {
	return "https://device/api/?key=xxx&type=config&action=get&xpath=/config/devices\n" +
		`<response status="success"><result>` + d.Devices.String() + `</result></response>` + "\n"
}

type step struct {
	tag     string
	name    string
	hasName bool
	text    string
	hasText bool
}

func parseXPath(p string) ([]step, error) {
	if !strings.HasPrefix(p, "/") {
		return nil, fmt.Errorf("xpath must be absolute: %q", p)
	}
	var out []step
	// split at '/' outside of brackets/quotes
	var parts []string
	depth, inq := 0, false
	cur := ""
	for _, r := range p[1:] {
		switch {
		case r == '\'':
			inq = !inq
			cur += string(r)
		case r == '[' && !inq:
			depth++
			cur += string(r)
		case r == ']' && !inq:
			depth--
			cur += string(r)
		case r == '/' && depth == 0 && !inq:
			parts = append(parts, cur)
			cur = ""
		default:
			cur += string(r)
		}
	}
	parts = append(parts, cur)
	for _, part := range parts {
		s := step{}
		if i := strings.Index(part, "["); i >= 0 {
			s.tag = part[:i]
			pred := strings.TrimSuffix(part[i+1:], "]")
			switch {
			case strings.HasPrefix(pred, "@name='") && strings.HasSuffix(pred, "'"):
				s.name = pred[len("@name='") : len(pred)-1]
				s.hasName = true
			case strings.HasPrefix(pred, "text()='") && strings.HasSuffix(pred, "'"):
				s.text = pred[len("text()='") : len(pred)-1]
				s.hasText = true
			default:
				return nil, fmt.Errorf("unsupported predicate %q", pred)
			}
		} else {
			s.tag = part
		}
		if s.tag == "" {
			return nil, fmt.Errorf("empty step in xpath %q", p)
		}
		out = append(out, s)
	}
	return out, nil
}

func (d *Dev) root() *Node {
	return &Node{Tag: "config", Children: []*Node{d.Devices}}
}

// resolve returns the node addressed by steps, its parent and index;
// create=true creates missing nodes on the way.
func (d *Dev) resolve(steps []step, create bool) (node, parent *Node, err error) {
	if len(steps) < 2 || steps[0].tag != "config" || steps[1].tag != "devices" {
		return nil, nil, fmt.Errorf("xpath outside /config/devices")
	}
	cur := d.Devices
	var par *Node
	for _, s := range steps[2:] {
		var next *Node
		for _, c := range cur.Children {
			if c.Tag != s.tag {
				continue
			}
			if s.hasName && !(c.HasName && c.Name == s.name) {
				continue
			}
			if s.hasText && c.Text != s.text {
				continue
			}
			next = c
			break
		}
		if next == nil {
			if !create {
				return nil, nil, fmt.Errorf("object %q not present", s.tag+"["+s.name+s.text+"]")
			}
			next = &Node{Tag: s.tag, Name: s.name, HasName: s.hasName}
			if s.hasText {
				next.Text = s.text
			}
			cur.Children = append(cur.Children, next)
		}
		par = cur
		cur = next
	}
	return cur, par, nil
}

func merge(dst *Node, add []*Node) {
	for _, a := range add {
		if a.Tag == "member" {
			found := false
			for _, c := range dst.Children {
				if c.Tag == "member" && c.Text == a.Text {
					found = true
				}
			}
			if !found {
				dst.Children = append(dst.Children, a.Clone())
			}
			continue
		}
		ex := dst.child(a.Tag, a.Name, a.HasName)
		if ex == nil {
			dst.Children = append(dst.Children, a.Clone())
			continue
		}
		if len(a.Children) == 0 {
			ex.Text = a.Text
			continue
		}
		merge(ex, a.Children)
	}
}

// Cmd is one API call of the change script in unescaped form
// "action=...&type=config&xpath=...[&element=...][&where=before&dst=...]".
func parseCmd(cmd string) (map[string]string, error) {
	m := map[string]string{}
	// "element=" is always the last parameter; its value may contain '&'
	if i := strings.Index(cmd, "&element="); i >= 0 {
		m["element"] = cmd[i+len("&element="):]
		cmd = cmd[:i]
	}
	for _, kv := range strings.Split(cmd, "&") {
		k, v, ok := strings.Cut(kv, "=")
		if !ok {
			return nil, fmt.Errorf("bad parameter %q", kv)
		}
		if _, dup := m[k]; dup {
			return nil, fmt.Errorf("duplicate parameter %q", k)
		}
		m[k] = v
	}
	return m, nil
}

// Exec executes one configuration API call.
func (d *Dev) Exec(cmd string) error {
	if u, err := url.QueryUnescape(cmd); err == nil && strings.Contains(cmd, "%") {
		cmd = u
	}
	m, err := parseCmd(cmd)
	if err != nil {
		return err
	}
	if m["type"] != "config" {
		return fmt.Errorf("unsupported type %q", m["type"])
	}
	steps, err := parseXPath(m["xpath"])
	if err != nil {
		return err
	}
	before := d.dangling()
	switch m["action"] {
	case "set":
		elems, err := ParseXML(m["element"])
		if err != nil {
			return fmt.Errorf("bad element: %v", err)
		}
		node, _, err := d.resolve(steps, true)
		if err != nil {
			return err
		}
		merge(node, elems)
	case "edit":
		elems, err := ParseXML(m["element"])
		if err != nil {
			return fmt.Errorf("bad element: %v", err)
		}
		if len(elems) != 1 || elems[0].Tag != steps[len(steps)-1].tag {
			return fmt.Errorf("edit: element must be the node addressed by xpath")
		}
		node, _, err := d.resolve(steps, false)
		if err != nil {
			return fmt.Errorf("edit: %v", err)
		}
		last := steps[len(steps)-1]
		if last.hasName && elems[0].Name != last.name {
			return fmt.Errorf("edit: name of element differs from xpath")
		}
		node.Text = elems[0].Text
		node.Children = elems[0].Clone().Children
	case "delete":
		node, par, err := d.resolve(steps, false)
		if err != nil {
			return fmt.Errorf("delete: %v", err)
		}
		// referenced objects must not be deleted
		if kind := objectKind(steps); kind != "" && !d.Shared[node.Name] {
			if by := d.referrer(vsysOf(steps), kind, node.Name); by != "" {
				return fmt.Errorf("delete: %s %q is still referenced by %s", kind, node.Name, by)
			}
		}
		for i, c := range par.Children {
			if c == node {
				par.Children = append(par.Children[:i:i], par.Children[i+1:]...)
				break
			}
		}
	case "move":
		node, par, err := d.resolve(steps, false)
		if err != nil {
			return fmt.Errorf("move: %v", err)
		}
		if m["where"] != "before" {
			return fmt.Errorf("move: unsupported where=%q", m["where"])
		}
		dst := m["dst"]
		if dst == node.Name {
			return fmt.Errorf("move: destination is the rule itself")
		}
		var rest []*Node
		for _, c := range par.Children {
			if c != node {
				rest = append(rest, c)
			}
		}
		pos := -1
		for i, c := range rest {
			if c.Tag == "entry" && c.Name == dst {
				pos = i
			}
		}
		if pos < 0 {
			return fmt.Errorf("move: destination rule %q does not exist", dst)
		}
		out := append([]*Node{}, rest[:pos]...)
		out = append(out, node)
		out = append(out, rest[pos:]...)
		par.Children = out
	default:
		return fmt.Errorf("unsupported action %q", m["action"])
	}
	// a command must not introduce a dangling reference (references that
	// dangle from the start are objects defined elsewhere, e.g. <shared>)
	for k, msg := range d.dangling() {
		if _, was := before[k]; !was {
			return fmt.Errorf("%s", msg)
		}
	}
	return d.uniqueRuleNames()
}

// dangling returns the unresolved references: "vsys/name" -> message.
func (d *Dev) dangling() map[string]string {
	out := map[string]string{}
	d.checkRefsWith(func(vsys, ref, msg string) { out[vsys+"/"+ref] = msg })
	return out
}

func (d *Dev) uniqueRuleNames() error {
	for _, v := range d.Vsys() {
		seen := map[string]bool{}
		for _, r := range v.Entries("rulebase", "security", "rules") {
			if seen[r.Name] {
				return fmt.Errorf("duplicate rule name %q", r.Name)
			}
			seen[r.Name] = true
		}
	}
	return nil
}

// checkRefsWith reports every reference in every vsys that does not resolve.
func (d *Dev) checkRefsWith(report func(vsys, ref, msg string)) {
	for _, v := range d.Vsys() {
		addr, grp := names(v, "address"), names(v, "address-group")
		svc, sgrp := names(v, "service"), names(v, "service-group")
		okAddr := func(n string) bool { return n == "any" || addr[n] || grp[n] || d.Shared[n] }
		okSvc := func(n string) bool {
			return n == "any" || n == "application-default" || svc[n] || sgrp[n] || d.Shared[n] ||
				n == "service-http" || n == "service-https"
		}
		for _, r := range v.Entries("rulebase", "security", "rules") {
			for _, f := range []string{"source", "destination"} {
				for _, m := range r.Members(f) {
					if !okAddr(m) {
						report(v.Name, m, fmt.Sprintf("rule %q of %s references unknown address %q", r.Name, v.Name, m))
					}
				}
			}
			for _, m := range r.Members("service") {
				if !okSvc(m) {
					report(v.Name, m, fmt.Sprintf("rule %q of %s references unknown service %q", r.Name, v.Name, m))
				}
			}
		}
		for _, g := range v.Entries("address-group") {
			for _, m := range g.Members("static") {
				if !okAddr(m) {
					report(v.Name, m, fmt.Sprintf("address-group %q of %s references unknown address %q", g.Name, v.Name, m))
				}
			}
		}
		for _, g := range v.Entries("service-group") {
			for _, m := range g.Members("members") {
				if !okSvc(m) {
					report(v.Name, m, fmt.Sprintf("service-group %q of %s references unknown service %q", g.Name, v.Name, m))
				}
			}
		}
	}
}

// ---------------------------------------------------------------------
// Semantic view.

func canonChildren(n *Node, skip map[string]bool) string {
	var l []string
	for _, c := range n.Children {
		if skip[c.Tag] {
			continue
		}
		l = append(l, c.String())
	}
	sort.Strings(l)
	return strings.Join(l, "")
}

func (d *Dev) expandAddr(v *Node, name string, depth int) []string {
	if depth > 4 {
		return []string{"CYCLE"}
	}
	for _, a := range v.Entries("address") {
		if a.Name == name {
			return []string{"addr{" + canonChildren(a, nil) + "}"}
		}
	}
	for _, g := range v.Entries("address-group") {
		if g.Name == name {
			var l []string
			for _, m := range g.Members("static") {
				l = append(l, d.expandAddr(v, m, depth+1)...)
			}
			extra := canonChildren(g, map[string]bool{"static": true})
			if extra != "" {
				l = append(l, "gattr{"+extra+"}")
			}
			return l
		}
	}
	return []string{"name:" + name}
}

func (d *Dev) expandSvc(v *Node, name string, depth int) []string {
	if depth > 4 {
		return []string{"CYCLE"}
	}
	for _, a := range v.Entries("service") {
		if a.Name == name {
			return []string{"svc{" + canonChildren(a, nil) + "}"}
		}
	}
	for _, g := range v.Entries("service-group") {
		if g.Name == name {
			var l []string
			for _, m := range g.Members("members") {
				l = append(l, d.expandSvc(v, m, depth+1)...)
			}
			return l
		}
	}
	return []string{"name:" + name}
}

func setOf(l []string) string {
	sort.Strings(l)
	var u []string
	for i, s := range l {
		if i == 0 || s != l[i-1] {
			u = append(u, s)
		}
	}
	return strings.Join(u, ",")
}

// implicit defaults of rule attributes that the device omits / the tool ignores
var anyDefault = map[string]bool{"source-user": true, "category": true, "source-hip": true, "destination-hip": true}

// SemVsys returns the ordered list of canonical rules of a vsys.
func (d *Dev) SemVsys(name string) []string {
	v := d.vsys(name)
	if v == nil {
		return nil
	}
	var out []string
	for _, r := range v.Entries("rulebase", "security", "rules") {
		var src, dst, svc []string
		for _, m := range r.Members("source") {
			src = append(src, d.expandAddr(v, m, 0)...)
		}
		for _, m := range r.Members("destination") {
			dst = append(dst, d.expandAddr(v, m, 0)...)
		}
		for _, m := range r.Members("service") {
			svc = append(svc, d.expandSvc(v, m, 0)...)
		}
		var other []string
		for _, c := range r.Children {
			switch c.Tag {
			case "source", "destination", "service", "APPEND":
				continue
			}
			if anyDefault[c.Tag] && len(c.Children) == 1 && c.Children[0].Text == "any" {
				continue
			}
			other = append(other, c.String())
		}
		sort.Strings(other)
		out = append(out, fmt.Sprintf("src{%s} dst{%s} svc{%s} %s",
			setOf(src), setOf(dst), setOf(svc), strings.Join(other, "")))
	}
	return out
}

// Outside returns everything outside the given vsys names (frame
// condition, C07): canonical text of the device tree with the rulebase,
// address, address-group, service, service-group of those vsys removed.
func (d *Dev) Outside(managed map[string]bool) string {
	c := d.Devices.Clone()
	for _, dev := range c.Children {
		vs := dev.Find("vsys")
		if vs == nil {
			continue
		}
		for _, v := range vs.Children {
			if v.Tag == "entry" && managed[v.Name] {
				var keep []*Node
				for _, ch := range v.Children {
					switch ch.Tag {
					case "rulebase", "address", "address-group", "service", "service-group":
					default:
						keep = append(keep, ch)
					}
				}
				v.Children = keep
			}
		}
	}
	return c.String()
}

func vsysOf(steps []step) string {
	for i, s := range steps {
		if s.tag == "vsys" && i+1 < len(steps) {
			return steps[i+1].name
		}
	}
	return ""
}

// objectKind tells whether the xpath addresses a whole object entry.
func objectKind(steps []step) string {
	n := len(steps)
	if n >= 2 && steps[n-1].tag == "entry" {
		switch steps[n-2].tag {
		case "address", "address-group", "service", "service-group":
			return steps[n-2].tag
		}
	}
	return ""
}

func (d *Dev) Vsys() []*Node {
	var l []*Node
	for _, dev := range d.Devices.Children {
		if dev.Tag == "entry" {
			l = append(l, dev.Entries("vsys")...)
		}
	}
	return l
}

func (d *Dev) vsys(name string) *Node {
	for _, v := range d.Vsys() {
		if v.Name == name {
			return v
		}
	}
	return nil
}

func names(v *Node, kind string) map[string]bool {
	m := map[string]bool{}
	for _, e := range v.Entries(kind) {
		m[e.Name] = true
	}
	return m
}

// referrer returns a description of a rule or group referencing the object.
func (d *Dev) referrer(vsys, kind, name string) string {
	v := d.vsys(vsys)
	if v == nil {
		return ""
	}
	switch kind {
	case "address", "address-group":
		for _, r := range v.Entries("rulebase", "security", "rules") {
			for _, f := range []string{"source", "destination"} {
				for _, m := range r.Members(f) {
					if m == name {
						return fmt.Sprintf("rule %q", r.Name)
					}
				}
			}
		}
		for _, g := range v.Entries("address-group") {
			if kind == "address-group" && g.Name == name {
				continue
			}
			for _, m := range g.Members("static") {
				if m == name {
					return fmt.Sprintf("address-group %q", g.Name)
				}
			}
		}
	case "service", "service-group":
		for _, r := range v.Entries("rulebase", "security", "rules") {
			for _, m := range r.Members("service") {
				if m == name {
					return fmt.Sprintf("rule %q", r.Name)
				}
			}
		}
		for _, g := range v.Entries("service-group") {
			if kind == "service-group" && g.Name == name {
				continue
			}
			for _, m := range g.Members("members") {
				if m == name {
					return fmt.Sprintf("service-group %q", g.Name)
				}
			}
		}
	}
	return ""
}


// HasNestedGroups tells whether an address-group of the vsys has a group
// as member (not supported by the tool, never generated by Netspoc).
func (d *Dev) HasNestedGroups() bool {
	for _, v := range d.Vsys() {
		grp := names(v, "address-group")
		for _, g := range v.Entries("address-group") {
			for _, m := range g.Members("static") {
				if grp[m] {
					return true
				}
			}
		}
	}
	return false
}

// SharedNames returns the names that the given configuration parts
// reference without defining them in the same vsys: such objects live in
// <shared> (outside the tool's and the model's view).
func SharedNames(texts ...string) map[string]bool {
	defined := map[string]bool{}
	refd := map[string]bool{}
	for _, t := range texts {
		if strings.TrimSpace(t) == "" {
			continue
		}
		d, err := Load(t)
		if err != nil {
			continue
		}
		for _, v := range d.Vsys() {
			for _, k := range []string{"address", "address-group", "service", "service-group"} {
				for n := range names(v, k) {
					defined[v.Name+"/"+n] = true
				}
			}
			for _, r := range v.Entries("rulebase", "security", "rules") {
				for _, f := range []string{"source", "destination", "service"} {
					for _, m := range r.Members(f) {
						refd[v.Name+"/"+m] = true
					}
				}
			}
			for _, g := range v.Entries("address-group") {
				for _, m := range g.Members("static") {
					refd[v.Name+"/"+m] = true
				}
			}
			for _, g := range v.Entries("service-group") {
				for _, m := range g.Members("members") {
					refd[v.Name+"/"+m] = true
				}
			}
		}
	}
	out := map[string]bool{}
	for k := range refd {
		if !defined[k] {
			_, n, _ := strings.Cut(k, "/")
			out[n] = true
		}
	}
	return out
}
