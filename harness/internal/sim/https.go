//go:build verif

package sim

import (
	"encoding/json"
	"fmt"
	"io"
	"net/http"
	"net/http/httptest"
	"net/url"
	"strings"
	"sync"
	"time"

	"verif/harness/internal/nsxmodel"
	"verif/harness/internal/panmodel"
)

// Deviation kinds for HTTPS devices.
const (
	DevHTTP500     = "http500"
	DevHTTP403     = "http403"
	DevHTTP502E    = "http502-empty"  // error status with an empty body (gateway in front of the device)
	DevHTTP400J    = "http400-json"   // error status with a JSON/XML error document
	DevStallBody   = "stall-body"     // status line, headers and the first bytes of the body arrive, then nothing more
	DevRedirClose  = "redirect-close" // 307 to a location that keeps the query; that request is then closed
	DevRedirLoop   = "redirect-loop"  // 307 to itself until the client gives up
	DevMalformed   = "malformed"
	DevTruncated   = "truncated"    // the genuine reply, cut off right behind the key / token it carries (or in the middle), sent as a complete reply
	DevHTTP404Echo = "http404-echo" // error page of a web server / proxy that quotes the requested URL
	DevAPIError    = "api-error"    // PAN-OS status="error"
	DevCommitMsg   = "commit-msg"   // PAN-OS commit answers with a message
	DevJobFail     = "job-fail"     // PAN-OS commit job result FAIL
	DevJobPend     = "job-pend"     // PAN-OS: PEND twice, then the result
	DevJobPendLong = "job-pend-long" // PAN-OS: PEND seventy times (more than 10 minutes of polls), then FAIL
)

// StallBodyMax: how long a client may stay connected to a reply that
// stalled inside its body before it counts as waiting forever (the
// configured time-out of the runs is 1 s).
var StallBodyMax = 25 * time.Second

// HTTPS is a TLS server wrapping the PAN-OS or the NSX model.
type HTTPS struct {
	Flavor        string // panos nsx
	Hostname      string
	Key           string // API key / xsrf token handed out at login
	User          string
	Pass          string
	Pan           *panmodel.Dev // candidate configuration
	PanRun        *panmodel.Dev // running configuration (after commit)
	Nsx           *nsxmodel.Dev
	HA            string         // PAN-OS: XML of <result> for the HA query ("" = not enabled)
	Dev           map[int]string // point -> deviation
	PageSize      int            // NSX: results per page (cursor paging)
	Extra         []nsxmodel.Obj // NSX: objects without the Netspoc prefix (policies)
	ExtraGroups   []nsxmodel.Obj
	ExtraServices []nsxmodel.Obj

	mu       sync.Mutex
	Trans    []Rec
	point    int
	redirect string // pending redirect deviation
	DirtyBy  string // PAN-OS: the candidate configuration holds uncommitted changes of this administrator
	Hung     int    // replies stalled inside the body that the client never gave up on
	Srv      *httptest.Server
	Commits  int
	jobPolls int
	jobMode  string
	stalled  bool
}

func (h *HTTPS) Start() string {
	h.Srv = httptest.NewUnstartedServer(http.HandlerFunc(h.serve))
	h.Srv.Config.ErrorLog = nil
	h.Srv.StartTLS()
	return h.Srv.URL
}

func (h *HTTPS) Close() {
	if h.Srv != nil {
		h.Srv.CloseClientConnections()
		h.Srv.Close()
	}
}

func (h *HTTPS) rec(text, class, dev string, accepted bool) {
	h.Trans = append(h.Trans, Rec{Batch: h.point, Point: h.point, Text: text, Class: class, Dev: dev, Accepted: accepted})
}

func (h *HTTPS) serve(w http.ResponseWriter, r *http.Request) {
	h.mu.Lock()
	defer h.mu.Unlock()
	if strings.HasPrefix(r.URL.Path, "/redirected") {
		// follow-up of a redirect deviation: not a dialogue point of its own
		if h.redirect == DevRedirLoop {
			loc := r.URL.Path
			if r.URL.RawQuery != "" {
				loc += "?" + r.URL.RawQuery
			}
			w.Header().Set("Location", loc)
			w.WriteHeader(307)
			return
		}
		if hj, ok := w.(http.Hijacker); ok {
			if c, _, err := hj.Hijack(); err == nil {
				c.Close()
			}
		}
		return
	}
	h.point++
	dev := h.Dev[h.point]
	body, _ := io.ReadAll(r.Body)
	desc := r.Method + " " + r.URL.Path
	if r.URL.RawQuery != "" {
		q, _ := url.QueryUnescape(r.URL.RawQuery)
		desc += "?" + q
	}
	class := h.classify(r)
	// the transcript never holds the secrets themselves
	desc = strings.Replace(desc, "key="+h.Key, "key=<key>", 1)
	desc = strings.Replace(desc, "key="+strings.ReplaceAll(h.Key, "+", " "), "key=<key>", 1)
	if i := strings.Index(desc, "&password="); i >= 0 {
		desc = desc[:i] + "&password=<password>"
	}
	switch dev {
	case DevStall:
		h.rec(desc, class, dev, false)
		// longer than the client's time-out (config: timeout = 1)
		h.mu.Unlock()
		time.Sleep(1500 * time.Millisecond)
		h.mu.Lock()
		return
	case DevStallBody:
		h.rec(desc, class, dev, false)
		w.Header().Set("Content-Length", "100000")
		w.WriteHeader(200)
		w.Write([]byte("<response status="))
		if f, ok := w.(http.Flusher); ok {
			f.Flush()
		}
		// the client must give up on its own (config: timeout = 1); if it is
		// still connected after StallBodyMax it would wait forever
		h.mu.Unlock()
		select {
		case <-r.Context().Done():
		case <-time.After(StallBodyMax):
			h.Hung++
		}
		h.mu.Lock()
		return
	case DevClose:
		h.rec(desc, class, dev, false)
		if hj, ok := w.(http.Hijacker); ok {
			if c, _, err := hj.Hijack(); err == nil {
				c.Close()
			}
		}
		return
	case DevHTTP500:
		h.rec(desc, class, dev, false)
		http.Error(w, "internal error", 500)
		return
	case DevHTTP403:
		h.rec(desc, class, dev, false)
		http.Error(w, "forbidden", 403)
		return
	case DevHTTP502E:
		h.rec(desc, class, dev, false)
		w.Header().Set("Content-Length", "0")
		w.WriteHeader(502)
		return
	case DevHTTP400J:
		h.rec(desc, class, dev, false)
		w.WriteHeader(400)
		if h.Flavor == "panos" {
			w.Write([]byte(`<response status="error" code="400"><msg>Bad request</msg></response>`))
		} else {
			w.Header().Set("Content-Type", "application/json")
			w.Write([]byte(`{"httpStatus":"BAD_REQUEST","error_code":500012,"module_name":"Policy","error_message":"Invalid request"}`))
		}
		return
	case DevRedirClose, DevRedirLoop:
		h.rec(desc, class, dev, false)
		h.redirect = dev
		loc := "/redirected" + r.URL.Path
		if r.URL.RawQuery != "" {
			loc += "?" + r.URL.RawQuery
		}
		w.Header().Set("Location", loc)
		w.WriteHeader(307)
		return
	case DevMalformed:
		h.rec(desc, class, dev, false)
		w.Write([]byte("<<<not xml, not json"))
		return
	}
	if dev == DevHTTP404Echo {
		h.rec(desc, class, dev, false)
		w.Header().Set("Content-Type", "text/html")
		w.WriteHeader(404)
		fmt.Fprintf(w, "<html><head><title>404 Not Found</title></head><body><h1>Not Found</h1><p>The requested URL %s was not found on this server.</p></body></html>\n", r.URL.RequestURI())
		return
	}
	if dev == DevTruncated {
		// the request is served, its reply is cut off
		rec := httptest.NewRecorder()
		if h.Flavor == "panos" {
			h.servePanos(rec, r, desc, class, "")
		} else {
			h.serveNSX(rec, r, string(body), desc, class, "")
		}
		if n := len(h.Trans); n > 0 {
			h.Trans[n-1].Dev, h.Trans[n-1].Accepted = dev, false
		}
		full := rec.Body.String()
		cut := len(full) / 2
		if i := strings.Index(full, h.Key); i >= 0 && h.Key != "" {
			cut = i + len(h.Key) + 3 // inside the closing tag behind the key
			if cut > len(full) {
				cut = len(full)
			}
		}
		for k, v := range rec.Header() {
			if k != "Content-Length" {
				w.Header()[k] = v
			}
		}
		w.WriteHeader(rec.Code)
		w.Write([]byte(full[:cut]))
		return
	}
	if h.Flavor == "panos" {
		h.servePanos(w, r, desc, class, dev)
		return
	}
	h.serveNSX(w, r, string(body), desc, class, dev)
}

func (h *HTTPS) classify(r *http.Request) string {
	q := r.URL.Query()
	if h.Flavor == "panos" {
		switch q.Get("type") {
		case "keygen":
			return ClLogin
		case "op":
			return ClRead
		case "commit":
			return ClSave
		case "config":
			if q.Get("action") == "get" || q.Get("action") == "show" {
				return ClRead
			}
			return ClChange
		}
		return ClOther
	}
	if strings.HasSuffix(r.URL.Path, "/api/session/create") {
		return ClLogin
	}
	if r.Method == "GET" {
		return ClRead
	}
	return ClChange
}

func panOK(inner string) string {
	return `<response status="success"><result>` + inner + `</result></response>`
}

func (h *HTTPS) servePanos(w http.ResponseWriter, r *http.Request, desc, class, dev string) {
	q := r.URL.Query()
	apiErr := func() {
		w.Write([]byte(`<response status="error" code="12"><msg>Invalid request</msg></response>`))
	}
	switch q.Get("type") {
	case "keygen":
		h.rec("GET /api/?type=keygen&user="+q.Get("user")+"&password=<password>", class, dev, dev == "")
		if dev == DevAPIError || q.Get("password") != h.Pass || q.Get("user") != h.User {
			w.WriteHeader(403)
			w.Write([]byte(`<response status="error" code="403"><result><msg>Invalid credentials.</msg></result></response>`))
			return
		}
		w.Write([]byte(panOK("<key>" + h.Key + "</key>")))
		return
	}
	// the tool puts the key into the URL unescaped; a '+' arrives as blank
	if q.Get("key") != h.Key && q.Get("key") != strings.ReplaceAll(h.Key, "+", " ") {
		h.rec(desc, class, "bad-key", false)
		w.WriteHeader(403)
		apiErr()
		return
	}
	// never record the key
	desc = strings.Replace(desc, "key="+h.Key, "key=<key>", 1)
	switch q.Get("type") {
	case "op":
		cmd := q.Get("cmd")
		switch {
		case strings.Contains(cmd, "high-availability"):
			h.rec(desc, class, dev, dev == "")
			if dev == DevAPIError {
				apiErr()
				return
			}
			if h.HA == "" {
				w.Write([]byte(panOK("<enabled>no</enabled>")))
			} else {
				w.Write([]byte(panOK(h.HA)))
			}
		case strings.Contains(cmd, "<jobs>"):
			h.rec(desc, class, dev, dev == "")
			h.jobPolls++
			res := "OK"
			if h.jobMode == DevJobFail || h.jobMode == DevJobPendLong {
				res = "FAIL"
			}
			if h.jobMode == DevJobPendLong && h.jobPolls <= 70 {
				res = "PEND"
			}
			if h.jobMode == DevJobPend && h.jobPolls <= 2 {
				res = "PEND"
			}
			if dev == DevAPIError {
				apiErr()
				return
			}
			if res == "OK" {
				h.PanRun = h.Pan.Clone()
			}
			w.Write([]byte(panOK("<job><id>7</id><result>" + res + "</result></job>")))
		default:
			h.rec(desc, class, dev, false)
			apiErr()
		}
	case "config":
		switch q.Get("action") {
		case "get":
			h.rec(desc, class, dev, dev == "")
			if dev == DevAPIError {
				apiErr()
				return
			}
			cfg := h.Pan.Devices.String()
			if h.DirtyBy != "" {
				// uncommitted candidate changes carry these attributes
				// (here: the first rule of the first vsys, changed by DirtyBy)
				cfg = strings.Replace(cfg, `<rules><entry `, `<rules><entry admin="`+h.DirtyBy+`" dirtyId="7" time="2024/09/29 16:00:00" `, 1)
			}
			w.Write([]byte(panOK(cfg)))
		case "show":
			h.rec(desc, class, dev, dev == "")
			w.Write([]byte(panOK(h.PanRun.Devices.String())))
		default:
			if dev == DevAPIError {
				h.rec(desc, class, dev, false)
				apiErr()
				return
			}
			// rebuild the command in the form the model executes
			cmd := "action=" + q.Get("action") + "&type=config&xpath=" + q.Get("xpath")
			if q.Get("action") == "move" {
				cmd += "&where=" + q.Get("where") + "&dst=" + q.Get("dst")
			}
			if e := q.Get("element"); e != "" {
				cmd += "&element=" + e
			}
			if err := h.Pan.Exec(cmd); err != nil {
				h.rec(desc, class, "model:"+err.Error(), false)
				w.Write([]byte(`<response status="error" code="12"><msg><line>` + xmlEsc(err.Error()) + `</line></msg></response>`))
				return
			}
			h.rec(desc, class, "", true)
			w.Write([]byte(`<response status="success" code="20"><msg>command succeeded</msg></response>`))
		}
	case "commit":
		switch dev {
		case DevAPIError:
			h.rec(desc, class, dev, false)
			apiErr()
			return
		case DevCommitMsg:
			h.rec(desc, class, dev, false)
			w.Write([]byte(`<response status="success" code="13"><msg>Another commit is in progress</msg></response>`))
			return
		}
		if dev == DevJobFail || dev == DevJobPend || dev == DevJobPendLong {
			h.jobMode = dev
		}
		h.rec(desc, class, dev, dev == "" || dev == DevJobPend)
		h.Commits++
		h.jobPolls = 0
		w.Write([]byte(`<response status="success" code="19"><result><msg><line>Commit job enqueued with jobid 7</line></msg><job>7</job></result></response>`))
	default:
		h.rec(desc, class, dev, false)
		apiErr()
	}
}

func xmlEsc(s string) string {
	return strings.NewReplacer("&", "&amp;", "<", "&lt;", ">", "&gt;").Replace(s)
}

// ---------------------------------------------------------------------
// NSX

func (h *HTTPS) serveNSX(w http.ResponseWriter, r *http.Request, body, desc, class, dev string) {
	path := r.URL.Path
	if strings.HasSuffix(path, "/api/session/create") {
		h.rec("POST /api/session/create j_username=<user>&j_password=<password>", class, dev, dev == "")
		vals, _ := url.ParseQuery(body)
		if dev == DevAPIError || vals.Get("j_password") != h.Pass || vals.Get("j_username") != h.User {
			w.WriteHeader(403)
			return
		}
		http.SetCookie(w, &http.Cookie{Name: "JSESSIONID", Value: "cookie-" + h.Key})
		w.Header().Set("x-xsrf-token", h.Key)
		w.WriteHeader(200)
		return
	}
	if r.Header.Get("x-xsrf-token") != h.Key {
		h.rec(desc, class, "bad-token", false)
		w.WriteHeader(403)
		return
	}
	if dev == DevAPIError {
		h.rec(desc, class, dev, false)
		w.WriteHeader(400)
		w.Write([]byte(`{"httpStatus":"BAD_REQUEST","error_code":500012,"error_message":"refused"}`))
		return
	}
	p := strings.TrimPrefix(path, "/policy/api/v1")
	if r.Method == "GET" {
		h.rec(desc, class, dev, true)
		switch {
		case p == "/infra/domains/default/gateway-policies":
			var res []any
			for _, o := range h.Extra {
				res = append(res, map[string]any{"id": o["id"]})
			}
			for _, o := range h.Nsx.Policies {
				res = append(res, map[string]any{"id": o["id"]})
			}
			json.NewEncoder(w).Encode(map[string]any{"results": res})
		case strings.HasPrefix(p, "/infra/domains/default/gateway-policies/"):
			id := strings.TrimPrefix(p, "/infra/domains/default/gateway-policies/")
			for _, o := range append(append([]nsxmodel.Obj{}, h.Nsx.Policies...), h.Extra...) {
				if o["id"] == id {
					json.NewEncoder(w).Encode(o)
					return
				}
			}
			w.WriteHeader(404)
		case p == "/infra/services":
			h.page(w, r, append(append([]nsxmodel.Obj{}, h.ExtraServices...), h.Nsx.Services...))
		case p == "/infra/domains/default/groups":
			h.page(w, r, append(append([]nsxmodel.Obj{}, h.ExtraGroups...), h.Nsx.Groups...))
		default:
			w.WriteHeader(404)
		}
		return
	}
	u := r.URL.Path
	if r.URL.RawQuery != "" {
		u += "?" + r.URL.RawQuery
	}
	// objects outside the Netspoc namespace are part of the manager too
	if err := h.execNSX(r.Method, u, body); err != nil {
		h.rec(desc+" "+body, class, "model:"+err.Error(), false)
		w.WriteHeader(400)
		w.Write([]byte(`{"httpStatus":"BAD_REQUEST","error_message":` + fmt.Sprintf("%q", err.Error()) + `}`))
		return
	}
	h.rec(desc+" "+body, class, "", true)
	w.WriteHeader(200)
	w.Write([]byte(`{}`))
}

// execNSX applies a call; ids without the Netspoc prefix address the
// "extra" (foreign) objects.
func (h *HTTPS) execNSX(method, u, body string) error {
	foreign := func(l *[]nsxmodel.Obj, id string) bool {
		for i, o := range *l {
			if o["id"] == id {
				if method == "DELETE" {
					*l = append((*l)[:i:i], (*l)[i+1:]...)
				} else {
					var d nsxmodel.Obj
					json.Unmarshal([]byte(body), &d)
					for k, v := range d {
						o[k] = v
					}
				}
				return true
			}
		}
		return false
	}
	path, _, _ := strings.Cut(u, "?")
	seg := strings.Split(strings.Trim(strings.TrimPrefix(path, "/policy/api/v1"), "/"), "/")
	if len(seg) >= 5 && seg[3] == "gateway-policies" && foreign(&h.Extra, seg[4]) {
		return nil
	}
	if len(seg) >= 5 && seg[3] == "groups" && foreign(&h.ExtraGroups, seg[4]) {
		return nil
	}
	if len(seg) >= 3 && seg[1] == "services" && foreign(&h.ExtraServices, seg[2]) {
		return nil
	}
	return h.Nsx.Exec(method, u, body)
}

func (h *HTTPS) page(w http.ResponseWriter, r *http.Request, l []nsxmodel.Obj) {
	size := h.PageSize
	if size <= 0 {
		size = 1000
	}
	start := 0
	fmt.Sscanf(r.URL.Query().Get("cursor"), "%d", &start)
	end := start + size
	cursor := ""
	if end < len(l) {
		cursor = fmt.Sprint(end)
	} else {
		end = len(l)
	}
	if start > len(l) {
		start = len(l)
	}
	res := make([]any, 0)
	for _, o := range l[start:end] {
		res = append(res, o)
	}
	json.NewEncoder(w).Encode(map[string]any{"results": res, "cursor": cursor})
}
