//go:build verif

// Package sim holds scripted simulators of the devices Netspoc-Approve
// talks to.  The SSH simulators (ASA, IOS, Linux) are peers of the fake
// expect package; the HTTPS simulators (PAN-OS, NSX) are TLS test servers.
// All of them wrap the reference device models, record a transcript in
// which every received line/request is classified, and let the explorer
// replace the default answer at any point by a deviation.
package sim

import (
	"fmt"
	"strings"

	"verif/harness/internal/ciscomodel"
	"verif/harness/internal/linuxmodel"
)

// Classes of received lines (DESIGN appendix C).
const (
	ClLogin   = "login"
	ClRead    = "read-only"
	ClSession = "session-setting"
	// ASA: 'configure terminal' / 'terminal width 511' / 'end' at the start
	// of a session - a session setting that the tool can only make in
	// configuration mode (it becomes part of the running configuration)
	ClSessionConf = "session-setting-in-config-mode"
	ClChange      = "config-changing"
	ClSave        = "save"
	ClReload      = "reload-control"
	ClCleanup     = "clean-up"
	ClOther       = "other"
)

type Rec struct {
	// Batch numbers the Send call (or request) the line arrived with: the
	// halves of a joined two-command line share one batch.
	Batch int
	Point int    // index of the answer point
	Text  string // line or request as received
	Class string
	Dev   string // deviation applied at this point ("" = default answer)
	// Accepted: the device model executed it without error and the
	// explorer injected nothing.
	Accepted bool
}

// Deviation kinds for SSH devices.
const (
	DevError     = "error"        // device answers with its error text
	DevGarbage   = "garbage"      // unexpected output / garbled echo
	DevStall     = "stall"        // no answer (time-out)
	DevClose     = "close"        // connection closed
	DevNoOK      = "no-ok"        // write memory without [OK]
	DevAuthz     = "authz-failed" // ASA / IOS: AAA refuses the command: "Command authorization failed."
	DevSaveAbort = "save-aborted" // IOS: "%Aborting Save. Compress the config.[OK]" - nothing was saved
	// IOS: NVRAM was written by another software version: the device asks
	// "Overwrite the previous NVRAM configuration?[confirm]"; after the
	// confirmation it saves (nvram-confirm) or aborts the save (nvram-confirm-aborted)
	DevNvramQ      = "nvram-confirm"
	DevNvramQAbort = "nvram-confirm-aborted"
	DevExit1     = "exit1"        // Linux: silent non-zero exit status
	DevBanner    = "banner"       // IOS reload banner (see BannerSpec)
	DevWarnErr   = "warn+error"   // ASA: the benign warning this command class can produce, followed by the error text
	DevInfoErr   = "info+error"   // ASA: an INFO: line followed by the error text
	DevError1    = "error-1line"  // the device answers with a one-line error text (semantic rejections look like this)
	DevBadConf   = "bad-config"   // the configuration the device prints holds a (legal) construct the tool's parser rejects
)

type BannerSpec struct {
	Kind   string // "0:02:00" | "0:01:00"
	Form   string // "bare" | "prompt"
	Where  string // "before" | "after" | "inside"
	Offset int    // for inside: character offset in the echo
}

type SSH struct {
	Flavor        string // asa ios linux
	Hostname      string
	Banner        string // login banner / content of /etc/issue
	Pass          string
	Cisco         *ciscomodel.Dev
	Linux         *linuxmodel.Dev
	Dev           map[int]string        // point -> deviation kind
	Banners       map[int]BannerSpec    // point -> banner (IOS)
	BannersByText map[string]BannerSpec // command text -> banner at its first occurrence (IOS)
	HostKeyQ      bool                  // ask the ssh host-key question first
	NeedEnable    bool                  // login ends in user mode, enable needs a password
	EnableUnset   bool                  // ASA 9.12+: no enable password configured; 'enable' starts the dialogue that sets one
	EnablePassSet int                   // how often that dialogue was completed (a change of the running configuration)
	setPass1      string

	Trans          []Rec
	point          int
	batch          int
	out            []string
	stall          bool
	closed         bool
	phase          string // login, enable-pass, cli, config, confirm-reload, save-q
	mode           string // "", "config"
	curDev         string // deviation of the line being answered
	modified       bool   // running config differs from startup (IOS reload question)
	PrepNoop       bool   // IOS: the session-preparation commands change nothing
	InfoFor        string // IOS: accepted change commands with this prefix answer with an INFO: line
	ReloadPending  bool
	ReloadArmed    int // how often a reload was scheduled
	Saved          int // successful write memory
	Sessions       int
	lastExit       int // Linux: exit status of last command
	pendingConfirm string
	loggedIn       bool
	afterWriteTerm bool
	// OnRestore is called when the Linux simulator "executes" the new
	// packet filter file.
	OnRestore func() error
}

func (s *SSH) Start() {
	s.Sessions++
	s.phase = "login"
	if s.HostKeyQ {
		s.emit("The authenticity of host 'router (10.1.13.33)' can't be established.\r\nAre you sure you want to continue connecting (yes/no)? ")
		s.phase = "hostkey"
		return
	}
	s.emit("admin@10.1.13.33's password: ")
}

func (s *SSH) emit(t string) { s.out = append(s.out, t) }

func (s *SSH) prompt() string {
	switch s.Flavor {
	case "linux":
		if s.loggedIn {
			return "router#"
		}
		return "user@router:~$ "
	case "ios":
		if s.mode == "config" {
			return s.Hostname + "(config)#"
		}
		return s.Hostname + "#"
	}
	if s.mode == "config" {
		return s.Hostname + "(config)# "
	}
	return s.Hostname + "# "
}

// Output implements the fake expect Peer.
func (s *SSH) Output() (string, bool, bool) {
	if len(s.out) > 0 {
		c := s.out[0]
		s.out = s.out[1:]
		return c, true, false
	}
	if s.closed {
		return "", false, true
	}
	return "", false, false
}

// Input implements the fake expect Peer: one Send of the tool.
func (s *SSH) Input(data string) {
	if s.closed {
		return
	}
	lines := strings.Split(strings.TrimSuffix(data, "\n"), "\n")
	s.batch++
	for _, l := range lines {
		if s.closed || s.stall {
			// a stalled device reads nothing more; the line is still part
			// of what the tool sent
			s.Trans = append(s.Trans, Rec{Batch: s.batch, Point: -1, Text: l, Class: s.classify(l), Dev: "(after stall/close)"})
			continue
		}
		s.line(l)
	}
}

func (s *SSH) rec(text, class, dev string, accepted bool) {
	if dev == DevError && s.curDev == DevAuthz {
		dev = s.curDev // the kind as injected (handled like an error answer)
	}
	s.Trans = append(s.Trans, Rec{Batch: s.batch, Point: s.point, Text: text, Class: class, Dev: dev, Accepted: accepted})
}

func (s *SSH) classify(l string) string {
	switch s.phase {
	case "login", "hostkey", "enable-pass", "enable-set1", "enable-set2":
		return ClLogin
	}
	w := strings.Fields(l)
	first := ""
	if len(w) > 0 {
		first = w[0]
	}
	switch s.Flavor {
	case "asa":
		switch {
		case l == "" || l == "enable":
			return ClLogin
		case l == "sh pager" || l == "sh term" || l == "sh ver" || l == "show hostname" || l == "write term":
			return ClRead
		case l == "terminal pager 0":
			return ClSession
		case l == "write memory":
			return ClSave
		case l == "exit":
			return ClCleanup
		case l == "end":
			if !s.afterWriteTerm {
				return ClSessionConf
			}
			return ClCleanup
		case l == "configure terminal" || l == "terminal width 511":
			if !s.afterWriteTerm {
				return ClSessionConf
			}
			return ClChange
		}
		if s.mode == "config" {
			return ClChange
		}
		return ClOther
	case "ios":
		switch {
		case l == "" || l == "enable":
			if s.ReloadPending || s.pendingConfirm != "" {
				return ClReload
			}
			return ClRead
		case l == "term len 0" || l == "term width 512":
			return ClSession
		case l == "sh ver" || l == "sh run":
			return ClRead
		case l == "write memory":
			return ClSave
		case strings.HasPrefix(l, "reload in") || strings.HasPrefix(l, "do reload in") || l == "n":
			return ClReload
		case l == "reload cancel":
			return ClReload
		case l == "end" || l == "exit":
			return ClCleanup
		case l == "configure terminal":
			return ClChange
		}
		if s.mode == "config" {
			return ClChange
		}
		return ClOther
	case "linux":
		switch {
		case strings.HasPrefix(l, "PS1="):
			return ClLogin
		case first == "uname" || first == "hostname" || first == "grep" || first == "iptables-save" ||
			first == "which" || first == "echo" || (first == "ip" && strings.Contains(l, "route show")):
			return ClRead
		case first == "ip" || first == "chmod" || first == "mv" || strings.HasPrefix(l, "/etc/network/"):
			return ClChange
		case l == "exit":
			return ClCleanup
		}
		return ClOther
	}
	return ClOther
}

func crlf(s string) string {
	if s == "" {
		return ""
	}
	return strings.ReplaceAll(strings.TrimSuffix(s, "\n"), "\n", "\r\n") + "\r\n"
}

// answer queues echo + output + prompt.
func (s *SSH) answer(echo, output string) {
	s.emit(echo + "\r\n" + crlf(output) + s.prompt())
}

func (s *SSH) line(l string) {
	s.point++
	class := s.classify(l)
	dev := s.Dev[s.point]
	s.curDev = dev
	if dev == DevError1 || dev == DevAuthz {
		dev = DevError // handled like an error answer, with its own text (errText)
	}
	// generic deviations
	switch dev {
	case DevStall:
		s.rec(l, class, dev, false)
		s.stall = true
		return
	case DevClose:
		s.rec(l, class, dev, false)
		s.closed = true
		return
	}
	switch s.phase {
	case "hostkey":
		s.rec(l, ClLogin, dev, true)
		s.phase = "login"
		s.emit("\r\nadmin@10.1.13.33's password: ")
		return
	case "login":
		s.rec("<password>", ClLogin, dev, true)
		if dev == DevError || l != s.Pass {
			s.emit("\r\nPermission denied, please try again.\r\nadmin@10.1.13.33's password: ")
			return
		}
		if s.Flavor == "linux" {
			s.phase = "cli"
			s.emit("\r\nLinux router 5.10\r\n" + crlf(s.motd()) + s.prompt())
			return
		}
		if s.NeedEnable {
			s.phase = "user"
			s.emit("\r\n" + crlf(s.Banner) + s.Hostname + "> ")
			return
		}
		s.phase = "cli"
		s.emit("\r\n" + crlf(s.Banner) + s.prompt())
		return
	case "user":
		if l == s.Pass {
			s.rec("<password>", ClLogin, dev, true)
		} else {
			s.rec(l, ClLogin, dev, true)
		}
		if l == "enable" && dev == DevError {
			// enable refused without asking for a password
			s.emit("enable\r\n% No password set\r\n\r\n" + s.Hostname + "> ")
			return
		}
		if l == "enable" && s.EnableUnset && s.EnablePassSet == 0 {
			s.phase = "enable-set1"
			s.emit("enable\r\nThe enable password is not set.  Please set it now.\r\nEnter  Password: ")
			return
		}
		if l == "enable" {
			s.phase = "enable-pass"
			s.emit("enable\r\nPassword: ")
			return
		}
		s.emit(l + "\r\n" + s.Hostname + "> ")
		return
	case "enable-set1":
		s.rec("<password>", ClLogin, dev, true)
		s.setPass1 = l
		s.phase = "enable-set2"
		s.emit("\r\nRepeat Password: ")
		return
	case "enable-set2":
		// the second, equal entry completes the dialogue: the device now
		// has 'enable password <hash> pbkdf2' in its running configuration
		if dev == DevError || l != s.setPass1 || len(l) < 3 {
			s.rec("<password>", ClLogin, dev, true)
			s.phase = "user"
			s.emit("\r\nERROR: Passwords do not match\r\n" + s.Hostname + "> ")
			return
		}
		s.rec("<new enable password>", ClChange, dev, true)
		s.EnablePassSet++
		s.phase = "cli"
		s.emit("\r\nNote: Save your configuration so that the password can be used for FIPS-CC or for recovery.\r\n" + s.prompt())
		return
	case "enable-pass":
		s.rec("<password>", ClLogin, dev, true)
		if dev == DevError || l != s.Pass {
			s.emit("\r\nPassword: ")
			return
		}
		s.phase = "cli"
		s.emit("\r\n" + s.prompt())
		return
	}
	switch s.Flavor {
	case "asa":
		s.asaLine(l, class, dev)
	case "ios":
		s.iosLine(l, class, dev)
	case "linux":
		s.linuxLine(l, class, dev)
	}
}

func (s *SSH) motd() string { return "" }

// devText returns the device's own error phrasing.
func (s *SSH) errText() string {
	if s.curDev == DevAuthz {
		return "Command authorization failed.\n"
	}
	if s.curDev == DevError1 {
		switch s.Flavor {
		case "asa":
			return "ERROR: object-group does not exist"
		case "ios":
			return "%Invalid next hop address (it's this router)\n"
		}
		return "RTNETLINK answers: File exists"
	}
	switch s.Flavor {
	case "asa":
		return "        ^\nERROR: % Invalid input detected at '^' marker."
	case "ios":
		return "        ^\n% Invalid input detected at '^' marker.\n"
	}
	return "bash: command failed"
}

func (s *SSH) asaLine(l, class, dev string) {
	switch dev {
	case DevGarbage:
		s.rec(l, class, dev, false)
		s.emit("@@" + l + "\r\nunexpected\r\n" + s.prompt())
		return
	}
	switch {
	case l == "":
		s.rec(l, class, dev, true)
		s.emit("\r\n" + s.prompt())
	case l == "sh pager":
		s.rec(l, class, dev, dev == "")
		s.answer(l, ifDev(dev, s.errText(), "pager 24 lines"))
	case l == "terminal pager 0":
		s.rec(l, class, dev, dev == "")
		s.answer(l, ifDev(dev, s.errText(), ""))
	case l == "sh term":
		s.rec(l, class, dev, dev == "")
		s.answer(l, ifDev(dev, s.errText(), "Width = 80, no monitor"))
	case l == "sh ver":
		s.rec(l, class, dev, dev == "")
		s.answer(l, ifDev(dev, s.errText(), "Cisco Adaptive Security Appliance Software Version 9.16(4)"))
	case l == "show hostname":
		s.rec(l, class, dev, dev == "")
		s.answer(l, ifDev(dev, s.errText(), s.Hostname))
	case l == "write term":
		s.rec(l, class, dev, dev == "")
		s.afterWriteTerm = true
		bad := ""
		if dev == DevBadConf {
			bad = "access-group NOPE-ACL in interface " + "inside" + "\n"
		}
		s.answer(l, ifDev(dev, s.errText(), ": Saved\n:\n"+s.Cisco.Print()+bad+": end"))
	case l == "configure terminal":
		s.rec(l, class, dev, dev == "")
		if dev == DevError {
			s.answer(l, s.errText())
			return
		}
		s.mode = "config"
		s.Cisco.ResetSession()
		s.answer(l, "")
	case l == "terminal width 511" && !s.afterWriteTerm:
		s.rec(l, class, dev, dev == "")
		s.answer(l, ifDev(dev, s.errText(), ""))
	case l == "end":
		s.rec(l, class, dev, dev == "")
		s.mode = ""
		s.answer(l, ifDev(dev, s.errText(), ""))
	case l == "write memory":
		switch dev {
		case DevError:
			s.rec(l, class, dev, false)
			s.answer(l, s.errText())
		case DevNoOK:
			s.rec(l, class, dev, false)
			s.answer(l, "Building configuration...\nError writing configuration")
		default:
			s.rec(l, class, dev, true)
			s.Saved++
			s.modified = false
			s.answer(l, "Building configuration...\nCryptochecksum: 7a0d2e2b 1d3f1ab2\n\n3554 bytes copied in 0.250 secs\n[OK]")
		}
	case l == "exit":
		s.rec(l, class, dev, true)
		if s.mode == "config" {
			// exit inside configuration mode: handled by the model
			s.execCisco(l, class, dev)
			return
		}
		s.closed = true
	default:
		if s.mode == "config" {
			s.execCisco(l, class, dev)
			return
		}
		s.rec(l, class, dev, false)
		s.answer(l, s.errText())
	}
}

func ifDev(dev, a, b string) string {
	if dev == DevError {
		return a
	}
	return b
}

func (s *SSH) execCisco(l, class, dev string) {
	if dev == DevError {
		s.rec(l, class, dev, false)
		s.answer(l, s.errText())
		return
	}
	if dev == DevWarnErr || dev == DevInfoErr {
		s.rec(l, class, dev, false)
		pre := "INFO: Security level for this interface is unchanged"
		if dev == DevWarnErr {
			switch {
			case strings.HasPrefix(l, "access-list"), strings.HasPrefix(l, "no access-list"):
				pre = "WARNING: Same object-group is used more than once in one config line. This config is redundant. MAC would not be expanded."
			case strings.HasPrefix(l, "crypto map"), strings.HasPrefix(l, "no crypto map"):
				pre = "WARNING: The crypto map entry is incomplete!"
			case strings.HasPrefix(l, "tunnel-group"):
				pre = "WARNING: L2L tunnel-groups that have names which are not an IP\naddress may only be used if the tunnel authentication\nmethod is Digital Certificates and/or The peer is\nconfigured to use Aggressive Mode"
			default:
				pre = "WARNING: this command has been deprecated"
			}
		}
		s.answer(l, pre+"\n"+s.errText())
		return
	}
	if dev == DevGarbage {
		s.rec(l, class, dev, false)
		s.emit("@@" + l + "\r\nunexpected\r\n" + s.prompt())
		return
	}
	err := s.Cisco.Exec(l)
	if err != nil {
		s.rec(l, class, "model:"+err.Error(), false)
		s.answer(l, s.errText())
		return
	}
	s.modified = true
	s.rec(l, class, "", true)
	s.answer(l, "")
}

// ---------------------------------------------------------------------
// IOS

func (s *SSH) bannerText(kind string) string {
	return "\r\n\r\n\r\n\x07***\r\n*** --- SHUTDOWN " + kind + " ---\r\n***\r\n"
}

func (s *SSH) iosAnswer(l, output string) {
	if s.InfoFor != "" && output == "" && strings.HasPrefix(l, s.InfoFor) {
		// the device accepts the command and says something about it
		output = "INFO: entry noted\n"
	}
	spec, has := s.Banners[s.point]
	if !has {
		// a banner tied to a command text (first occurrence): independent
		// of how many dialogue lines earlier banners caused
		if sp, ok := s.BannersByText[l]; ok {
			spec, has = sp, true
			delete(s.BannersByText, l)
		}
	}
	echo := l
	if !has {
		s.emit(echo + "\r\n" + crlf(output) + s.prompt())
		return
	}
	b := s.bannerText("in " + spec.Kind)
	withPrompt := spec.Form == "prompt"
	switch spec.Where {
	case "before":
		// banner arrives before the echo of the command; with 'logging
		// synchronous' a fresh prompt follows the banner
		pre := b
		if withPrompt {
			pre += "\r\n" + s.prompt()
		}
		s.emit(pre + echo + "\r\n" + crlf(output) + s.prompt())
	case "inside":
		off := spec.Offset
		if off > len(echo) {
			off = len(echo)
		}
		s.emit(echo[:off] + b + echo[off:] + "\r\n" + crlf(output) + s.prompt())
	case "behind-output-tight":
		// as behind-output, but the line end of the last output line is the
		// first of the banner's three line ends
		s.emit(echo + "\r\n" + strings.TrimSuffix(crlf(output), "\r\n") + b + s.prompt())
	case "behind-output":
		// the banner follows the command's output directly, in front of the prompt
		s.emit(echo + "\r\n" + crlf(output) + b + s.prompt())
	default: // after
		post := b
		s.emit(echo + "\r\n" + crlf(output) + s.prompt())
		if withPrompt {
			s.emit(post + "\r\n" + s.prompt())
		} else {
			s.emit(post)
		}
	}
}

func (s *SSH) iosLine(l, class, dev string) {
	if dev == DevGarbage {
		s.rec(l, class, dev, false)
		s.emit("@@" + l + "\r\nunexpected\r\n" + s.prompt())
		return
	}
	// pending confirm dialogues
	switch s.pendingConfirm {
	case "save?":
		s.rec(l, ClReload, dev, dev == "")
		if dev == DevError {
			s.pendingConfirm = ""
			s.emit(l + "\r\n" + crlf(s.errText()) + s.prompt())
			return
		}
		s.pendingConfirm = "confirm"
		s.emit(l + "\r\nReload scheduled in 2 minutes by admin on vty0\r\nReload reason: Reload Command\r\nProceed with reload? [confirm]")
		return
	case "confirm":
		s.rec(l, ClReload, dev, dev == "")
		s.pendingConfirm = ""
		if dev == DevError {
			s.emit("\r\n" + crlf(s.errText()) + s.prompt())
			return
		}
		s.ReloadPending = true
		s.ReloadArmed++
		s.emit("\r\n" + s.prompt())
		return
	case "nvram", "nvram-abort":
		abort := s.pendingConfirm == "nvram-abort"
		s.pendingConfirm = ""
		if abort {
			s.rec(l, ClSave, DevNvramQAbort, false)
			s.emit("\r\nBuilding configuration...\r\n%Aborting Save. Compress the config.[OK]\r\n" + s.prompt())
			return
		}
		// a further deviation at the confirmation itself (bound 2)
		switch dev {
		case DevError:
			s.rec(l, ClSave, dev, false)
			s.emit("\r\n" + crlf(s.errText()) + s.prompt())
			return
		case DevNoOK:
			s.rec(l, ClSave, dev, false)
			s.emit("\r\nBuilding configuration...\r\n% Error writing nvram\r\n" + s.prompt())
			return
		case DevSaveAbort, DevNvramQAbort:
			s.rec(l, ClSave, dev, false)
			s.emit("\r\nBuilding configuration...\r\n%Aborting Save. Compress the config.[OK]\r\n" + s.prompt())
			return
		case DevNvramQ:
			dev = "" // the question is not asked twice
		}
		s.rec(l, ClSave, dev, dev == "")
		s.Saved++
		s.modified = false
		s.emit("\r\nBuilding configuration...\r\nCompressed configuration from 10194 bytes to 5372 bytes[OK]\r\n" + s.prompt())
		return
	}
	switch {
	case l == "":
		s.rec(l, class, dev, true)
		s.emit("\r\n" + s.prompt())
	case l == "term len 0" || l == "term width 512":
		s.rec(l, class, dev, dev == "")
		s.iosAnswer(l, ifDev(dev, s.errText(), ""))
	case l == "sh ver":
		s.rec(l, class, dev, dev == "")
		s.iosAnswer(l, ifDev(dev, s.errText(), "Cisco IOS Software, C2900 Software, Version 15.1(4)M4"))
	case l == "sh run":
		s.rec(l, class, dev, dev == "")
		bad := ""
		if dev == DevBadConf {
			bad = "interface Ethernet99\n crypto map NOPE-MAP\n"
		}
		s.iosAnswer(l, ifDev(dev, s.errText(), "Building configuration...\n\nCurrent configuration : 1234 bytes\n!\n"+s.Cisco.Print()+bad+"end"))
	case l == "configure terminal":
		s.rec(l, class, dev, dev == "")
		if dev == DevError {
			s.iosAnswer(l, s.errText())
			return
		}
		s.mode = "config"
		s.Cisco.ResetSession()
		s.iosAnswer(l, "Enter configuration commands, one per line.  End with CNTL/Z.")
	case l == "end":
		s.rec(l, class, dev, dev == "")
		s.mode = ""
		s.iosAnswer(l, ifDev(dev, s.errText(), ""))
	case l == "reload in 2" || l == "do reload in 2":
		s.rec(l, class, dev, dev == "")
		if dev == DevError {
			s.iosAnswer(l, s.errText())
			return
		}
		if s.modified {
			s.pendingConfirm = "save?"
			s.emit(l + "\r\n\r\nSystem configuration has been modified. Save? [yes/no]: ")
		} else {
			s.pendingConfirm = "confirm"
			s.emit(l + "\r\nReload scheduled in 2 minutes by admin on vty0\r\nReload reason: Reload Command\r\nProceed with reload? [confirm]")
		}
	case l == "reload cancel":
		s.rec(l, class, dev, dev == "")
		if dev == DevError {
			s.iosAnswer(l, s.errText())
			return
		}
		s.ReloadPending = false
		s.emit(l + "\r\n" + s.prompt() + "\r\n\r\n\r\n\x07***\r\n*** --- SHUTDOWN ABORTED ---\r\n***\r\n")
		s.emit("\r\n" + s.prompt())
	case l == "write memory":
		switch dev {
		case DevError:
			s.rec(l, class, dev, false)
			s.iosAnswer(l, s.errText())
		case DevNoOK:
			s.rec(l, class, dev, false)
			s.iosAnswer(l, "Building configuration...\n% Error writing nvram")
		case DevSaveAbort:
			s.rec(l, class, dev, false)
			s.iosAnswer(l, "Building configuration...\n%Aborting Save. Compress the config.[OK]")
		case DevNvramQ, DevNvramQAbort:
			// the question is a legal answer; what follows the confirmation decides
			s.rec(l, class, dev, true)
			s.pendingConfirm = map[string]string{DevNvramQ: "nvram", DevNvramQAbort: "nvram-abort"}[dev]
			s.emit(l + "\r\nWarning: Attempting to overwrite an NVRAM configuration previously written\r\nby a different version of the system image.\r\nOverwrite the previous NVRAM configuration?[confirm]")
		default:
			s.rec(l, class, dev, true)
			s.Saved++
			s.modified = false
			s.iosAnswer(l, "Building configuration...\n  Compressed configuration from 106098 bytes to 30504 bytes[OK]")
		}
	case l == "exit" && s.mode != "config":
		s.rec(l, class, dev, true)
		s.closed = true
	default:
		if s.mode == "config" {
			if dev == DevError {
				s.rec(l, class, dev, false)
				s.iosAnswer(l, s.errText())
				return
			}
			// session commands of prepareDevice are accepted verbatim
			switch l {
			case "no logging console", "line vty 0 15", "logging synchronous level all", "ip subnet-zero", "ip classless":
				s.rec(l, class, dev, true)
				if !s.PrepNoop {
					s.modified = true
				}
				s.iosAnswer(l, "")
				return
			}
			err := s.Cisco.Exec(l)
			if err != nil {
				s.rec(l, class, "model:"+err.Error(), false)
				s.iosAnswer(l, s.errText())
				return
			}
			s.modified = true
			s.rec(l, class, "", true)
			s.iosAnswer(l, "")
			return
		}
		s.rec(l, class, dev, false)
		s.iosAnswer(l, s.errText())
	}
}

// ---------------------------------------------------------------------
// Linux

func (s *SSH) linuxLine(l, class, dev string) {
	if dev == DevGarbage {
		s.rec(l, class, dev, false)
		s.emit("@@" + l + "\r\nunexpected\r\n" + s.prompt())
		return
	}
	w := strings.Fields(l)
	first := ""
	if len(w) > 0 {
		first = w[0]
	}
	ok := func(out string) {
		s.rec(l, class, dev, dev == "")
		if dev == DevError {
			s.lastExit = 1
			s.answer(l, s.errText())
			return
		}
		if dev == DevExit1 {
			s.lastExit = 1
			s.answer(l, "")
			return
		}
		s.lastExit = 0
		s.answer(l, out)
	}
	switch {
	case strings.HasPrefix(l, "PS1="):
		s.rec(l, class, dev, true)
		s.loggedIn = true
		s.emit(l + "\r\n" + s.prompt())
	case l == "uname -r":
		ok("5.10.0-21-amd64")
	case l == "uname -m":
		ok("x86_64")
	case l == "hostname -s":
		ok(s.Hostname)
	case first == "grep":
		// grep 'RE' /etc/issue
		re := ""
		if i := strings.Index(l, "'"); i >= 0 {
			if j := strings.LastIndex(l, "'"); j > i {
				re = l[i+1 : j]
			}
		}
		var hits []string
		for _, line := range strings.Split(s.Banner, "\n") {
			if re != "" && strings.Contains(line, re) {
				hits = append(hits, line)
			}
		}
		s.rec(l, class, dev, dev == "")
		if len(hits) == 0 {
			s.lastExit = 1
		} else {
			s.lastExit = 0
		}
		s.answer(l, strings.Join(hits, "\n"))
	case l == "ip route show":
		var b strings.Builder
		for _, r := range strings.Split(strings.TrimSpace(s.Linux.PrintRoutes()), "\n") {
			if r != "" {
				b.WriteString(strings.TrimPrefix(r, "ip route add ") + "\n")
			}
		}
		ok(b.String())
	case l == "iptables-save":
		if dev == DevBadConf {
			ok(s.Linux.PrintRules(true) + "*broken\n-X foo\nCOMMIT\n")
			return
		}
		ok(s.Linux.PrintRules(true))
	case l == "which iptables-restore":
		ok("/sbin/iptables-restore")
	case l == "echo $?":
		s.rec(l, class, dev, dev == "")
		if dev == DevError {
			s.answer(l, s.errText())
			return
		}
		s.answer(l, fmt.Sprint(s.lastExit))
	case first == "ip" && len(w) > 2 && w[1] == "route":
		if dev != "" {
			ok("")
			return
		}
		err := s.Linux.Exec(l)
		if err != nil {
			s.rec(l, class, "model:"+err.Error(), false)
			s.lastExit = 2
			s.answer(l, "RTNETLINK answers: "+err.Error())
			return
		}
		s.modified = true
		s.rec(l, class, "", true)
		s.lastExit = 0
		s.answer(l, "")
	case first == "chmod" || first == "mv" || strings.HasPrefix(l, "/etc/network/"):
		if strings.HasPrefix(l, "/etc/network/") && dev == "" {
			// executing the new packet filter file: the harness loads the
			// restore file from the tool's script (scp is short-circuited)
			if s.OnRestore != nil {
				if err := s.OnRestore(); err != nil {
					s.rec(l, class, "model:"+err.Error(), false)
					s.lastExit = 1
					s.answer(l, "iptables-restore: "+err.Error())
					return
				}
			}
			s.modified = true
		}
		ok("")
	case l == "exit":
		s.rec(l, class, dev, true)
		s.closed = true
	default:
		s.rec(l, class, dev, false)
		s.lastExit = 127
		s.answer(l, "bash: "+first+": command not found")
	}
}
