// Package corpus reads the repository's own test data (go/testdata/*.t) as a
// source of realistic device states and targets.
package corpus

import (
	"os"
	"path"
	"path/filepath"
	"regexp"
	"sort"
	"strings"

	"github.com/hknutzen/testtxt"
	"verif/harness/internal/core"
)

type descr struct {
	Title     string
	Device    string
	Scenario  string
	Netspoc   string
	Options   string
	Params    string
	Setup     string
	Output    string
	Warning   string
	Error     string
	DoApprove bool
	Todo      bool
}

type Case struct {
	File     string // e.g. asa_acl.t
	Title    string
	Model    string // ASA IOS Linux NSX PAN-OS
	Device   string
	Netspoc  core.Files
	Extra    map[string]string // other files of the NETSPOC block
	Output   string
	Warning  string
	Error    string
	Scenario string
	Options  string
	Params   string
	Setup    string
	DoApprove bool
}

var RepoDir = func() string {
	if d := os.Getenv("VERIF_REPO"); d != "" {
		return d
	}
	return "/repo"
}()

func modelOf(base string) string {
	prefix, _, _ := strings.Cut(strings.TrimSuffix(base, ".t"), "_")
	prefix = strings.ToUpper(prefix)
	if prefix == "LINUX" {
		prefix = "Linux"
	}
	return prefix
}

var markerRE = regexp.MustCompile(`(?ms)^-+[ ]*\S+[ ]*\n`)

// SplitFiles splits a =NETSPOC= block into named files.
func SplitFiles(input string) map[string]string {
	if input == "NONE" {
		input = ""
	}
	il := markerRE.FindAllStringIndex(input, -1)
	m := map[string]string{}
	if il == nil || il[0][0] != 0 {
		m["router"] = input
		return m
	}
	for i, p := range il {
		marker := input[p[0] : p[1]-1]
		name := strings.Trim(marker, "- ")
		end := len(input)
		if i+1 < len(il) {
			end = il[i+1][0]
		}
		m[name] = input[p[1]:end]
	}
	return m
}

// Load returns all test cases of all *.t files, in file order.
func Load() ([]Case, error) {
	files, _ := filepath.Glob(filepath.Join(RepoDir, "go/testdata/*.t"))
	sort.Strings(files)
	var out []Case
	for _, f := range files {
		base := path.Base(f)
		var l []descr
		if err := testtxt.ParseFile(f, &l); err != nil {
			return nil, err
		}
		model := modelOf(base)
		for _, d := range l {
			if d.Todo {
				continue
			}
			c := Case{File: base, Title: d.Title, Model: model, Device: d.Device,
				Output: d.Output, Warning: d.Warning, Error: d.Error,
				Scenario: d.Scenario, Options: d.Options, Params: d.Params,
				Setup: d.Setup, DoApprove: d.DoApprove, Extra: map[string]string{}}
			for name, data := range SplitFiles(d.Netspoc) {
				switch name {
				case "router":
					c.Netspoc.Main = data
				case "ipv6/router":
					c.Netspoc.V6 = data
				case "router.raw":
					c.Netspoc.Raw = data
				case "router.info":
					c.Netspoc.Info = data
				default:
					c.Extra[name] = data
				}
			}
			out = append(out, c)
		}
	}
	return out, nil
}

// ExpectedScript turns an =OUTPUT= block into script lines (joins
// continuation lines as the repository's test driver does).
func ExpectedScript(out string) []string {
	if out == "NONE" {
		return nil
	}
	re := regexp.MustCompile(`\n +`)
	out = re.ReplaceAllString(out, "")
	var l []string
	for _, s := range strings.Split(out, "\n") {
		if s != "" {
			l = append(l, s)
		}
	}
	return l
}
