// Package core holds the machinery shared by all engines: calling the real
// tool in-process with captured output, sharding an enumeration over worker
// processes, evidence / replay / known-finding files.
package core

import (
	"bytes"
	"fmt"
	"os"
	"os/exec"
	"path/filepath"
	"runtime"
	"strings"
	"time"

	"github.com/hknutzen/Netspoc-Approve/go/pkg/device"
)

// Scratch is a per-process scratch directory on tmpfs.
type Scratch struct {
	Dir    string
	outF   *os.File
	errF   *os.File
	serial int
}

func scratchBase() string {
	if st, err := os.Stat("/dev/shm"); err == nil && st.IsDir() {
		return "/dev/shm"
	}
	return os.TempDir()
}

func NewScratch(tag string) *Scratch {
	dir, err := os.MkdirTemp(scratchBase(), "verif-"+tag+"-")
	if err != nil {
		panic(err)
	}
	s := &Scratch{Dir: dir}
	s.outF, err = os.Create(filepath.Join(dir, ".stdout"))
	if err != nil {
		panic(err)
	}
	s.errF, err = os.Create(filepath.Join(dir, ".stderr"))
	if err != nil {
		panic(err)
	}
	return s
}

func (s *Scratch) Close() {
	s.outF.Close()
	s.errF.Close()
	os.RemoveAll(s.Dir)
}

// Outcome of one run of the real tool.
type Outcome struct {
	Status int    // exit status the binary would have (2 = runtime panic)
	Stdout string // change script for CompareFiles
	Stderr string
	Panic  string // non-empty for runtime panics: message
	Site   string // top repository frame of a runtime panic
}

// Lines of the change script.  A joined two-command line ("a\N b") stays one
// element; use SplitJoined to get the halves.
func (o *Outcome) Script() []string {
	var l []string
	for _, line := range strings.Split(o.Stdout, "\n") {
		if line != "" {
			l = append(l, line)
		}
	}
	return l
}

func SplitJoined(line string) []string {
	return strings.Split(line, "\\N ")
}

// Capture runs f with os.Stdout/os.Stderr redirected to scratch files and
// recovers panics.  errlog.bailout is handled inside the tool (HandleAbort),
// so any panic arriving here is a runtime panic or a deliberate panic(err).
func (s *Scratch) Capture(f func() int) (o Outcome) {
	oldOut, oldErr := os.Stdout, os.Stderr
	s.outF.Truncate(0)
	s.outF.Seek(0, 0)
	s.errF.Truncate(0)
	s.errF.Seek(0, 0)
	os.Stdout, os.Stderr = s.outF, s.errF
	func() {
		defer func() {
			if e := recover(); e != nil {
				o.Status = 2
				o.Panic = fmt.Sprint(e)
				o.Site = panicSite()
			}
		}()
		o.Status = f()
	}()
	os.Stdout, os.Stderr = oldOut, oldErr
	o.Stdout = readAll(s.outF)
	o.Stderr = readAll(s.errF)
	return
}

func readAll(f *os.File) string {
	st, err := f.Stat()
	if err != nil || st.Size() == 0 {
		return ""
	}
	buf := make([]byte, st.Size())
	n, _ := f.ReadAt(buf, 0)
	return string(buf[:n])
}

// panicSite returns "pkg/file.go:func" of the innermost repository frame on
// the panicking stack (called from the deferred recover).
func panicSite() string {
	pcs := make([]uintptr, 64)
	n := runtime.Callers(3, pcs)
	frames := runtime.CallersFrames(pcs[:n])
	for {
		fr, more := frames.Next()
		// errlog.HandleAbort re-panics from its deferred function: skip it,
		// the frames of the original panic are still below.
		if strings.Contains(fr.Function, "Netspoc-Approve/go/") &&
			!strings.Contains(fr.Function, "/errlog.HandleAbort") {
			fn := fr.Function[strings.LastIndex(fr.Function, "/")+1:]
			// Strip closure suffixes: cisco.postprocessACLParts.func5 -> cisco.postprocessACLParts
			if i := strings.Index(fn, ".func"); i > 0 {
				fn = fn[:i]
			}
			return fn
		}
		if !more {
			break
		}
	}
	return "?"
}

// Files describes one side of a compare: main file plus optional parts.
type Files struct {
	Main string // content of code/<dev> (or the device file)
	V6   string // content of code/ipv6/<dev>, "" = absent
	Raw  string // content of code/<dev>.raw, "" = absent
	Info string // content of <dev>.info, "" = default for model
}

func InfoFor(model string) string {
	return fmt.Sprintf(`{"model":"%s","name_list":["router"],"ip_list":["10.1.13.33"]}`, model)
}

// WriteSide writes the files of one side below dir/<sub>/ and returns the
// path of the main file.
func (s *Scratch) WriteSide(sub string, f Files) string {
	dir := filepath.Join(s.Dir, sub)
	os.RemoveAll(dir)
	os.MkdirAll(dir, 0755)
	p := filepath.Join(dir, "router")
	must(os.WriteFile(p, []byte(f.Main), 0644))
	if f.V6 != "" {
		os.MkdirAll(filepath.Join(dir, "ipv6"), 0755)
		must(os.WriteFile(filepath.Join(dir, "ipv6", "router"), []byte(f.V6), 0644))
	}
	if f.Raw != "" {
		must(os.WriteFile(p+".raw", []byte(f.Raw), 0644))
	}
	if f.Info != "" {
		must(os.WriteFile(p+".info", []byte(f.Info), 0644))
	}
	return p
}

func must(err error) {
	if err != nil {
		panic(err)
	}
}

// Compare runs the real device.CompareFiles(A, B) in this process.
// model selects the info file written next to B.
func (s *Scratch) Compare(model string, a, b Files) Outcome {
	if b.Info == "" {
		b.Info = InfoFor(model)
	}
	pa := s.WriteSide("a", a)
	pb := s.WriteSide("b", b)
	return s.Capture(func() int { return device.CompareFiles(pa, pb, true) })
}

// CompareText is Compare with single-file sides.
func (s *Scratch) CompareText(model, a, b string) Outcome {
	return s.Compare(model, Files{Main: a}, Files{Main: b})
}

// CompareBinary runs the built drc binary on the two sides in a process of
// its own (for inputs that may end in a fatal error which cannot be
// recovered in-process, e.g. a stack overflow).  Status 2 = the binary died
// from a runtime panic / fatal error; Status 3 = no end within the timeout.
func (s *Scratch) CompareBinary(model string, a, b Files, timeout time.Duration) Outcome {
	if b.Info == "" {
		b.Info = InfoFor(model)
	}
	pa := s.WriteSide("a", a)
	pb := s.WriteSide("b", b)
	cmd := exec.Command(filepath.Join(VerifDir, ".build", "bin", "drc"), pa, pb)
	// a runaway recursion must not eat the machine's memory first
	cmd.Env = append(os.Environ(), "GOMEMLIMIT=512MiB")
	var so, se bytes.Buffer
	cmd.Stdout, cmd.Stderr = &so, &se
	var o Outcome
	if err := cmd.Start(); err != nil {
		o.Status, o.Panic = 2, err.Error()
		return o
	}
	done := make(chan error, 1)
	go func() { done <- cmd.Wait() }()
	select {
	case err := <-done:
		if ee, ok := err.(*exec.ExitError); ok {
			o.Status = ee.ExitCode()
		} else if err != nil {
			o.Status = 2
		}
	case <-time.After(timeout):
		cmd.Process.Kill()
		<-done
		o.Status = 3
	}
	o.Stdout, o.Stderr = so.String(), se.String()
	if o.Status >= 2 || o.Status < 0 {
		o.Panic = o.Stderr
		if len(o.Panic) > 600 {
			o.Panic = o.Panic[:600]
		}
		o.Site = "?"
		for _, l := range strings.Split(se.String(), "\n") {
			if i := strings.Index(l, "Netspoc-Approve/go/pkg/"); i >= 0 && !strings.Contains(l, "errlog.") && !strings.HasPrefix(l, "\t") {
				fn := l[i+len("Netspoc-Approve/go/pkg/"):]
				// strip the argument list: pkg.(*T).method(0x.., {..}) -> pkg.(*T).method
				if j := strings.LastIndex(fn, "("); j > 0 && !strings.HasPrefix(fn[j:], "(*") {
					fn = fn[:j]
				}
				if j := strings.Index(fn, ".func"); j > 0 {
					fn = fn[:j]
				}
				o.Site = fn
				break
			}
		}
		if o.Status != 3 {
			o.Status = 2
		}
	}
	return o
}
