package core

import (
	"encoding/json"
	"fmt"
	"os"
	"path/filepath"
	"sort"
	"strings"
	"time"
)

var VerifDir = func() string {
	if d := os.Getenv("VERIF_DIR"); d != "" {
		return d
	}
	return "/verif"
}()

// Meta describes a check for the evidence file.
type Meta struct {
	ID          string
	Level       string // exploration | fault_enumeration | model_checking
	Rule        string
	Assumptions []string
	Bounds      map[string]any
}

type finding struct {
	ID       string `json:"id"`
	Property string `json:"property"`
	Status   string `json:"status"`
	Summary  string `json:"summary"`
	CallSite string `json:"call_site,omitempty"`
	// A violation belongs to this finding iff its signature is listed and
	// (its case hash is listed in cases / cases_file, or its space is in
	// any_case_spaces, or any_case is set).
	Signatures    []string `json:"signatures"`
	AnyCase       bool     `json:"any_case,omitempty"`
	AnyCaseSpaces []string `json:"any_case_spaces,omitempty"`
	Cases         []string `json:"cases,omitempty"`
	CasesFile     string   `json:"cases_file,omitempty"`
	Example       any      `json:"example,omitempty"`
	Disposition   string   `json:"disposition,omitempty"`
	caseSet       map[string]bool
}

func (f *finding) matches(v *Violation) bool {
	if f.Property != v.Property || f.Status == "fixed" {
		return false
	}
	ok := false
	for _, s := range f.Signatures {
		if s == v.Signature {
			ok = true
		}
	}
	if !ok {
		return false
	}
	if f.AnyCase {
		return true
	}
	for _, sp := range f.AnyCaseSpaces {
		if sp == v.Space {
			return true
		}
	}
	return f.caseSet[v.Hash]
}

type findingsFile struct {
	Version  int       `json:"version"`
	Findings []finding `json:"findings"`
	Fixed    []string  `json:"fixed"`
}

func loadFindings() findingsFile {
	var f findingsFile
	data, err := os.ReadFile(filepath.Join(VerifDir, "known-findings.json"))
	if err == nil {
		if err := json.Unmarshal(data, &f); err != nil {
			fmt.Fprintf(os.Stderr, "known-findings.json invalid: %v\n", err)
			os.Exit(2)
		}
	}
	for i := range f.Findings {
		fd := &f.Findings[i]
		fd.caseSet = map[string]bool{}
		for _, c := range fd.Cases {
			fd.caseSet[c] = true
		}
		if fd.CasesFile != "" {
			data, err := os.ReadFile(filepath.Join(VerifDir, fd.CasesFile))
			if err != nil {
				fmt.Fprintf(os.Stderr, "cases file %s: %v\n", fd.CasesFile, err)
				os.Exit(2)
			}
			for _, c := range strings.Fields(string(data)) {
				fd.caseSet[c] = true
			}
		}
	}
	return f
}

// Finish classifies violations, writes replay and evidence files, prints the
// interface lines and returns the process exit status.
func Finish(m Meta, tier string, seed int64, res *Result, start time.Time) int {
	ff := loadFindings()
	known := map[string]int{} // finding id -> count
	var unknown []Violation
	for _, v := range res.Violations {
		matched := ""
		for i := range ff.Findings {
			if ff.Findings[i].matches(&v) {
				matched = ff.Findings[i].ID
				break
			}
		}
		if matched != "" {
			known[matched]++
		} else {
			unknown = append(unknown, v)
		}
	}
	// Replay files for unknown violations (first 20 with inputs).
	var replayPaths []string
	rdir := filepath.Join(VerifDir, "replays", m.ID)
	written := 0
	perSig := map[string]int{}
	for _, v := range unknown {
		if v.Inputs == nil && v.Events == nil {
			continue
		}
		if written >= 60 {
			break
		}
		if perSig[v.Signature] >= 3 {
			continue
		}
		perSig[v.Signature]++
		os.MkdirAll(rdir, 0755)
		p := filepath.Join(rdir, v.Hash+".json")
		data, _ := json.MarshalIndent(v, "", " ")
		os.WriteFile(p, data, 0644)
		replayPaths = append(replayPaths, p)
		written++
	}
	// Vacuity guard.
	if res.Evaluations == 0 {
		res.Broken = append(res.Broken, "no case evaluated")
	}
	exhaustive := len(res.Incomplete) == 0 && len(res.Broken) == 0
	cov := map[string]any{
		"evaluations":         res.Evaluations,
		"distinct_nontrivial": res.Nontrivial,
		"rule":                m.Rule,
		"samples":             res.Samples,
		"exhaustive":          exhaustive,
		"counters":            res.Counters,
		"distinct_outcomes":   len(res.Outcomes),
		"outcomes":            topOutcomes(res.Outcomes, 40),
		"bounds":              m.Bounds,
	}
	if m.Level == "model_checking" {
		cov["states"] = res.States
		cov["transitions"] = res.Transitions
		cov["traces_validated_against_impl"] = res.Validated
	}
	if len(res.Incomplete) > 0 {
		cov["caps_hit"] = res.Incomplete
	}
	if len(res.Notes) > 0 {
		cov["notes"] = dedup(res.Notes)
	}
	if len(known) > 0 {
		cov["known_findings_observed"] = known
	}
	if len(res.Samples) == 0 {
		cov["samples"] = []any{"(none)"}
	}
	ev := map[string]any{
		"property_id": m.ID,
		"tier":        tier,
		"seed":        seed,
		"level":       m.Level,
		"coverage":    cov,
		"assumptions": m.Assumptions,
		"wall_s":      time.Since(start).Seconds(),
		"violations":  len(unknown),
	}
	os.MkdirAll(filepath.Join(VerifDir, "evidence"), 0755)
	data, _ := json.MarshalIndent(ev, "", " ")
	os.WriteFile(filepath.Join(VerifDir, "evidence", m.ID+".json"), data, 0644)

	fmt.Printf("%s %s: evaluations=%d nontrivial=%d states=%d transitions=%d outcomes=%d wall=%.1fs exhaustive=%v\n",
		m.ID, tier, res.Evaluations, res.Nontrivial, res.States, res.Transitions,
		len(res.Outcomes), time.Since(start).Seconds(), exhaustive)
	keys := make([]string, 0, len(res.Counters))
	for k := range res.Counters {
		keys = append(keys, k)
	}
	sort.Strings(keys)
	for _, k := range keys {
		fmt.Printf("  %s=%d\n", k, res.Counters[k])
	}
	for _, s := range res.Incomplete {
		fmt.Printf("  cap hit: %s\n", s)
	}
	if len(res.Broken) > 0 {
		for _, b := range res.Broken {
			fmt.Printf("BROKEN-CHECK %s: %s\n", m.ID, b)
		}
		return 2
	}
	ids := make([]string, 0, len(known))
	for id := range known {
		ids = append(ids, id)
	}
	sort.Strings(ids)
	for _, id := range ids {
		for _, f := range ff.Findings {
			if f.ID == id {
				fmt.Printf("KNOWN-FINDING: property=%s %s [%s] (%d cases)\n",
					m.ID, f.Summary, f.ID, known[id])
			}
		}
	}
	if len(unknown) > 0 {
		bySig := map[string]int{}
		for _, v := range unknown {
			bySig[v.Signature]++
		}
		for sig, n := range bySig {
			fmt.Printf("  unknown violations: signature=%q count=%d\n", sig, n)
		}
		if len(replayPaths) == 0 {
			replayPaths = []string{"(none)"}
		}
		for _, p := range replayPaths {
			fmt.Printf("VIOLATION property=%s replay=%s\n", m.ID, p)
		}
		return 1
	}
	return 0
}

func dedup(l []string) []string {
	seen := map[string]bool{}
	var r []string
	for _, s := range l {
		if !seen[s] {
			seen[s] = true
			r = append(r, s)
		}
	}
	return r
}

func topOutcomes(m map[string]int64, n int) map[string]int64 {
	type kv struct {
		k string
		v int64
	}
	var l []kv
	for k, v := range m {
		l = append(l, kv{k, v})
	}
	sort.Slice(l, func(i, j int) bool {
		if l[i].v != l[j].v {
			return l[i].v > l[j].v
		}
		return l[i].k < l[j].k
	})
	r := map[string]int64{}
	for i, e := range l {
		if i >= n {
			break
		}
		k := e.k
		if len(k) > 120 {
			k = k[:120]
		}
		r[k] = e.v
	}
	return r
}

// DumpCases writes the case hashes of all violations, grouped by
// signature, to files <dir>/<property>.<signature>.cases.  Maintenance
// only (VERIF_DUMP_CASES=<dir>): used on the unchanged tree to produce
// the cases_file of a reviewed finding; checks never write these files.
func DumpCases(res *Result, dir string) {
	bySig := map[string][]string{}
	for _, v := range res.Violations {
		k := v.Property + "." + v.Signature
		bySig[k] = append(bySig[k], v.Hash)
	}
	os.MkdirAll(dir, 0755)
	for sig, l := range bySig {
		sort.Strings(l)
		l = dedup(l)
		name := strings.NewReplacer(":", "_", "/", "_", " ", "_").Replace(sig) + ".cases"
		os.WriteFile(filepath.Join(dir, name), []byte(strings.Join(l, "\n")+"\n"), 0644)
		fmt.Printf("CASES %s: %d hashes -> %s\n", sig, len(l), filepath.Join(dir, name))
	}
}
