package core

import (
	"encoding/json"
	"fmt"
	"hash/fnv"
	"os"
	"os/exec"
	"path/filepath"
	"runtime"
	"sort"
	"strconv"
	"sync"
	"time"
)

// Ctx is what an engine gets.
type Ctx struct {
	ID       string // property id
	Tier     string // quick | thorough
	Shard    int
	NShards  int
	Deadline time.Time
	Seed     int64
	Args     []string // extra arguments (engine specific)
	Binary   string   // worker binary ("" = this binary)
}

func (c *Ctx) Thorough() bool { return c.Tier == "thorough" }

// Mine tells whether enumeration index i belongs to this shard.
func (c *Ctx) Mine(i int64) bool {
	if c.NShards <= 1 {
		return true
	}
	return int(i%int64(c.NShards)) == c.Shard
}

func (c *Ctx) Expired() bool {
	return !c.Deadline.IsZero() && time.Now().After(c.Deadline)
}

// Violation of a property on one case.
type Violation struct {
	Property  string            `json:"property"`
	Engine    string            `json:"engine"`
	Space     string            `json:"space"`
	Index     int64             `json:"index"`
	Inputs    map[string]string `json:"inputs,omitempty"`
	Events    []string          `json:"events,omitempty"`
	Script    []string          `json:"script,omitempty"`
	Step      int               `json:"failing_step"`
	Oracle    string            `json:"oracle"`
	Signature string            `json:"signature"`
	Message   string            `json:"message"`
	Hash      string            `json:"hash"`
}

// CaseHash is independent of enumeration order: FNV-64 of engine, space,
// canonical inputs, failing step and oracle.
func (v *Violation) ComputeHash() {
	h := fnv.New64a()
	w := func(s string) { h.Write([]byte(s)); h.Write([]byte{0}) }
	w(v.Engine)
	w(v.Space)
	keys := make([]string, 0, len(v.Inputs))
	for k := range v.Inputs {
		keys = append(keys, k)
	}
	sort.Strings(keys)
	for _, k := range keys {
		w(k)
		w(v.Inputs[k])
	}
	for _, e := range v.Events {
		w(e)
	}
	w(strconv.Itoa(v.Step))
	w(v.Oracle)
	v.Hash = fmt.Sprintf("%016x", h.Sum64())
}

// Result of an engine run (one shard or merged).
type Result struct {
	Evaluations int64            `json:"evaluations"`
	Nontrivial  int64            `json:"distinct_nontrivial"`
	States      int64            `json:"states"`
	Transitions int64            `json:"transitions"`
	Validated   int64            `json:"traces_validated_against_impl"`
	Counters    map[string]int64 `json:"counters,omitempty"`
	Outcomes    map[string]int64 `json:"outcomes,omitempty"`
	Samples     []any            `json:"samples,omitempty"`
	Violations  []Violation      `json:"violations,omitempty"`
	// Number of violations seen (Violations is capped per signature).
	ViolationCount int64    `json:"violation_count"`
	Incomplete     []string `json:"incomplete,omitempty"` // caps hit
	Broken         []string `json:"broken,omitempty"`     // harness self-check failures
	Notes          []string `json:"notes,omitempty"`
}

func NewResult() *Result {
	return &Result{Counters: map[string]int64{}, Outcomes: map[string]int64{}}
}

func (r *Result) Count(k string, n int64) { r.Counters[k] += n }
func (r *Result) Outcome(k string)        { r.Outcomes[k]++ }

func (r *Result) Sample(v any) {
	if len(r.Samples) < 4 {
		r.Samples = append(r.Samples, v)
	}
}

const maxViolationsPerSig = 400

// AddViolation records a violation; every violation is kept (hashes are
// needed for known-finding matching) but inputs are dropped after the
// first few per signature to bound memory.
func (r *Result) AddViolation(v Violation) {
	if v.Hash == "" {
		v.ComputeHash()
	}
	r.ViolationCount++
	n := 0
	for i := range r.Violations {
		if r.Violations[i].Signature == v.Signature {
			n++
		}
	}
	if n >= 3 {
		v.Inputs = nil
		v.Script = nil
		v.Events = nil
		v.Message = ""
	}
	r.Violations = append(r.Violations, v)
}

func (r *Result) Merge(o *Result) {
	r.Evaluations += o.Evaluations
	r.Nontrivial += o.Nontrivial
	r.States += o.States
	r.Transitions += o.Transitions
	r.Validated += o.Validated
	for k, v := range o.Counters {
		r.Counters[k] += v
	}
	for k, v := range o.Outcomes {
		r.Outcomes[k] += v
	}
	for _, s := range o.Samples {
		r.Sample(s)
	}
	r.Violations = append(r.Violations, o.Violations...)
	r.ViolationCount += o.ViolationCount
	r.Incomplete = append(r.Incomplete, o.Incomplete...)
	r.Broken = append(r.Broken, o.Broken...)
	r.Notes = append(r.Notes, o.Notes...)
}

// Engine is implemented by every check.
type Engine func(ctx *Ctx) *Result

// RunSharded re-executes this binary n times as workers and merges.
// Each worker is single threaded; a worker that dies (crash, OOM, fatal
// error) makes the check "broken", never silently green.
func RunSharded(ctx *Ctx, n int) *Result {
	if n <= 0 {
		n = runtime.NumCPU()
	}
	dir, err := os.MkdirTemp(scratchBase(), "verif-drv-")
	must(err)
	defer os.RemoveAll(dir)
	results := make([]*Result, n)
	var wg sync.WaitGroup
	for i := 0; i < n; i++ {
		wg.Add(1)
		go func(i int) {
			defer wg.Done()
			out := filepath.Join(dir, fmt.Sprintf("res%d.json", i))
			args := []string{"-worker", ctx.ID, ctx.Tier,
				strconv.Itoa(i), strconv.Itoa(n), out}
			args = append(args, ctx.Args...)
			bin := os.Args[0]
			if ctx.Binary != "" {
				bin = ctx.Binary
			}
			cmd := exec.Command(bin, args...)
			cmd.Env = append(os.Environ(), "GOMAXPROCS=2",
				"VERIF_DEADLINE="+strconv.FormatInt(ctx.Deadline.Unix(), 10))
			logf := filepath.Join(dir, fmt.Sprintf("log%d.txt", i))
			lf, _ := os.Create(logf)
			cmd.Stdout = lf
			cmd.Stderr = lf
			err := cmd.Run()
			lf.Close()
			res := NewResult()
			data, rerr := os.ReadFile(out)
			if rerr == nil {
				rerr = json.Unmarshal(data, res)
			}
			if err != nil || rerr != nil {
				logData, _ := os.ReadFile(logf)
				if len(logData) > 3000 {
					logData = logData[len(logData)-3000:]
				}
				res.Broken = append(res.Broken,
					fmt.Sprintf("worker %d/%d failed: %v %v\n%s", i, n, err, rerr, logData))
			}
			if res.Counters == nil {
				res.Counters = map[string]int64{}
			}
			if res.Outcomes == nil {
				res.Outcomes = map[string]int64{}
			}
			results[i] = res
		}(i)
	}
	wg.Wait()
	total := NewResult()
	for _, r := range results {
		total.Merge(r)
	}
	return total
}

// WorkerMain is called by main for "-worker id tier i n outfile".
func WorkerMain(args []string, engines map[string]Engine) {
	id, tier := args[0], args[1]
	i, _ := strconv.Atoi(args[2])
	n, _ := strconv.Atoi(args[3])
	out := args[4]
	ctx := &Ctx{ID: id, Tier: tier, Shard: i, NShards: n, Args: args[5:]}
	if d, err := strconv.ParseInt(os.Getenv("VERIF_DEADLINE"), 10, 64); err == nil && d > 0 {
		ctx.Deadline = time.Unix(d, 0)
	}
	ctx.Seed, _ = strconv.ParseInt(os.Getenv("VERIF_SEED"), 10, 64)
	e := engines[id]
	if e == nil {
		fmt.Fprintf(os.Stderr, "unknown engine %s\n", id)
		os.Exit(3)
	}
	res := e(ctx)
	data, err := json.Marshal(res)
	must(err)
	must(os.WriteFile(out, data, 0644))
}
