// Package nsxmodel is an independent reference model of the part of an
// NSX-T manager that Netspoc-Approve talks to: gateway policies with their
// rules, groups (one IP address expression each) and services, with the
// referential integrity the manager enforces.
package nsxmodel

import (
	"encoding/json"
	"fmt"
	"sort"
	"strings"
)

type Obj = map[string]any

type Dev struct {
	Policies []Obj // each with "id", "rules": []any of Obj
	Groups   []Obj
	Services []Obj
	nextID   int
	// Assume holds ids of groups/services that exist outside the model's
	// view (referenced by a target that does not define them).
	Assume map[string]bool
}

// Dangling returns the ids the rules of d reference without definition.
func (d *Dev) Dangling() map[string]bool {
	out := map[string]bool{}
	for _, p := range d.Policies {
		for _, r := range rulesOf(p) {
			for _, f := range []string{"source_groups", "destination_groups"} {
				if g, ok := strings.CutPrefix(firstString(r[f]), groupPrefix); ok && find(d.Groups, g) < 0 {
					out[g] = true
				}
			}
			if sv, ok := strings.CutPrefix(firstString(r["services"]), servicePrefix); ok && find(d.Services, sv) < 0 {
				out[sv] = true
			}
		}
	}
	return out
}

func clone(v any) any {
	b, _ := json.Marshal(v)
	var o any
	json.Unmarshal(b, &o)
	return o
}

func (d *Dev) Clone() *Dev {
	n := &Dev{nextID: d.nextID, Assume: d.Assume}
	for _, p := range d.Policies {
		n.Policies = append(n.Policies, clone(p).(Obj))
	}
	for _, p := range d.Groups {
		n.Groups = append(n.Groups, clone(p).(Obj))
	}
	for _, p := range d.Services {
		n.Services = append(n.Services, clone(p).(Obj))
	}
	return n
}

func stripHeader(text string) string {
	for strings.HasPrefix(text, "#") {
		i := strings.Index(text, "\n")
		if i < 0 {
			return ""
		}
		text = text[i+1:]
	}
	return text
}

// Load reads the JSON form {groups, services, policies}.
func Load(text string) (*Dev, error) {
	d := &Dev{}
	text = stripHeader(text)
	if strings.TrimSpace(text) == "" {
		return d, nil
	}
	var raw struct {
		Policies []Obj `json:"policies"`
		Groups   []Obj `json:"groups"`
		Services []Obj `json:"services"`
	}
	// keys are matched case-insensitively by encoding/json
	if err := json.Unmarshal([]byte(text), &raw); err != nil {
		return nil, err
	}
	d.Policies, d.Groups, d.Services = raw.Policies, raw.Groups, raw.Services
	return d, nil
}

func (d *Dev) Print() string {
	out := map[string]any{"policies": orEmpty(d.Policies), "groups": orEmpty(d.Groups), "services": orEmpty(d.Services)}
	b, _ := json.MarshalIndent(out, "", " ")
	return string(b) + "\n"
}

func orEmpty(l []Obj) []Obj {
	if l == nil {
		return []Obj{}
	}
	return l
}

func id(o Obj) string { s, _ := o["id"].(string); return s }

func find(l []Obj, name string) int {
	for i, o := range l {
		if id(o) == name {
			return i
		}
	}
	return -1
}

func rulesOf(p Obj) []Obj {
	var l []Obj
	if rs, ok := p["rules"].([]any); ok {
		for _, r := range rs {
			if o, ok := r.(Obj); ok {
				l = append(l, o)
			}
		}
	}
	return l
}

func setRules(p Obj, l []Obj) {
	a := make([]any, len(l))
	for i, r := range l {
		a[i] = r
	}
	p["rules"] = a
}

func firstString(v any) string {
	if l, ok := v.([]any); ok && len(l) > 0 {
		s, _ := l[0].(string)
		return s
	}
	return ""
}

const groupPrefix = "/infra/domains/default/groups/"
const servicePrefix = "/infra/services/"

func (d *Dev) checkRuleRefs(r Obj) error {
	for _, f := range []string{"source_groups", "destination_groups"} {
		if l, ok := r[f].([]any); ok {
			for _, e := range l {
				s, _ := e.(string)
				if g, ok := strings.CutPrefix(s, groupPrefix); ok {
					if strings.HasPrefix(g, "Netspoc") && find(d.Groups, g) < 0 && !d.Assume[g] {
						return fmt.Errorf("rule references unknown group %q", g)
					}
				}
			}
		}
	}
	if l, ok := r["services"].([]any); ok {
		for _, e := range l {
			s, _ := e.(string)
			if sv, ok := strings.CutPrefix(s, servicePrefix); ok {
				if strings.HasPrefix(sv, "Netspoc") && find(d.Services, sv) < 0 && !d.Assume[sv] {
					return fmt.Errorf("rule references unknown service %q", sv)
				}
			}
		}
	}
	return nil
}

func (d *Dev) referrer(path string) string {
	for _, p := range d.Policies {
		for _, r := range rulesOf(p) {
			for _, f := range []string{"source_groups", "destination_groups", "services"} {
				if l, ok := r[f].([]any); ok {
					for _, e := range l {
						if s, _ := e.(string); s == path {
							return fmt.Sprintf("rule %q of policy %q", id(r), id(p))
						}
					}
				}
			}
		}
	}
	return ""
}

// Exec executes one REST call: method, path (with optional ?action=) and body.
func (d *Dev) Exec(method, url, body string) error {
	path, query, _ := strings.Cut(url, "?")
	path = strings.TrimPrefix(path, "/policy/api/v1")
	var data Obj
	if strings.TrimSpace(body) != "" {
		if err := json.Unmarshal([]byte(body), &data); err != nil {
			return fmt.Errorf("invalid JSON body: %v", err)
		}
	}
	seg := strings.Split(strings.Trim(path, "/"), "/")
	switch {
	case len(seg) == 3 && seg[0] == "infra" && seg[1] == "services":
		return d.execObject(&d.Services, seg[2], method, data, servicePrefix+seg[2])
	case len(seg) == 5 && seg[3] == "groups":
		if method != "DELETE" && data != nil {
			// expressions get an id from the manager if none is given
			if l, ok := data["expression"].([]any); ok {
				for _, e := range l {
					if o, ok := e.(Obj); ok {
						if s, _ := o["id"].(string); s == "" {
							d.nextID++
							o["id"] = fmt.Sprintf("expr-%d", d.nextID)
						}
					}
				}
			}
		}
		return d.execObject(&d.Groups, seg[4], method, data, groupPrefix+seg[4])
	case len(seg) == 7 && seg[3] == "groups" && seg[5] == "ip-address-expressions":
		gi := find(d.Groups, seg[4])
		if gi < 0 {
			return fmt.Errorf("group %q does not exist", seg[4])
		}
		var expr Obj
		if l, ok := d.Groups[gi]["expression"].([]any); ok {
			for _, e := range l {
				if o, ok := e.(Obj); ok && id(o) == seg[6] {
					expr = o
				}
			}
		}
		if expr == nil {
			return fmt.Errorf("group %q has no expression %q", seg[4], seg[6])
		}
		cur := toStrings(expr["ip_addresses"])
		switch {
		case method == "POST" && (query == "action=add" || query == "action=remove"):
			arg := toStrings(data["ip_addresses"])
			if len(arg) == 0 {
				return fmt.Errorf("empty address list")
			}
			for _, a := range arg {
				present := contains(cur, a)
				if query == "action=add" {
					if present {
						return fmt.Errorf("address %q is already member of group %q", a, seg[4])
					}
					cur = append(cur, a)
				} else {
					if !present {
						return fmt.Errorf("address %q is not member of group %q", a, seg[4])
					}
					cur = remove(cur, a)
				}
			}
			expr["ip_addresses"] = fromStrings(cur)
			return nil
		case method == "PATCH" && query == "":
			arg := toStrings(data["ip_addresses"])
			if len(arg) == 0 {
				return fmt.Errorf("empty address list")
			}
			expr["ip_addresses"] = fromStrings(arg)
			return nil
		}
		return fmt.Errorf("unsupported %s %s", method, url)
	case len(seg) == 5 && seg[3] == "gateway-policies":
		pid := seg[4]
		i := find(d.Policies, pid)
		switch method {
		case "PUT":
			if i >= 0 {
				return fmt.Errorf("policy %q already exists (PUT without _revision)", pid)
			}
			if data == nil {
				return fmt.Errorf("missing body")
			}
			data["id"] = pid
			seen := map[string]bool{}
			for _, r := range rulesOf(data) {
				if err := d.checkRuleRefs(r); err != nil {
					return err
				}
				if seen[id(r)] {
					return fmt.Errorf("duplicate rule id %q", id(r))
				}
				seen[id(r)] = true
			}
			d.Policies = append(d.Policies, data)
			return nil
		case "DELETE":
			if i < 0 {
				return fmt.Errorf("policy %q does not exist", pid)
			}
			d.Policies = append(d.Policies[:i:i], d.Policies[i+1:]...)
			return nil
		}
	case len(seg) == 7 && seg[3] == "gateway-policies" && seg[5] == "rules":
		pi := find(d.Policies, seg[4])
		if pi < 0 {
			return fmt.Errorf("policy %q does not exist", seg[4])
		}
		p := d.Policies[pi]
		rules := rulesOf(p)
		ri := find(rules, seg[6])
		switch method {
		case "PUT":
			if ri >= 0 {
				if _, has := data["_revision"]; !has {
					return fmt.Errorf("rule %q already exists (PUT without _revision)", seg[6])
				}
			}
			if data == nil {
				return fmt.Errorf("missing body")
			}
			if err := d.checkRuleRefs(data); err != nil {
				return err
			}
			data["id"] = seg[6]
			if ri >= 0 {
				rules[ri] = data
			} else {
				rules = append(rules, data)
			}
			setRules(p, rules)
			return nil
		case "PATCH":
			if ri < 0 {
				return fmt.Errorf("rule %q does not exist", seg[6])
			}
			if err := d.checkRuleRefs(data); err != nil {
				return err
			}
			for k, v := range data {
				rules[ri][k] = v
			}
			rules[ri]["id"] = seg[6]
			return nil
		case "DELETE":
			if ri < 0 {
				return fmt.Errorf("rule %q does not exist", seg[6])
			}
			rules = append(rules[:ri:ri], rules[ri+1:]...)
			setRules(p, rules)
			return nil
		}
	}
	return fmt.Errorf("unsupported %s %s", method, url)
}

func (d *Dev) execObject(l *[]Obj, name, method string, data Obj, refPath string) error {
	i := find(*l, name)
	switch method {
	case "PUT":
		if i >= 0 {
			return fmt.Errorf("object %q already exists (PUT without _revision)", name)
		}
		if data == nil {
			return fmt.Errorf("missing body")
		}
		data["id"] = name
		*l = append(*l, data)
		return nil
	case "PATCH":
		if data == nil {
			return fmt.Errorf("missing body")
		}
		data["id"] = name
		if i < 0 {
			*l = append(*l, data) // PATCH creates if absent
			return nil
		}
		for k, v := range data {
			(*l)[i][k] = v
		}
		return nil
	case "DELETE":
		if i < 0 {
			return fmt.Errorf("object %q does not exist", name)
		}
		if by := d.referrer(refPath); by != "" {
			return fmt.Errorf("object %q is still referenced by %s", name, by)
		}
		*l = append((*l)[:i:i], (*l)[i+1:]...)
		return nil
	}
	return fmt.Errorf("unsupported method %s", method)
}

func toStrings(v any) []string {
	var l []string
	if a, ok := v.([]any); ok {
		for _, e := range a {
			if s, ok := e.(string); ok {
				l = append(l, s)
			}
		}
	}
	return l
}

func fromStrings(l []string) []any {
	a := make([]any, len(l))
	for i, s := range l {
		a[i] = s
	}
	return a
}

func contains(l []string, s string) bool {
	for _, e := range l {
		if e == s {
			return true
		}
	}
	return false
}

func remove(l []string, s string) []string {
	var r []string
	for _, e := range l {
		if e != s {
			r = append(r, e)
		}
	}
	return r
}

// ---------------------------------------------------------------------
// Semantic view.

var ruleFields = []string{"action", "sequence_number", "sources_excluded", "destinations_excluded",
	"service_entries", "profiles", "scope", "disabled", "logged", "tag", "direction", "ip_protocol"}

func (d *Dev) groupContent(ref string) string {
	g, ok := strings.CutPrefix(ref, groupPrefix)
	if !ok {
		return ref
	}
	i := find(d.Groups, g)
	if i < 0 {
		return "ext:" + ref // a group outside the Netspoc namespace
	}
	var addrs []string
	if l, ok := d.Groups[i]["expression"].([]any); ok {
		for _, e := range l {
			if o, ok := e.(Obj); ok {
				addrs = append(addrs, toStrings(o["ip_addresses"])...)
			}
		}
	}
	sort.Strings(addrs)
	return "{" + strings.Join(addrs, ",") + "}"
}

func stripIDs(v any) any {
	switch t := v.(type) {
	case Obj:
		o := Obj{}
		for k, e := range t {
			if k == "id" || strings.HasPrefix(k, "_") {
				continue
			}
			o[k] = stripIDs(e)
		}
		return o
	case []any:
		var l []any
		for _, e := range t {
			l = append(l, stripIDs(e))
		}
		return l
	}
	return v
}

func (d *Dev) serviceContent(ref string) string {
	s, ok := strings.CutPrefix(ref, servicePrefix)
	if !ok {
		return ref
	}
	i := find(d.Services, s)
	if i < 0 {
		return "ext:" + ref
	}
	b, _ := json.Marshal(stripIDs(d.Services[i]["service_entries"]))
	return string(b)
}

func isZero(v any) bool {
	switch t := v.(type) {
	case nil:
		return true
	case bool:
		return !t
	case string:
		return t == ""
	case float64:
		return t == 0
	case []any:
		return len(t) == 0
	}
	return false
}

// SemPolicy returns the sorted multiset of canonical rules of a policy.
func (d *Dev) SemPolicy(pid string) []string {
	i := find(d.Policies, pid)
	if i < 0 {
		return nil
	}
	var out []string
	for _, r := range rulesOf(d.Policies[i]) {
		c := Obj{}
		for _, f := range ruleFields {
			if v, ok := r[f]; ok && !isZero(v) {
				c[f] = v
			}
		}
		c["src"] = d.groupContent(firstString(r["source_groups"]))
		c["dst"] = d.groupContent(firstString(r["destination_groups"]))
		c["srv"] = d.serviceContent(firstString(r["services"]))
		b, _ := json.Marshal(c)
		out = append(out, string(b))
	}
	sort.Strings(out)
	return out
}

func (d *Dev) PolicyIDs() []string {
	var l []string
	for _, p := range d.Policies {
		l = append(l, id(p))
	}
	sort.Strings(l)
	return l
}

// UsedGroups returns the ids of Netspoc groups referenced by some rule.
func (d *Dev) UsedGroups() map[string]bool {
	m := map[string]bool{}
	for _, p := range d.Policies {
		for _, r := range rulesOf(p) {
			for _, f := range []string{"source_groups", "destination_groups"} {
				if g, ok := strings.CutPrefix(firstString(r[f]), groupPrefix); ok {
					m[g] = true
				}
			}
		}
	}
	return m
}

func (d *Dev) GroupIDs() []string {
	var l []string
	for _, g := range d.Groups {
		l = append(l, id(g))
	}
	sort.Strings(l)
	return l
}

func (d *Dev) ServiceIDs() []string {
	var l []string
	for _, g := range d.Services {
		l = append(l, id(g))
	}
	sort.Strings(l)
	return l
}

// ServiceDef returns the canonical definition of a service.
func (d *Dev) ServiceDef(sid string) string { return d.serviceContent(servicePrefix + sid) }
