// Command verif is the driver of all checks.
//
//	verif <ID> quick|thorough      run the check for one property
//	verif -worker ...              internal: one shard of an enumeration
//	verif selftest                 model vs. repository corpus
//	verif replay <file>            re-run one recorded violation
package main

import (
	"fmt"
	"os"
	"strconv"
	"time"

	"verif/harness/internal/core"
	"verif/harness/internal/engines"
)

func main() {
	if len(os.Args) < 2 {
		fmt.Fprintln(os.Stderr, "usage: verif <ID> quick|thorough | selftest | replay <file>")
		os.Exit(2)
	}
	switch os.Args[1] {
	case "-worker":
		core.WorkerMain(os.Args[2:], engines.Workers)
		return
	case "selftest":
		os.Exit(engines.RunSelftest(os.Args[2:]))
	case "replay":
		os.Exit(engines.Replay(os.Args[2:]))
	}
	if f, ok := engines.Debug[os.Args[1]]; ok {
		os.Exit(f(os.Args[2:]))
	}
	id := os.Args[1]
	tier := "quick"
	if len(os.Args) > 2 {
		tier = os.Args[2]
	}
	chk, ok := engines.Checks[id]
	if !ok {
		fmt.Fprintf(os.Stderr, "no check for %s\n", id)
		os.Exit(2)
	}
	seed, _ := strconv.ParseInt(os.Getenv("VERIF_SEED"), 10, 64)
	start := time.Now()
	budget := chk.QuickBudget
	if tier == "thorough" {
		budget = chk.ThoroughBudget
	}
	if b, err := time.ParseDuration(os.Getenv("VERIF_BUDGET")); err == nil {
		budget = b
	}
	ctx := &core.Ctx{ID: id, Tier: tier, Seed: seed, NShards: 1,
		Deadline: start.Add(budget), Args: os.Args[3:]}
	res := chk.Run(ctx)
	if d := os.Getenv("VERIF_DUMP_CASES"); d != "" {
		core.DumpCases(res, d)
	}
	meta := chk.Meta(tier)
	os.Exit(core.Finish(meta, tier, seed, res, start))
}
