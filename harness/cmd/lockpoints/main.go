// Command lockpoints writes a copy of pkg/device/main.go in which
// device.SetLock calls verifsched.Point(name) before each of its three
// system calls (os.Mkdir, os.OpenFile, syscall.Flock).  Keyed on syntax,
// not on line numbers.
//
//	lockpoints <repo go dir> <out file>
package main

import (
	"bytes"
	"fmt"
	"go/ast"
	"go/parser"
	"go/printer"
	"go/token"
	"os"
	"path/filepath"
	"strconv"
)

func main() {
	if len(os.Args) != 3 {
		fmt.Fprintln(os.Stderr, "usage: lockpoints <repo go dir> <out file>")
		os.Exit(2)
	}
	src := filepath.Join(os.Args[1], "pkg", "device", "main.go")
	fset := token.NewFileSet()
	f, err := parser.ParseFile(fset, src, nil, parser.ParseComments)
	if err != nil {
		fmt.Fprintln(os.Stderr, err)
		os.Exit(1)
	}
	targets := map[string]string{"os.Mkdir": "mkdir", "os.OpenFile": "open", "syscall.Flock": "flock"}
	found := map[string]bool{}
	for _, d := range f.Decls {
		fd, ok := d.(*ast.FuncDecl)
		if !ok || fd.Name.Name != "SetLock" || fd.Body == nil {
			continue
		}
		var out []ast.Stmt
		for _, st := range fd.Body.List {
			name := ""
			ast.Inspect(st, func(n ast.Node) bool {
				if ce, ok := n.(*ast.CallExpr); ok {
					if se, ok := ce.Fun.(*ast.SelectorExpr); ok {
						if id, ok := se.X.(*ast.Ident); ok {
							if p, ok := targets[id.Name+"."+se.Sel.Name]; ok && name == "" {
								name = p
							}
						}
					}
				}
				return true
			})
			if name != "" {
				found[name] = true
				out = append(out, &ast.ExprStmt{X: &ast.CallExpr{
					Fun:  &ast.SelectorExpr{X: ast.NewIdent("verifsched"), Sel: ast.NewIdent("Point")},
					Args: []ast.Expr{&ast.BasicLit{Kind: token.STRING, Value: strconv.Quote(name)}}}})
			}
			out = append(out, st)
		}
		fd.Body.List = out
	}
	if len(found) != 3 {
		fmt.Fprintf(os.Stderr, "instrumentation point not found: SetLock system calls found: %v\n", found)
		os.Exit(1)
	}
	// add the import
	imp := &ast.ImportSpec{Path: &ast.BasicLit{Kind: token.STRING, Value: strconv.Quote("github.com/hknutzen/Netspoc-Approve/go/pkg/verifsched")}}
	for _, d := range f.Decls {
		if gd, ok := d.(*ast.GenDecl); ok && gd.Tok == token.IMPORT {
			gd.Specs = append(gd.Specs, imp)
			break
		}
	}
	var buf bytes.Buffer
	if err := printer.Fprint(&buf, fset, f); err != nil {
		fmt.Fprintln(os.Stderr, err)
		os.Exit(1)
	}
	os.WriteFile(os.Args[2], append([]byte("//go:build verif\n\n"), buf.Bytes()...), 0644)
}
