// Command lockpoints writes a copy of pkg/device/main.go in which
// device.SetLock calls verifsched.Point(name) before each statement that
// makes a system call (a call of a function of package os or syscall, or a
// method of the lock file handle that reaches the kernel: Stat, Close).
// Statements are instrumented where they stand, also inside loops and
// branches.  Keyed on syntax, not on line numbers.
//
//	lockpoints <repo go dir> <out file>
package main

import (
	"bytes"
	"fmt"
	"go/ast"
	"go/parser"
	"go/printer"
	"go/token"
	"os"
	"path/filepath"
	"sort"
	"strconv"
	"strings"
)

var names = map[string]string{"os.Mkdir": "mkdir", "os.OpenFile": "open", "syscall.Flock": "flock"}

// callName returns the name of the first system call made directly by the
// statement (nested blocks are instrumented on their own).
func callName(st ast.Stmt) string {
	name := ""
	ast.Inspect(st, func(n ast.Node) bool {
		if n == nil || name != "" {
			return false
		}
		if _, ok := n.(*ast.BlockStmt); ok && n != ast.Node(st) {
			return false
		}
		if _, ok := n.(*ast.FuncLit); ok {
			return false
		}
		if ce, ok := n.(*ast.CallExpr); ok {
			if se, ok := ce.Fun.(*ast.SelectorExpr); ok {
				if id, ok := se.X.(*ast.Ident); ok {
					full := id.Name + "." + se.Sel.Name
					switch {
					case names[full] != "":
						name = names[full]
					case (id.Name == "os" || id.Name == "syscall") && se.Sel.Name != "O_CREATE":
						name = strings.ToLower(se.Sel.Name)
					case se.Sel.Name == "Stat" || se.Sel.Name == "Close":
						name = strings.ToLower(id.Name + "." + se.Sel.Name)
					}
				}
			}
		}
		return true
	})
	return name
}

var found = map[string]bool{}

func instrument(list []ast.Stmt) []ast.Stmt {
	var out []ast.Stmt
	for _, st := range list {
		// nested blocks first
		switch t := st.(type) {
		case *ast.ForStmt:
			t.Body.List = instrument(t.Body.List)
		case *ast.RangeStmt:
			t.Body.List = instrument(t.Body.List)
		case *ast.BlockStmt:
			t.List = instrument(t.List)
		case *ast.IfStmt:
			for s := t; s != nil; {
				s.Body.List = instrument(s.Body.List)
				switch e := s.Else.(type) {
				case *ast.IfStmt:
					s = e
				case *ast.BlockStmt:
					e.List = instrument(e.List)
					s = nil
				default:
					s = nil
				}
			}
		}
		if name := callName(st); name != "" {
			found[name] = true
			out = append(out, &ast.ExprStmt{X: &ast.CallExpr{
				Fun:  &ast.SelectorExpr{X: ast.NewIdent("verifsched"), Sel: ast.NewIdent("Point")},
				Args: []ast.Expr{&ast.BasicLit{Kind: token.STRING, Value: strconv.Quote(name)}}}})
		}
		out = append(out, st)
	}
	return out
}

func main() {
	if len(os.Args) != 3 {
		fmt.Fprintln(os.Stderr, "usage: lockpoints <repo go dir> <out file>")
		os.Exit(2)
	}
	src := filepath.Join(os.Args[1], "pkg", "device", "main.go")
	fset := token.NewFileSet()
	f, err := parser.ParseFile(fset, src, nil, parser.ParseComments)
	if err != nil {
		fmt.Fprintln(os.Stderr, err)
		os.Exit(1)
	}
	for _, d := range f.Decls {
		fd, ok := d.(*ast.FuncDecl)
		if !ok || fd.Name.Name != "SetLock" || fd.Body == nil {
			continue
		}
		fd.Body.List = instrument(fd.Body.List)
	}
	// SetLock must at least open the lock file and make one further system
	// call (the lock itself: flock, or fcntl record locks)
	if !found["open"] || len(found) < 2 {
		fmt.Fprintf(os.Stderr, "instrumentation point not found: SetLock system calls found: %v\n", found)
		os.Exit(1)
	}
	// the list of points is part of the build output (the explorer reads it)
	var l []string
	for n := range found {
		l = append(l, n)
	}
	sort.Strings(l)
	os.WriteFile(os.Args[2]+".points", []byte(strings.Join(l, "\n")+"\n"), 0644)
	// add the import
	imp := &ast.ImportSpec{Path: &ast.BasicLit{Kind: token.STRING, Value: strconv.Quote("github.com/hknutzen/Netspoc-Approve/go/pkg/verifsched")}}
	for _, d := range f.Decls {
		if gd, ok := d.(*ast.GenDecl); ok && gd.Tok == token.IMPORT {
			gd.Specs = append(gd.Specs, imp)
			break
		}
	}
	var buf bytes.Buffer
	if err := printer.Fprint(&buf, fset, f); err != nil {
		fmt.Fprintln(os.Stderr, err)
		os.Exit(1)
	}
	os.WriteFile(os.Args[2], append([]byte("//go:build verif\n\n"), buf.Bytes()...), 0644)
}
