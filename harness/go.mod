module verif/harness

go 1.23.1

require (
	github.com/hknutzen/Netspoc-Approve/go v0.0.0
	github.com/hknutzen/testtxt v0.0.0-20240408182449-0168fe18ebfb
	github.com/tailscale/goexpect v0.0.0-20210902213824-6e8c725cea41
)

require (
	github.com/google/goterm v0.0.0-20200907032337-555d40f16ae2 // indirect
	github.com/pkg/diff v0.0.0-20210226163009-20ebb0f2a09e // indirect
	github.com/spf13/pflag v1.0.5 // indirect
	golang.org/x/crypto v0.35.0 // indirect
	golang.org/x/sys v0.30.0 // indirect
	golang.org/x/term v0.29.0 // indirect
	gopkg.in/yaml.v3 v3.0.1 // indirect
)

replace github.com/hknutzen/Netspoc-Approve/go => /repo/go

replace github.com/tailscale/goexpect => ./overlay/fakeexpect
