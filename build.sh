#!/bin/bash
# Build the verification driver against /repo's current working tree.
# Everything is offline: module cache only.
set -e
cd "$(dirname "$0")/harness"
export GOFLAGS=-mod=mod GOPROXY=off GOSUMDB=off GOTOOLCHAIN=local
export GOCACHE=${GOCACHE:-/root/.cache/go-build}
cp /repo/go/go.sum go.sum.repo 2>/dev/null || true
# keep our go.sum a superset of the repository's
if [ -f go.sum ]; then sort -u go.sum go.sum.repo > go.sum.new && mv go.sum.new go.sum; else cp go.sum.repo go.sum; fi
rm -f go.sum.repo
mkdir -p ../.build/bin
go build -o ../.build/verif ./cmd/verif
# the repository's own binaries (used by process-level checks)
if [ "$1" = "all" ]; then
  (cd /repo/go && go build -o /verif/.build/bin/ ./cmd/...)
fi
