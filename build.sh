#!/bin/bash
# Build the verification driver against /repo's current working tree.
# Everything is offline: module cache only.  The driver is built with
# -tags verif; the third-party package github.com/tailscale/goexpect is
# replaced by a synchronous stand-in (harness/overlay/fakeexpect, a local
# module selected by the `replace` directive of harness/go.mod); /repo
# itself is not touched.
#
# No file of the module cache is ever named in a build overlay: cmd/go keeps
# a per-module index of the module cache in GOCACHE that is keyed by the
# module directory alone, so an overlay build that is the first to index a
# module stores the constraints and imports of the overlay files, and every
# later build WITHOUT the overlay (tools/maprange, the repository's own
# binaries and tests) then sees "build constraints exclude all Go files".
# That is what broke setup on a fresh restore (DESIGN 8.4).
set -e
cd "$(dirname "$0")/harness"
# the repository under verification (tools/try_seed_iso.sh points this at a
# scratch copy; every registered command uses /repo)
REPO=${VERIF_REPO:-/repo}
BUILD=$(cd .. && pwd)/.build
if [ "$REPO" != /repo ]; then
  go mod edit -replace github.com/hknutzen/Netspoc-Approve/go=$REPO/go
fi
export GOFLAGS=-mod=mod GOPROXY=off GOSUMDB=off GOTOOLCHAIN=local
export GOCACHE=${GOCACHE:-/root/.cache/go-build}
cp $REPO/go/go.sum go.sum.repo 2>/dev/null || true
# keep our go.sum a superset of the repository's
if [ -f go.sum ]; then sort -u go.sum go.sum.repo > go.sum.new && mv go.sum.new go.sum; else cp go.sum.repo go.sum; fi
rm -f go.sum.repo
mkdir -p ../.build/bin
rm -f ../.build/overlay.json
# A build cache poisoned by the earlier overlay scheme (see above) makes the
# repository itself unbuildable; it cannot be told from the outside which
# entry is wrong, so the cache is dropped and rebuilt (about a minute, once).
# (expect.go of the real module carries no build constraint at all.)
if (cd $REPO/go && go list -e -f '{{.IgnoredGoFiles}}' github.com/tailscale/goexpect 2>/dev/null) | grep -qw expect.go; then
  echo "build.sh: module index of goexpect in $GOCACHE is stale; go clean -cache"
  go clean -cache
fi
go build -tags verif -o ../.build/verif ./cmd/verif
# second driver binary for C16: additionally every `range <map>` of the
# repository is rewritten (tools/maprange) to go through verifmap.Order
(cd ../tools/maprange && go build -o ../../.build/maprange .)
rm -rf ../.build/mapr
../.build/maprange $REPO/go "$(cd .. && pwd)/.build/mapr" > ../.build/maprange.log
go run ./cmd/lockpoints $REPO/go "$(cd .. && pwd)/.build/lockpoints_main.go"
python3 - "$REPO" <<'EOP'
import json,sys,os
repo=sys.argv[1]
build=os.path.abspath(os.path.join(os.getcwd(),'..','.build'))
m=json.load(open(os.path.join(build,'mapr','overlay.json')))['Replace']
assert not [k for k in m if '/pkg/mod/' in k], "no module-cache file may be overlaid"
m[repo+'/go/pkg/verifmap/order.go']=os.path.join(os.getcwd(),'overlay','verifmap','order.go')
m[repo+'/go/pkg/verifsched/sched.go']=os.path.join(os.getcwd(),'overlay','verifsched','sched.go')
assert repo+'/go/pkg/device/main.go' not in m, "device/main.go has a range over a map now: merge the two rewrites"
m[repo+'/go/pkg/device/main.go']=os.path.join(build,'lockpoints_main.go')
json.dump({'Replace':m},open(os.path.join(build,'overlay-map.json'),'w'),indent=1)
EOP
go build -tags "verif verifmap" -overlay ../.build/overlay-map.json -o ../.build/verif-map ./cmd/verif
# the repository's own binaries (used by process-level checks), built
# without any overlay
if true; then
  (cd $REPO/go && go build -o "$BUILD/bin/" ./cmd/...)
fi
