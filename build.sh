#!/bin/bash
# Build the verification driver against /repo's current working tree.
# Everything is offline: module cache only.  The driver is built with
# -tags verif and a build overlay that replaces the third-party package
# github.com/tailscale/goexpect by a synchronous stand-in
# (harness/overlay/fakeexpect); /repo itself is not touched.
set -e
cd "$(dirname "$0")/harness"
# the repository under verification (tools/try_seed_iso.sh points this at a
# scratch copy; every registered command uses /repo)
REPO=${VERIF_REPO:-/repo}
BUILD=$(cd .. && pwd)/.build
if [ "$REPO" != /repo ]; then
  go mod edit -replace github.com/hknutzen/Netspoc-Approve/go=$REPO/go
fi
export GOFLAGS=-mod=mod GOPROXY=off GOSUMDB=off GOTOOLCHAIN=local
export GOCACHE=${GOCACHE:-/root/.cache/go-build}
cp $REPO/go/go.sum go.sum.repo 2>/dev/null || true
# keep our go.sum a superset of the repository's
if [ -f go.sum ]; then sort -u go.sum go.sum.repo > go.sum.new && mv go.sum.new go.sum; else cp go.sum.repo go.sum; fi
rm -f go.sum.repo
mkdir -p ../.build/bin
EXPDIR=$(go list -m -f '{{.Dir}}' github.com/tailscale/goexpect)
OV=$(pwd)/overlay/fakeexpect
cat > ../.build/overlay.json <<EOJ
{"Replace": {
 "$EXPDIR/expect.go": "$OV/expect.go",
 "$EXPDIR/codes.go": "$OV/empty.go",
 "$EXPDIR/codes_string.go": "$OV/empty.go"
}}
EOJ
go build -tags verif -overlay ../.build/overlay.json -o ../.build/verif ./cmd/verif
# second driver binary for C16: additionally every `range <map>` of the
# repository is rewritten (tools/maprange) to go through verifmap.Order
(cd ../tools/maprange && go build -o ../../.build/maprange .)
rm -rf ../.build/mapr
../.build/maprange $REPO/go "$(cd .. && pwd)/.build/mapr" > ../.build/maprange.log
go run ./cmd/lockpoints $REPO/go "$(cd .. && pwd)/.build/lockpoints_main.go"
python3 - "$EXPDIR" "$OV" "$REPO" <<'EOP'
import json,sys,os
expdir,ov,repo=sys.argv[1],sys.argv[2],sys.argv[3]
build=os.path.abspath(os.path.join(os.getcwd(),'..','.build'))
m=json.load(open(os.path.join(build,'mapr','overlay.json')))['Replace']
m[expdir+'/expect.go']=ov+'/expect.go'
m[expdir+'/codes.go']=ov+'/empty.go'
m[expdir+'/codes_string.go']=ov+'/empty.go'
m[repo+'/go/pkg/verifmap/order.go']=os.path.join(os.getcwd(),'overlay','verifmap','order.go')
m[repo+'/go/pkg/verifsched/sched.go']=os.path.join(os.getcwd(),'overlay','verifsched','sched.go')
assert repo+'/go/pkg/device/main.go' not in m, "device/main.go has a range over a map now: merge the two rewrites"
m[repo+'/go/pkg/device/main.go']=os.path.join(build,'lockpoints_main.go')
json.dump({'Replace':m},open(os.path.join(build,'overlay-map.json'),'w'),indent=1)
EOP
go build -tags "verif verifmap" -overlay ../.build/overlay-map.json -o ../.build/verif-map ./cmd/verif
# the repository's own binaries (used by process-level checks), built
# without any overlay
if true; then
  (cd $REPO/go && go build -o "$BUILD/bin/" ./cmd/...)
fi
