#!/bin/bash
# Build the verification driver against /repo's current working tree.
# Everything is offline: module cache only.  The driver is built with
# -tags verif and a build overlay that replaces the third-party package
# github.com/tailscale/goexpect by a synchronous stand-in
# (harness/overlay/fakeexpect); /repo itself is not touched.
set -e
cd "$(dirname "$0")/harness"
export GOFLAGS=-mod=mod GOPROXY=off GOSUMDB=off GOTOOLCHAIN=local
export GOCACHE=${GOCACHE:-/root/.cache/go-build}
cp /repo/go/go.sum go.sum.repo 2>/dev/null || true
# keep our go.sum a superset of the repository's
if [ -f go.sum ]; then sort -u go.sum go.sum.repo > go.sum.new && mv go.sum.new go.sum; else cp go.sum.repo go.sum; fi
rm -f go.sum.repo
mkdir -p ../.build/bin
EXPDIR=$(go list -m -f '{{.Dir}}' github.com/tailscale/goexpect)
OV=$(pwd)/overlay/fakeexpect
cat > ../.build/overlay.json <<EOJ
{"Replace": {
 "$EXPDIR/expect.go": "$OV/expect.go",
 "$EXPDIR/codes.go": "$OV/empty.go",
 "$EXPDIR/codes_string.go": "$OV/empty.go"
}}
EOJ
go build -tags verif -overlay ../.build/overlay.json -o ../.build/verif ./cmd/verif
# the repository's own binaries (used by process-level checks), built
# without any overlay
if [ "$1" = "all" ]; then
  (cd /repo/go && go build -o /verif/.build/bin/ ./cmd/...)
fi
